//! (6) handshake: bounded-exhaustive request shapes against the documented conditions of
//! `verify_handshake`, and the accept key against hand-written SHA-1 + base64.

use actix_http::header::{self, HeaderValue};
use actix_http::ws::{handshake, verify_handshake};
use actix_http::RequestHead;
use serde::{Deserialize, Serialize};
use serde_json::{json, Value};

use crate::refm::accept_key;
use crate::seg::Finding;

#[derive(Clone, Debug, Serialize, Deserialize)]
pub struct HsCase {
    pub method: String,
    pub upgrade: Option<String>,
    pub connection: Option<String>,
    pub version: Option<String>,
    pub key: Option<String>,
}

fn contains_ci(h: &Option<String>, needle: &str) -> bool {
    h.as_ref().map(|s| s.to_ascii_lowercase().contains(needle)).unwrap_or(false)
}

/// documented conditions (one `HandshakeError` variant each)
pub fn expected_accept(c: &HsCase) -> bool {
    c.method == "GET"
        && contains_ci(&c.upgrade, "websocket")
        && contains_ci(&c.connection, "upgrade")
        && matches!(c.version.as_deref(), Some("13") | Some("8") | Some("7"))
        && c.key.is_some()
}

pub fn run_case(c: &HsCase, trace: bool) -> (Vec<Finding>, String) {
    let mut out = vec![];
    let mut head = RequestHead::default();
    head.method = actix_http::Method::from_bytes(c.method.as_bytes()).unwrap();
    let mut put = |name: header::HeaderName, v: &Option<String>| {
        if let Some(v) = v {
            head.headers_mut().insert(name, HeaderValue::from_str(v).unwrap());
        }
    };
    put(header::UPGRADE, &c.upgrade);
    put(header::CONNECTION, &c.connection);
    put(header::SEC_WEBSOCKET_VERSION, &c.version);
    put(header::SEC_WEBSOCKET_KEY, &c.key);
    let v = verify_handshake(&head);
    let h = handshake(&head);
    let want = expected_accept(c);
    let outcome = match &v {
        Ok(()) => "accept".to_string(),
        Err(e) => format!("{e:?}"),
    };
    if trace {
        println!("  {c:?} -> verify_handshake = {outcome}, handshake ok = {}", h.is_ok());
    }
    if v.is_ok() != h.is_ok() {
        out.push(Finding {
            clause: "handshake",
            signature: "handshake-and-verify-disagree".into(),
            what: format!("{c:?}: verify_handshake={outcome} but handshake ok={}", h.is_ok()),
        });
    }
    if v.is_ok() != want {
        out.push(Finding {
            clause: "handshake",
            signature: if want {
                format!("well-formed-upgrade-refused:{outcome}")
            } else {
                let miss = if c.method != "GET" {
                    "method"
                } else if !contains_ci(&c.upgrade, "websocket") {
                    "upgrade"
                } else if !contains_ci(&c.connection, "upgrade") {
                    "connection"
                } else if c.key.is_none() {
                    "key"
                } else {
                    "version"
                };
                format!("malformed-upgrade-accepted:{miss}")
            },
            what: format!("{c:?}: expected accept={want}, got {outcome}"),
        });
    }
    if let Ok(mut b) = h {
        let res = b.finish();
        let status = res.status().as_u16();
        let acc = res
            .headers()
            .get(header::SEC_WEBSOCKET_ACCEPT)
            .map(|v| String::from_utf8_lossy(v.as_bytes()).into_owned());
        let wantk = accept_key(c.key.as_deref().unwrap_or("").as_bytes());
        if trace {
            println!("  response status {status}, Sec-WebSocket-Accept {acc:?}, RFC 6455 value {wantk}");
        }
        if status != 101 {
            out.push(Finding {
                clause: "handshake",
                signature: "accepted-but-status-not-101".into(),
                what: format!("{c:?}: status {status}"),
            });
        }
        if acc.as_deref() != Some(&wantk) {
            out.push(Finding {
                clause: "handshake",
                signature: "accept-key-differs-from-rfc6455".into(),
                what: format!(
                    "key {:?}: Sec-WebSocket-Accept is {acc:?}, RFC 6455 §4.2.2 gives {wantk}",
                    c.key
                ),
            });
        }
        return (out, format!("accept:{}", acc.unwrap_or_default()));
    }
    (out, outcome)
}

pub fn replay_value(c: &HsCase) -> Value {
    json!({"kind": "hs", "case": serde_json::to_value(c).unwrap()})
}
