//! Independent reference for C14: an RFC 6455 §5.2 frame builder/parser, the 2-state reference
//! machine for frame sequences, the byte-wise masking definition, SHA-1 and base64 written by hand.
//! Nothing in this file calls into `actix_http::ws`.

use serde::{Deserialize, Serialize};

pub const OP_CONT: u8 = 0;
pub const OP_TEXT: u8 = 1;
pub const OP_BIN: u8 = 2;
pub const OP_CLOSE: u8 = 8;
pub const OP_PING: u8 = 9;
pub const OP_PONG: u8 = 10;

/// Close codes used when a generated Close frame has a payload of >= 2 bytes.
pub const CLOSE_CODES: [u16; 16] = [
    1000, 1001, 1002, 1003, 1006, 1007, 1008, 1009, 1010, 1011, 1012, 1013, 1015, 3000, 4999, 999,
];

/// RFC 6455 §7.4.1 / IANA registry numbers → the variant names of `ws::CloseCode` (API names).
pub fn close_code_name(code: u16) -> String {
    match code {
        1000 => "Normal".into(),
        1001 => "Away".into(),
        1002 => "Protocol".into(),
        1003 => "Unsupported".into(),
        1006 => "Abnormal".into(),
        1007 => "Invalid".into(),
        1008 => "Policy".into(),
        1009 => "Size".into(),
        1010 => "Extension".into(),
        1011 => "Error".into(),
        1012 => "Restart".into(),
        1013 => "Again".into(),
        1015 => "Tls".into(),
        n => format!("Other({n})"),
    }
}

/// One raw frame as put on the wire by the generator (may be illegal on purpose).
#[derive(Clone, Debug, Serialize, Deserialize, PartialEq, Eq, Hash)]
pub struct FrameSpec {
    pub fin: bool,
    /// RSV1..3 as the three bits 0b0111_0000 >> 4
    pub rsv: u8,
    pub opcode: u8,
    pub mask: Option<[u8; 4]>,
    /// payload length announced in the header
    pub announce: u64,
    /// payload bytes really present in the stream (== announce unless the stream ends early)
    pub present: u64,
    /// 0 = minimal length encoding, 1 = force the 16-bit form, 2 = force the 64-bit form
    pub lenform: u8,
    pub seed: u8,
}

impl FrameSpec {
    pub fn new(opcode: u8, fin: bool, mask: Option<[u8; 4]>, len: u64, seed: u8) -> Self {
        FrameSpec { fin, rsv: 0, opcode, mask, announce: len, present: len, lenform: 0, seed }
    }

    pub fn is_control(&self) -> bool {
        self.opcode & 0x8 != 0
    }

    /// the unmasked payload bytes that are present
    pub fn plain(&self) -> Vec<u8> {
        let n = self.present as usize;
        let mut v = Vec::with_capacity(n);
        if self.opcode == OP_CLOSE && self.announce >= 2 {
            let code = CLOSE_CODES[(self.seed as usize) % CLOSE_CODES.len()];
            for i in 0..n {
                v.push(match i {
                    0 => (code >> 8) as u8,
                    1 => (code & 0xff) as u8,
                    _ => b'a' + ((i + self.seed as usize) % 26) as u8,
                });
            }
        } else {
            for i in 0..n {
                v.push((self.seed as usize).wrapping_add(i * 7).wrapping_add((i >> 8) * 13) as u8);
            }
        }
        v
    }

    /// RFC 6455 §5.2 header
    pub fn header(&self) -> Vec<u8> {
        let mut h = Vec::with_capacity(14);
        h.push(((self.fin as u8) << 7) | ((self.rsv & 7) << 4) | (self.opcode & 0x0f));
        let m = if self.mask.is_some() { 0x80u8 } else { 0 };
        let form = match self.lenform {
            0 => {
                if self.announce <= 125 {
                    0
                } else if self.announce <= 65_535 {
                    1
                } else {
                    2
                }
            }
            f => f,
        };
        match form {
            0 => h.push(m | self.announce as u8),
            1 => {
                h.push(m | 126);
                h.extend_from_slice(&(self.announce as u16).to_be_bytes());
            }
            _ => {
                h.push(m | 127);
                h.extend_from_slice(&self.announce.to_be_bytes());
            }
        }
        if let Some(k) = self.mask {
            h.extend_from_slice(&k);
        }
        h
    }

    pub fn nonminimal(&self) -> bool {
        match self.lenform {
            0 => false,
            1 => self.announce <= 125,
            _ => self.announce <= 65_535,
        }
    }

    pub fn wire(&self) -> Vec<u8> {
        let mut w = self.header();
        let mut p = self.plain();
        if let Some(k) = self.mask {
            xor_mask(&mut p, k);
        }
        w.extend_from_slice(&p);
        w
    }

    pub fn class(&self) -> String {
        let op = match self.opcode {
            OP_CONT => "Cont".to_string(),
            OP_TEXT => "Text".to_string(),
            OP_BIN => "Binary".to_string(),
            OP_CLOSE => "Close".to_string(),
            OP_PING => "Ping".to_string(),
            OP_PONG => "Pong".to_string(),
            _ => "Reserved".to_string(),
        };
        let l = match self.announce {
            0 => "len0",
            1..=125 => "len1-125",
            126..=65_535 => "len126-65535",
            _ => "len>=65536",
        };
        format!("{op}.fin{}.{l}", self.fin as u8)
    }
}

/// the definition of RFC 6455 §5.3: transformed[i] = original[i] XOR key[i mod 4]
pub fn xor_mask(buf: &mut [u8], key: [u8; 4]) {
    for (i, b) in buf.iter_mut().enumerate() {
        *b ^= key[i % 4];
    }
}

/// What a delivered frame looks like, independent of the crate's types.
#[derive(Clone, Debug, PartialEq, Eq, Hash)]
pub enum Obs {
    Text(Vec<u8>),
    Binary(Vec<u8>),
    FirstText(Vec<u8>),
    FirstBinary(Vec<u8>),
    Continue(Vec<u8>),
    Last(Vec<u8>),
    Ping(Vec<u8>),
    Pong(Vec<u8>),
    /// (close code variant name, description)
    Close(Option<(String, Option<String>)>),
}

impl Obs {
    pub fn kind(&self) -> &'static str {
        match self {
            Obs::Text(_) => "Text",
            Obs::Binary(_) => "Binary",
            Obs::FirstText(_) => "FirstText",
            Obs::FirstBinary(_) => "FirstBinary",
            Obs::Continue(_) => "Continue",
            Obs::Last(_) => "Last",
            Obs::Ping(_) => "Ping",
            Obs::Pong(_) => "Pong",
            Obs::Close(None) => "Close(None)",
            Obs::Close(Some(_)) => "Close(Some)",
        }
    }
    pub fn payload(&self) -> Option<&[u8]> {
        match self {
            Obs::Text(p)
            | Obs::Binary(p)
            | Obs::FirstText(p)
            | Obs::FirstBinary(p)
            | Obs::Continue(p)
            | Obs::Last(p)
            | Obs::Ping(p)
            | Obs::Pong(p) => Some(p),
            Obs::Close(_) => None,
        }
    }
    /// number of payload bytes this delivered frame carries
    pub fn payload_len(&self) -> usize {
        match self {
            Obs::Close(None) => 0,
            Obs::Close(Some((_, d))) => 2 + d.as_ref().map(|s| s.len()).unwrap_or(0),
            o => o.payload().map(|p| p.len()).unwrap_or(0),
        }
    }
    pub fn short(&self) -> String {
        match self {
            Obs::Close(c) => format!("Close({c:?})"),
            o => {
                let p = o.payload().unwrap();
                format!("{}(len={},fnv={:08x})", o.kind(), p.len(), mc_core::fnv(p) as u32)
            }
        }
    }
}

/// Reference reading of a Close payload (RFC 6455 §5.5.1): 2-byte code then UTF-8 reason.
pub fn ref_close(p: &[u8]) -> Option<(String, Option<String>)> {
    if p.len() < 2 {
        return None;
    }
    let code = u16::from_be_bytes([p[0], p[1]]);
    let desc =
        if p.len() > 2 { Some(String::from_utf8_lossy(&p[2..]).into_owned()) } else { None };
    Some((close_code_name(code), desc))
}

/// Why the reference machine rejects a frame (the classes listed in the property statement).
#[derive(Clone, Copy, Debug, PartialEq, Eq, Hash)]
pub enum Why {
    UnmaskedToServer,
    MaskedToClient,
    ReservedOpcode,
    Oversize,
    ControlFragmented,
    ControlOverlong,
    ContinuationWithoutStart,
    StartInsideFragmented,
}

#[derive(Clone, Debug, PartialEq, Eq)]
pub enum Exp {
    /// legal frame: must be delivered exactly like this
    Deliver(Obs),
    /// listed protocol violation: must be refused
    Reject(Why),
    /// over-long Close: refused, or surfaced as the payload-less protocol close `Close(None)`
    RejectOrCloseNone(Why),
    /// not covered by the statement (RSV bits, non-minimal length, complete data frame inside a
    /// fragmented message): refusing is fine; if delivered the content must be this
    Either(Obs, &'static str),
}

/// The reference 2-state machine. `frag` = a fragmented message is in progress.
/// Only meaningful for frames whose payload is completely present.
pub fn ref_step(server: bool, max_size: usize, frag: bool, f: &FrameSpec) -> (Exp, bool) {
    if server && f.mask.is_none() {
        return (Exp::Reject(Why::UnmaskedToServer), frag);
    }
    if !server && f.mask.is_some() {
        return (Exp::Reject(Why::MaskedToClient), frag);
    }
    if !matches!(f.opcode, OP_CONT | OP_TEXT | OP_BIN | OP_CLOSE | OP_PING | OP_PONG) {
        return (Exp::Reject(Why::ReservedOpcode), frag);
    }
    if f.announce > max_size as u64 {
        return (Exp::Reject(Why::Oversize), frag);
    }
    if f.is_control() {
        if f.announce > 125 {
            return if f.opcode == OP_CLOSE {
                (Exp::RejectOrCloseNone(Why::ControlOverlong), frag)
            } else {
                (Exp::Reject(Why::ControlOverlong), frag)
            };
        }
        if !f.fin {
            return (Exp::Reject(Why::ControlFragmented), frag);
        }
    }
    let p = f.plain();
    let (obs, nfrag, special) = match (f.opcode, f.fin) {
        (OP_CONT, _) if !frag => {
            return (Exp::Reject(Why::ContinuationWithoutStart), frag);
        }
        (OP_CONT, true) => (Obs::Last(p), false, None),
        (OP_CONT, false) => (Obs::Continue(p), true, None),
        (OP_TEXT | OP_BIN, false) if frag => {
            return (Exp::Reject(Why::StartInsideFragmented), frag);
        }
        (OP_TEXT, false) => (Obs::FirstText(p), true, None),
        (OP_BIN, false) => (Obs::FirstBinary(p), true, None),
        (OP_TEXT, true) => (
            Obs::Text(p),
            frag,
            if frag { Some("complete data frame inside a fragmented message") } else { None },
        ),
        (OP_BIN, true) => (
            Obs::Binary(p),
            frag,
            if frag { Some("complete data frame inside a fragmented message") } else { None },
        ),
        (OP_PING, _) => (Obs::Ping(p), frag, None),
        (OP_PONG, _) => (Obs::Pong(p), frag, None),
        (OP_CLOSE, _) => (Obs::Close(ref_close(&p)), frag, None),
        _ => unreachable!(),
    };
    let special = if f.rsv != 0 {
        Some("RSV bits set")
    } else if f.nonminimal() {
        Some("non-minimal length encoding")
    } else {
        special
    };
    match special {
        Some(note) => (Exp::Either(obs, note), nfrag),
        None => (Exp::Deliver(obs), nfrag),
    }
}

/// A lenient RFC 6455 parse of exactly one frame from `w` (used to check what the real encoder
/// wrote). Returns (fin, rsv, opcode, masked, minimal, unmasked payload, bytes consumed).
pub fn ref_parse(w: &[u8]) -> Option<(bool, u8, u8, bool, bool, Vec<u8>, usize)> {
    if w.len() < 2 {
        return None;
    }
    let fin = w[0] & 0x80 != 0;
    let rsv = (w[0] >> 4) & 7;
    let op = w[0] & 0x0f;
    let masked = w[1] & 0x80 != 0;
    let l7 = (w[1] & 0x7f) as u64;
    let mut idx = 2usize;
    let (len, minimal) = match l7 {
        126 => {
            if w.len() < 4 {
                return None;
            }
            let l = u16::from_be_bytes([w[2], w[3]]) as u64;
            idx = 4;
            (l, l > 125)
        }
        127 => {
            if w.len() < 10 {
                return None;
            }
            let mut b = [0u8; 8];
            b.copy_from_slice(&w[2..10]);
            let l = u64::from_be_bytes(b);
            idx = 10;
            (l, l > 65_535)
        }
        l => (l, true),
    };
    let key = if masked {
        if w.len() < idx + 4 {
            return None;
        }
        let k = [w[idx], w[idx + 1], w[idx + 2], w[idx + 3]];
        idx += 4;
        Some(k)
    } else {
        None
    };
    let len = usize::try_from(len).ok()?;
    if w.len() < idx.checked_add(len)? {
        return None;
    }
    let mut p = w[idx..idx + len].to_vec();
    if let Some(k) = key {
        xor_mask(&mut p, k);
    }
    Some((fin, rsv, op, masked, minimal, p, idx + len))
}

// ---------------------------------------------------------------------------------------------
// SHA-1 (FIPS 180-4) and base64 (RFC 4648) by hand — the accept-key oracle.

pub fn sha1(msg: &[u8]) -> [u8; 20] {
    let mut h: [u32; 5] = [0x67452301, 0xEFCDAB89, 0x98BADCFE, 0x10325476, 0xC3D2E1F0];
    let mut m = msg.to_vec();
    let bitlen = (msg.len() as u64).wrapping_mul(8);
    m.push(0x80);
    while m.len() % 64 != 56 {
        m.push(0);
    }
    m.extend_from_slice(&bitlen.to_be_bytes());
    for block in m.chunks(64) {
        let mut w = [0u32; 80];
        for t in 0..16 {
            w[t] = u32::from_be_bytes([block[4 * t], block[4 * t + 1], block[4 * t + 2], block[4 * t + 3]]);
        }
        for t in 16..80 {
            w[t] = (w[t - 3] ^ w[t - 8] ^ w[t - 14] ^ w[t - 16]).rotate_left(1);
        }
        let (mut a, mut b, mut c, mut d, mut e) = (h[0], h[1], h[2], h[3], h[4]);
        for (t, wt) in w.iter().enumerate() {
            let (f, k) = match t {
                0..=19 => ((b & c) | (!b & d), 0x5A827999u32),
                20..=39 => (b ^ c ^ d, 0x6ED9EBA1),
                40..=59 => ((b & c) | (b & d) | (c & d), 0x8F1BBCDC),
                _ => (b ^ c ^ d, 0xCA62C1D6),
            };
            let tmp = a
                .rotate_left(5)
                .wrapping_add(f)
                .wrapping_add(e)
                .wrapping_add(k)
                .wrapping_add(*wt);
            e = d;
            d = c;
            c = b.rotate_left(30);
            b = a;
            a = tmp;
        }
        h[0] = h[0].wrapping_add(a);
        h[1] = h[1].wrapping_add(b);
        h[2] = h[2].wrapping_add(c);
        h[3] = h[3].wrapping_add(d);
        h[4] = h[4].wrapping_add(e);
    }
    let mut out = [0u8; 20];
    for i in 0..5 {
        out[4 * i..4 * i + 4].copy_from_slice(&h[i].to_be_bytes());
    }
    out
}

pub fn base64(data: &[u8]) -> String {
    const T: &[u8; 64] = b"ABCDEFGHIJKLMNOPQRSTUVWXYZabcdefghijklmnopqrstuvwxyz0123456789+/";
    let mut s = String::new();
    for c in data.chunks(3) {
        let b0 = c[0] as u32;
        let b1 = *c.get(1).unwrap_or(&0) as u32;
        let b2 = *c.get(2).unwrap_or(&0) as u32;
        let n = (b0 << 16) | (b1 << 8) | b2;
        s.push(T[(n >> 18) as usize & 63] as char);
        s.push(T[(n >> 12) as usize & 63] as char);
        s.push(if c.len() > 1 { T[(n >> 6) as usize & 63] as char } else { '=' });
        s.push(if c.len() > 2 { T[n as usize & 63] as char } else { '=' });
    }
    s
}

/// RFC 6455 §4.2.2: base64(SHA-1(key ++ GUID))
pub fn accept_key(key: &[u8]) -> String {
    let mut m = key.to_vec();
    m.extend_from_slice(b"258EAFA5-E914-47DA-95CA-C5AB0DC85B11");
    base64(&sha1(&m))
}
