fn main() {
    eprintln!("MACHINERY: engine codecx is not built yet");
    std::process::exit(2);
}
