//! codecx — decides C14 (WebSocket handshake and frame codec) by explicit-state search and
//! bounded-exhaustive enumeration on the real `actix_http::ws` codec. See DESIGN.md §4 "C14".

mod hs;
mod maskx;
mod refm;
mod rt;
mod seg;

use std::cell::RefCell;
use std::collections::{BTreeMap, BTreeSet, HashSet, VecDeque};
use std::sync::Mutex;
use std::time::{Duration, Instant};

use actix_http::ws::Codec;
use bytes::BytesMut;
use mc_core::bfs::{bfs, Model, StepErr};
use mc_core::report::{Evidence, Reporter, Violation};
use serde_json::{json, Value};
use tokio_util::codec::Decoder;

use refm::*;
use rt::MsgSpec;
use seg::*;

const PROP: &str = "C14";
const KEYS: [[u8; 4]; 4] =
    [[0x37, 0xfa, 0x21, 0x3d], [0x01, 0x02, 0x04, 0x08], [0xff, 0xff, 0xff, 0xff], [0, 0, 0, 0]];
const MAX_SIZES: [usize; 4] = [0, 125, 126, 65_536];
const MAX_SIZES_THOROUGH: [usize; 9] = [0, 1, 124, 125, 126, 127, 65_535, 65_536, 65_537];
fn max_sizes(thorough: bool) -> &'static [usize] {
    if thorough {
        &MAX_SIZES_THOROUGH
    } else {
        &MAX_SIZES
    }
}

#[derive(Default)]
struct JobOut {
    part: &'static str,
    cases: u64,
    nontrivial_cases: u64,
    states: u64,
    transitions: u64,
    impl_steps: u64,
    decode_calls: u64,
    obs: HashSet<u64>,
    viol: Vec<Violation>,
    notes: Vec<String>,
    sample: Option<Value>,
    capped: bool,
    exhaustive_cuts: bool,
}

impl JobOut {
    fn digest(&self) -> u64 {
        let mut o: Vec<u64> = self.obs.iter().copied().collect();
        o.sort();
        let mut v: Vec<String> =
            self.viol.iter().map(|v| format!("{}|{}|{}", v.clause, v.signature, v.replay)).collect();
        v.sort();
        mc_core::fnv_str(&format!(
            "{}|{}|{}|{}|{}|{:?}|{:?}",
            self.cases, self.states, self.transitions, self.impl_steps, self.decode_calls, o, v
        ))
    }
}

type Job = Box<dyn Fn(Option<Instant>) -> JobOut + Send + Sync>;

fn viol(f: &Finding, replay: Value, weight: u64) -> Violation {
    Violation {
        property: PROP.into(),
        clause: f.clause.into(),
        signature: f.signature.clone(),
        what: f.what.clone(),
        replay,
        weight,
    }
}

// ---------------------------------------------------------------------------------------------
// stream templates

#[derive(Clone, Copy)]
struct T {
    op: u8,
    fin: bool,
    len: u64,
    wrongmask: bool,
    rsv: u8,
    lenform: u8,
    present: Option<u64>,
}

const fn t(op: u8, fin: bool, len: u64) -> T {
    T { op, fin, len, wrongmask: false, rsv: 0, lenform: 0, present: None }
}
impl T {
    const fn wrongmask(mut self) -> T {
        self.wrongmask = true;
        self
    }
    const fn rsv(mut self, r: u8) -> T {
        self.rsv = r;
        self
    }
    const fn form(mut self, f: u8) -> T {
        self.lenform = f;
        self
    }
    const fn present(mut self, p: u64) -> T {
        self.present = Some(p);
        self
    }
    fn spec(&self, server: bool, idx: usize) -> FrameSpec {
        let masked = server ^ self.wrongmask;
        FrameSpec {
            fin: self.fin,
            rsv: self.rsv,
            opcode: self.op,
            mask: if masked { Some(KEYS[idx % KEYS.len()]) } else { None },
            announce: self.len,
            present: self.present.unwrap_or(self.len),
            lenform: self.lenform,
            seed: (idx * 37).wrapping_add(self.len as usize) as u8,
        }
    }
}

fn materialize(label: &str, ts: &[T], server: bool, max_size: usize) -> StreamSpec {
    StreamSpec {
        label: label.to_string(),
        server,
        max_size,
        frames: ts.iter().enumerate().map(|(i, t)| t.spec(server, i)).collect(),
    }
}

fn templates(thorough: bool) -> Vec<(String, Vec<T>)> {
    let mut v: Vec<(String, Vec<T>)> = vec![];
    let mut add = |l: &str, ts: Vec<T>| v.push((l.to_string(), ts));
    // legal
    add("legal-mixed", vec![t(OP_TEXT, true, 0), t(OP_TEXT, true, 1), t(OP_BIN, true, 5), t(OP_PING, true, 0), t(OP_PONG, true, 3), t(OP_CLOSE, true, 2)]);
    add("legal-fragmented", vec![t(OP_TEXT, false, 3), t(OP_PING, true, 2), t(OP_CONT, false, 4), t(OP_CONT, true, 0), t(OP_BIN, true, 2), t(OP_CLOSE, true, 0)]);
    add("legal-fragmented-2", vec![t(OP_BIN, false, 0), t(OP_CONT, true, 1), t(OP_TEXT, true, 7), t(OP_CLOSE, true, 10), t(OP_CLOSE, true, 1)]);
    add("legal-boundaries", vec![t(OP_BIN, true, 125), t(OP_TEXT, true, 126), t(OP_PING, true, 125), t(OP_BIN, true, 127)]);
    add("legal-fragmented-boundaries", vec![t(OP_TEXT, false, 126), t(OP_CONT, false, 125), t(OP_PONG, true, 125), t(OP_CONT, true, 127), t(OP_CLOSE, true, 125)]);
    // illegal, each class after a legal prefix and before a legal suffix
    add("ill-wrongmask", vec![t(OP_TEXT, true, 2), t(OP_TEXT, true, 3).wrongmask(), t(OP_TEXT, true, 1)]);
    add("ill-wrongmask-first", vec![t(OP_BIN, true, 0).wrongmask(), t(OP_TEXT, true, 1)]);
    add("ill-wrongmask-ping126", vec![t(OP_PING, true, 126).wrongmask()]);
    add("ill-reserved-3", vec![t(OP_PING, true, 1), t(3, true, 2), t(OP_TEXT, true, 1)]);
    add("ill-reserved-11", vec![t(11, true, 0), t(OP_TEXT, true, 1)]);
    add("ill-reserved-7-nofin", vec![t(OP_TEXT, true, 1), t(7, false, 1)]);
    add("ill-reserved-15", vec![t(15, true, 126)]);
    add("ill-ping-fragmented", vec![t(OP_TEXT, true, 1), t(OP_PING, false, 2), t(OP_TEXT, true, 1)]);
    add("ill-close-fragmented", vec![t(OP_CLOSE, false, 2), t(OP_TEXT, true, 1)]);
    add("ill-pong-fragmented-infrag", vec![t(OP_TEXT, false, 1), t(OP_PONG, false, 0), t(OP_CONT, true, 1)]);
    add("ill-ping-overlong", vec![t(OP_TEXT, true, 1), t(OP_PING, true, 126), t(OP_TEXT, true, 1)]);
    add("ill-pong-overlong", vec![t(OP_PONG, true, 127), t(OP_TEXT, true, 1)]);
    add("ill-close-overlong", vec![t(OP_TEXT, true, 1), t(OP_CLOSE, true, 126), t(OP_TEXT, true, 1)]);
    add("ill-close-overlong-nofin", vec![t(OP_CLOSE, false, 130), t(OP_TEXT, true, 1)]);
    add("ill-continue-without-start", vec![t(OP_TEXT, true, 1), t(OP_CONT, false, 2), t(OP_TEXT, true, 1)]);
    add("ill-last-without-start", vec![t(OP_CONT, true, 2), t(OP_TEXT, true, 1)]);
    add("ill-continue-after-last", vec![t(OP_BIN, false, 1), t(OP_CONT, true, 1), t(OP_CONT, false, 1), t(OP_TEXT, true, 1)]);
    add("ill-start-inside-fragmented", vec![t(OP_TEXT, false, 1), t(OP_BIN, false, 1), t(OP_CONT, true, 1)]);
    add("ill-start-inside-fragmented-2", vec![t(OP_BIN, false, 2), t(OP_CONT, false, 1), t(OP_TEXT, false, 0), t(OP_CONT, true, 1)]);
    // not covered by the statement (either outcome fine, must be segmentation-independent)
    add("unspec-data-inside-fragmented", vec![t(OP_TEXT, false, 2), t(OP_TEXT, true, 3), t(OP_CONT, true, 1), t(OP_BIN, true, 1)]);
    add("unspec-rsv", vec![t(OP_TEXT, true, 2).rsv(4), t(OP_BIN, true, 1).rsv(1), t(OP_TEXT, true, 1)]);
    add("unspec-nonminimal", vec![t(OP_TEXT, true, 5).form(1), t(OP_BIN, true, 5).form(2), t(OP_BIN, true, 200).form(2), t(OP_TEXT, true, 0).form(1)]);
    // announced only (the stream ends inside the payload)
    add("announce-2^32", vec![t(OP_TEXT, true, 1), t(OP_BIN, true, 1 << 32).present(5)]);
    add("announce-2^63", vec![t(OP_BIN, true, 1 << 63).present(0)]);
    add("announce-u64max", vec![t(OP_TEXT, true, 1), t(OP_BIN, true, u64::MAX).present(3)]);
    add("announce-ping-65536", vec![t(OP_PING, true, 65_536).present(10)]);
    add("announce-65537-partial", vec![t(OP_BIN, false, 65_537).present(300)]);
    add("announce-127-partial", vec![t(OP_TEXT, true, 127).present(20)]);
    if thorough {
        add("legal-medium-1000", vec![t(OP_BIN, false, 1000), t(OP_PING, true, 0), t(OP_CONT, true, 1000)]);
        add("legal-medium-mixed", vec![t(OP_TEXT, true, 300), t(OP_BIN, true, 126), t(OP_TEXT, false, 127), t(OP_CONT, false, 128), t(OP_CONT, true, 255), t(OP_CLOSE, true, 125)]);
        add("ill-medium-late-error", vec![t(OP_TEXT, true, 700), t(OP_BIN, false, 500), t(OP_TEXT, false, 200), t(OP_TEXT, true, 1)]);
        add("unspec-medium-nonminimal64", vec![t(OP_BIN, true, 600).form(2), t(OP_TEXT, true, 126).form(2), t(OP_TEXT, true, 1)]);
    }
    // one frame of every kind × boundary length between two small frames
    let lens: &[u64] = if thorough { &[0, 1, 2, 124, 125, 126, 127, 128] } else { &[0, 1, 125, 126] };
    let ops: Vec<u8> = if thorough { (0u8..16).collect() } else { vec![0, 1, 2, 8, 9, 10, 3, 11] };
    for &op in &ops {
        for &l in lens {
            for fin in [true, false] {
                if !thorough && !fin && (op == 3 || op == 11) {
                    continue;
                }
                add(
                    &format!("single-op{op}-fin{}-len{l}", fin as u8),
                    vec![t(OP_TEXT, true, 1), t(op, fin, l), t(OP_TEXT, true, 1)],
                );
                if op == 0 {
                    add(
                        &format!("infrag-op{op}-fin{}-len{l}", fin as u8),
                        vec![t(OP_BIN, false, 1), t(op, fin, l), t(OP_TEXT, true, 1)],
                    );
                }
            }
        }
    }
    v
}

fn long_templates(thorough: bool) -> Vec<(String, Vec<T>)> {
    let mut v = vec![
        ("long-binary-65535".to_string(), vec![t(OP_BIN, true, 65_535), t(OP_TEXT, true, 1)]),
        ("long-text-65536".to_string(), vec![t(OP_TEXT, true, 65_536), t(OP_PING, true, 3)]),
        ("long-fragmented".to_string(), vec![t(OP_BIN, false, 65_536), t(OP_CONT, true, 65_535)]),
        ("long-oversize-65537".to_string(), vec![t(OP_BIN, true, 65_537), t(OP_TEXT, true, 1)]),
    ];
    if thorough {
        v.push(("long-ping-65535".to_string(), vec![t(OP_PING, true, 65_535), t(OP_TEXT, true, 1)]));
        v.push(("long-close-65536".to_string(), vec![t(OP_CLOSE, true, 65_536), t(OP_TEXT, true, 1)]));
        v.push(("long-nonminimal-64".to_string(), vec![t(OP_BIN, true, 65_535).form(2), t(OP_TEXT, true, 1)]));
        v.push(("long-three".to_string(), vec![t(OP_TEXT, false, 65_535), t(OP_CONT, false, 65_536), t(OP_CONT, true, 65_535)]));
    }
    v
}

// ---------------------------------------------------------------------------------------------
// (2) segmentation jobs

fn seg_bfs_job(label: String, ts: Vec<T>, server: bool, max_size: usize, full_limit: usize, stride: usize) -> Job {
    Box::new(move |deadline| {
        let s = Stream::new(materialize(&label, &ts, server, max_size));
        let (cuts, full) = cut_set(&s, full_limit, stride);
        let aligns: Vec<u8> = if server { vec![0, 1, 2, 3] } else { vec![0, 3] };
        let ncuts = cuts.len();
        let r = seg_bfs(&s, cuts, aligns.clone(), deadline);
        let mut o = JobOut { part: "seg-bfs", ..Default::default() };
        o.cases = r.transitions;
        o.nontrivial_cases = r.obs.len() as u64;
        o.states = r.states;
        o.transitions = r.transitions;
        o.impl_steps = r.transitions;
        o.decode_calls = r.decode_calls;
        o.capped = r.capped;
        o.exhaustive_cuts = full;
        o.obs = r.obs;
        for (f, path) in &r.findings {
            o.viol.push(viol(f, replay_value(&s, path, true), s.bytes.len() as u64 * 1000 + path.len() as u64));
        }
        o.sample = Some(json!({
            "part": "seg-bfs", "stream": label, "role": if server {"server"} else {"client"}, "max_size": max_size,
            "stream_len": s.bytes.len(), "wire_head": mc_core::show_short(&s.bytes, 40), "frames": s.spec.frames.iter().map(|f| f.class()).collect::<Vec<_>>(),
            "expected": s.infos.iter().map(|i| match &i.exp { Exp::Deliver(o) => o.short(), e => format!("{e:?}").chars().take(60).collect() }).collect::<Vec<_>>(),
            "cut_positions": ncuts, "every_offset_is_a_cut": full, "alignments": aligns,
            "states": r.states, "transitions": r.transitions, "terminal_states": r.terminal_states, "max_depth": r.max_depth,
        }));
        o
    })
}

/// every k-subset of `cuts` (without the final n) as a segmentation
fn for_each_subset(cuts: &[usize], k: usize, n: usize, f: &mut dyn FnMut(&[(usize, u8)])) {
    fn rec(cuts: &[usize], k: usize, start: usize, cur: &mut Vec<(usize, u8)>, n: usize, f: &mut dyn FnMut(&[(usize, u8)])) {
        if k == 0 {
            cur.push((n, 0));
            f(cur);
            cur.pop();
            return;
        }
        for i in start..cuts.len() {
            cur.push((cuts[i], 0));
            rec(cuts, k - 1, i + 1, cur, n, f);
            cur.pop();
        }
    }
    rec(cuts, k, 0, &mut vec![], n, f);
}

fn seg_twin_job(label: String, ts: Vec<T>, server: bool, max_size: usize, full_limit: usize, pair_limit: usize, triple_limit: usize) -> Job {
    Box::new(move |deadline| {
        let s = Stream::new(materialize(&label, &ts, server, max_size));
        let n = s.bytes.len();
        let (cuts, full) = cut_set(&s, full_limit, 0);
        let inner: Vec<usize> = cuts.iter().copied().filter(|&c| c < n).collect();
        let mut o = JobOut { part: "seg-unmerged", exhaustive_cuts: full, ..Default::default() };
        let (wf, whole) = run_seg(&s, &[(n, 0)], false, false);
        let mut finals: BTreeMap<String, u64> = BTreeMap::new();
        let mut one = |sg: &[(usize, u8)], o: &mut JobOut| {
            let (fs, sum) = run_seg(&s, sg, false, false);
            o.cases += 1;
            o.impl_steps += sum.feeds;
            o.decode_calls += sum.decode_calls;
            if sum.cut_inside_frame {
                o.nontrivial_cases += 1;
            }
            let fin = format!("{}|{:?}", sum.emitted, sum.err);
            *finals.entry(fin).or_default() += 1;
            for f in &fs {
                if !o.viol.iter().any(|v| v.clause == f.clause && v.signature == f.signature) {
                    o.viol.push(viol(f, replay_value(&s, sg, false), n as u64 * 1000 + sg.len() as u64));
                }
            }
            if fs.is_empty() && (sum.emitted != whole.emitted || sum.err != whole.err) {
                let f = Finding {
                    clause: "segmentation",
                    signature: "final-outcome-differs-from-whole-buffer-decode".into(),
                    what: format!(
                        "whole-buffer decode gives (frames={}, err={:?}) but segmentation {:?} gives (frames={}, err={:?})",
                        whole.emitted, whole.err, sg.iter().map(|x| x.0).collect::<Vec<_>>(), sum.emitted, sum.err
                    ),
                };
                if !o.viol.iter().any(|v| v.signature == f.signature) {
                    o.viol.push(viol(&f, replay_value(&s, sg, false), n as u64 * 1000 + sg.len() as u64));
                }
            }
        };
        let _ = wf;
        one(&[(n, 0)], &mut o);
        let all1: Vec<(usize, u8)> = (1..=n).map(|c| (c, 0)).collect();
        one(&all1, &mut o);
        for_each_subset(&inner, 1, n, &mut |sg| one(sg, &mut o));
        let mut depth = 1;
        let in_time = || deadline.map(|d| Instant::now() < d).unwrap_or(true);
        if (n <= pair_limit || (!full && inner.len() <= 90)) && in_time() {
            for_each_subset(&inner, 2, n, &mut |sg| one(sg, &mut o));
            depth = 2;
        }
        if n <= triple_limit && in_time() {
            for_each_subset(&inner, 3, n, &mut |sg| one(sg, &mut o));
            depth = 3;
        }
        if !in_time() {
            o.capped = true;
        }
        // canonical observation: the final outcome of the stream (all segmentations collapse to one)
        for k in finals.keys() {
            o.obs.insert(mc_core::fnv_str(&format!("twin|{label}|{server}|{max_size}|{k}")));
        }
        o.sample = Some(json!({
            "part": "seg-unmerged", "stream": label, "role": if server {"server"} else {"client"}, "max_size": max_size,
            "stream_len": n, "segmentations_run": o.cases, "cut_subsets_up_to": depth,
            "distinct_final_outcomes": finals.keys().collect::<Vec<_>>(),
        }));
        o
    })
}

// ---------------------------------------------------------------------------------------------
// (3) strictness: frame-sequence state machine

#[derive(Clone)]
struct StrictState {
    codec: Codec,
    frag: bool,
    dead: bool,
}

struct StrictModel {
    server: bool,
    max_size: usize,
    alphabet: Vec<FrameSpec>,
    findings: RefCell<Vec<(Finding, Vec<usize>)>>,
    obs: RefCell<HashSet<u64>>,
    outcomes: RefCell<BTreeMap<String, u64>>,
    notes: RefCell<BTreeSet<String>>,
}

impl Model for StrictModel {
    type State = StrictState;
    type Key = (String, bool, bool);
    type Action = usize;
    fn key(&self, s: &StrictState) -> Self::Key {
        (format!("{:?}", s.codec), s.frag, s.dead)
    }
    fn actions(&self, s: &StrictState) -> Vec<usize> {
        if s.dead {
            vec![]
        } else {
            (0..self.alphabet.len()).collect()
        }
    }
    fn step(&self, s: &StrictState, a: &usize, path: &[usize]) -> Result<Option<StrictState>, StepErr> {
        let f = &self.alphabet[*a];
        let mut codec = s.codec.clone();
        let mut buf = BytesMut::from(&f.wire()[..]);
        let (exp, nfrag) = ref_step(self.server, self.max_size, s.frag, f);
        let mut out = vec![];
        let mut dead = false;
        let mut frag = s.frag;
        let r = quiet_catch(|| codec.decode(&mut buf));
        let outcome;
        match r {
            Err(_) => {
                out.push(Finding { clause: "panic", signature: "decode-panicked".into(), what: format!("decode panicked on {}", f.class()) });
                dead = true;
                outcome = "panic".to_string();
            }
            Ok(Err(e)) => {
                let d = format!("{e:?}");
                judge(&exp, Got::Err(&d), f, self.max_size, &mut out);
                dead = true;
                outcome = format!("Err:{}", err_kind(&d));
            }
            Ok(Ok(Some(fr))) => {
                let o = obs_of(&fr);
                judge(&exp, Got::Frame(&o), f, self.max_size, &mut out);
                if !buf.is_empty() {
                    out.push(Finding { clause: "segmentation", signature: "consumed-length-wrong".into(), what: format!("{} left {} bytes", f.class(), buf.len()) });
                }
                if !out.is_empty() {
                    dead = true;
                }
                if !matches!(exp, Exp::RejectOrCloseNone(_)) {
                    frag = nfrag;
                }
                outcome = format!("Ok:{}", o.kind());
            }
            Ok(Ok(None)) => {
                let oversize = matches!(exp, Exp::Reject(Why::Oversize));
                out.push(Finding {
                    clause: "segmentation",
                    signature: format!("complete-frame-not-decoded:{}", if oversize { "oversize".into() } else { f.class() }),
                    what: format!("complete frame {} gave Ok(None)", f.class()),
                });
                dead = true;
                outcome = "None".to_string();
            }
        }
        match &exp {
            Exp::Either(_, why) => {
                self.notes.borrow_mut().insert(format!("statement-neutral shape '{why}': decoder answered {}", outcome.split(':').next().unwrap_or("")));
            }
            Exp::RejectOrCloseNone(_) => {
                self.notes.borrow_mut().insert(format!("over-long Close frame: decoder answered {outcome}"));
            }
            _ => {}
        }
        *self.outcomes.borrow_mut().entry(outcome.clone()).or_default() += 1;
        self.obs.borrow_mut().insert(mc_core::fnv_str(&format!(
            "strict|{}|{}|{}|{:?}|{outcome}",
            self.server, self.max_size, s.frag, f
        )));
        if !out.is_empty() {
            let mut p = path.to_vec();
            p.push(*a);
            let mut fs = self.findings.borrow_mut();
            for f in out {
                if !fs.iter().any(|(g, _)| g.clause == f.clause && g.signature == f.signature) {
                    fs.push((f, p.clone()));
                }
            }
        }
        Ok(Some(StrictState { codec, frag, dead }))
    }
}

fn strict_alphabet(server: bool, thorough: bool) -> Vec<FrameSpec> {
    let ops: Vec<u8> = if thorough { (0u8..16).collect() } else { vec![0, 1, 2, 8, 9, 10, 3, 7, 11, 15] };
    let lens: &[u64] = if thorough { &[0, 1, 2, 125, 126, 127, 65_535, 65_536, 65_537] } else { &[0, 1, 125, 126] };
    let mut v = vec![];
    let mut i = 0usize;
    for &op in &ops {
        for fin in [true, false] {
            for wrong in [false, true] {
                for &l in lens {
                    let mut tt = t(op, fin, l);
                    tt.wrongmask = wrong;
                    v.push(tt.spec(server, i));
                    i += 1;
                }
            }
        }
    }
    // statement-neutral shapes
    v.push(t(OP_TEXT, true, 1).rsv(4).spec(server, i));
    v.push(t(OP_BIN, true, 1).form(1).spec(server, i + 1));
    v.push(t(OP_BIN, true, 1).form(2).spec(server, i + 2));
    v
}

fn seq_stream(label: &str, server: bool, max_size: usize, frames: Vec<FrameSpec>) -> (Stream, Vec<(usize, u8)>) {
    let s = Stream::new(StreamSpec { label: label.into(), server, max_size, frames });
    let mut sg = vec![];
    let mut pos = 0;
    for f in &s.spec.frames {
        pos += f.header().len() + f.present as usize;
        sg.push((pos, 0u8));
    }
    (s, sg)
}

fn strict_bfs_job(server: bool, max_size: usize, thorough: bool) -> Job {
    Box::new(move |_| {
        let m = StrictModel {
            server,
            max_size,
            alphabet: strict_alphabet(server, thorough),
            findings: RefCell::new(vec![]),
            obs: RefCell::new(HashSet::new()),
            outcomes: RefCell::new(BTreeMap::new()),
            notes: RefCell::new(BTreeSet::new()),
        };
        let init = StrictState { codec: mk_codec(server, max_size), frag: false, dead: false };
        let (st, v) = bfs(&m, init, u64::MAX, u32::MAX, None);
        assert!(v.is_empty());
        let mut o = JobOut { part: "strict-bfs", ..Default::default() };
        o.cases = st.transitions;
        o.states = st.states;
        o.transitions = st.transitions;
        o.impl_steps = st.transitions;
        o.decode_calls = st.transitions;
        o.obs = m.obs.take();
        o.nontrivial_cases = o.obs.len() as u64;
        o.notes = m.notes.borrow().iter().cloned().collect();
        for (f, path) in m.findings.take() {
            let frames: Vec<FrameSpec> = path.iter().map(|&i| m.alphabet[i].clone()).collect();
            let (s, sg) = seq_stream("strict-bfs-path", server, max_size, frames);
            o.viol.push(viol(&f, replay_value(&s, &sg, false), s.bytes.len() as u64 * 1000 + path.len() as u64));
        }
        o.sample = Some(json!({
            "part": "strict-bfs", "role": if server {"server"} else {"client"}, "max_size": max_size,
            "alphabet_frames": m.alphabet.len(), "states": st.states, "transitions": st.transitions,
            "fixpoint_reached": !st.capped, "outcomes": *m.outcomes.borrow(),
            "example_actions": m.alphabet.iter().take(3).map(|f| serde_json::to_value(f).unwrap()).collect::<Vec<_>>(),
        }));
        o
    })
}

fn strict_seq_alphabet(server: bool) -> Vec<FrameSpec> {
    let ts = [
        t(OP_TEXT, true, 1),
        t(OP_TEXT, false, 1),
        t(OP_BIN, false, 0),
        t(OP_CONT, false, 1),
        t(OP_CONT, true, 1),
        t(OP_PING, true, 1),
        t(OP_PING, false, 0),
        t(OP_CLOSE, true, 2),
        t(3, true, 0),
        t(OP_TEXT, true, 1).wrongmask(),
        t(OP_PING, true, 126),
        t(OP_CLOSE, true, 126),
    ];
    ts.iter().enumerate().map(|(i, x)| x.spec(server, i)).collect()
}

/// un-merged twin of the strictness search: all frame sequences of length <= depth, each run
/// from a fresh codec through the stream oracle (fed frame by frame, and as one buffer)
fn strict_seq_job(server: bool, max_size: usize, depth: usize, first: usize) -> Job {
    Box::new(move |deadline| {
        let alpha = strict_seq_alphabet(server);
        let mut o = JobOut { part: "strict-unmerged", ..Default::default() };
        let mut idx = vec![first];
        let mut outcomes: BTreeSet<String> = BTreeSet::new();
        // odometer over sequences starting with `first`
        loop {
            let frames: Vec<FrameSpec> = idx.iter().map(|&i| alpha[i].clone()).collect();
            let (s, sg) = seq_stream("strict-seq", server, max_size, frames);
            for whole in [false, true] {
                let sgx: Vec<(usize, u8)> = if whole { vec![(s.bytes.len(), 0)] } else { sg.clone() };
                let (fs, sum) = run_seg(&s, &sgx, false, false);
                o.cases += 1;
                o.impl_steps += sum.feeds;
                o.decode_calls += sum.decode_calls;
                // canonical observation: the frames really executed (up to the first error) + outcome
                let ran = (sum.emitted + sum.err.is_some() as usize).min(idx.len());
                outcomes.insert(format!("{:?}|{}|{:?}", &idx[..ran], sum.emitted, sum.err));
                for f in &fs {
                    if !o.viol.iter().any(|v| v.clause == f.clause && v.signature == f.signature) {
                        o.viol.push(viol(f, replay_value(&s, &sgx, false), s.bytes.len() as u64 * 1000 + sgx.len() as u64));
                    }
                }
            }
            if o.cases % 4096 == 0 && deadline.map(|d| Instant::now() > d).unwrap_or(false) {
                o.capped = true;
                break;
            }
            // next
            if idx.len() < depth {
                idx.push(0);
            } else {
                loop {
                    let l = idx.len();
                    if l == 1 {
                        break;
                    }
                    if idx[l - 1] + 1 < alpha.len() {
                        idx[l - 1] += 1;
                        break;
                    }
                    idx.pop();
                }
                if idx.len() == 1 {
                    break;
                }
            }
        }
        for k in &outcomes {
            o.obs.insert(mc_core::fnv_str(&format!("sseq|{server}|{max_size}|{k}")));
        }
        o.nontrivial_cases = outcomes.len() as u64;
        if first == 1 {
            o.sample = Some(json!({
                "part": "strict-unmerged", "role": if server {"server"} else {"client"}, "max_size": max_size,
                "first_frame": alpha[first].class(), "depth": depth, "sequences_run": o.cases,
                "alphabet": alpha.iter().map(|f| f.class() + if f.mask.is_some() == server { "" } else { ".wrongmask" }).collect::<Vec<_>>(),
            }));
        }
        o
    })
}

// ---------------------------------------------------------------------------------------------
// (1) round trip

fn rt_alphabet(thorough: bool) -> Vec<MsgSpec> {
    let lens = [0usize, 1, 125, 126, 127, 65_535, 65_536];
    let mut v = vec![];
    for &l in &lens {
        v.push(MsgSpec::Text(l));
        v.push(MsgSpec::Binary(l));
        v.push(MsgSpec::FirstText(l));
        v.push(MsgSpec::FirstBinary(l));
        v.push(MsgSpec::Continue(l));
        v.push(MsgSpec::Last(l));
    }
    for l in [0usize, 1, 2, 124, 125] {
        v.push(MsgSpec::Ping(l));
        v.push(MsgSpec::Pong(l));
    }
    v.push(MsgSpec::CloseNone);
    for code in [1000u16, 1001, 1002, 1003, 1006, 1007, 1008, 1009, 1010, 1011, 1012, 1013, 1015, 3000, 4999, 0, 65_535] {
        v.push(MsgSpec::Close { code, desc: None });
    }
    for d in [1usize, 2, 122, 123] {
        v.push(MsgSpec::Close { code: 1000, desc: Some(d) });
        v.push(MsgSpec::Close { code: 4000, desc: Some(d) });
    }
    if thorough {
        for l in [2usize, 3, 4, 5, 7, 8, 9, 63, 64, 65, 124, 128, 255, 256, 257, 1023, 4096, 65_534, 65_537, 70_000] {
            if l <= 65_536 {
                v.push(MsgSpec::Text(l));
                v.push(MsgSpec::Last(l));
            }
            v.push(MsgSpec::Binary(l));
        }
        for l in 3..124usize {
            v.push(MsgSpec::Ping(l));
        }
    }
    v.push(MsgSpec::Nop);
    v
}

fn rt_job(c2s: bool, dec_max: Option<usize>, thorough: bool) -> Job {
    Box::new(move |_| {
        let mut alpha = rt_alphabet(thorough);
        if let Some(mx) = dec_max {
            // decoder limit exactly at / just below the payload: lengths around mx only
            alpha = vec![MsgSpec::Binary(mx), MsgSpec::Text(mx), MsgSpec::Binary(mx + 1), MsgSpec::FirstText(mx), MsgSpec::Last(mx), MsgSpec::Last(mx + 1), MsgSpec::Ping(mx.min(125)), MsgSpec::Nop];
        }
        let reps = if c2s { if thorough { 4 } else { 2 } } else { 1 };
        let r = rt::rt_bfs(c2s, dec_max, alpha.clone(), reps);
        let mut o = JobOut { part: "roundtrip", ..Default::default() };
        o.cases = r.impl_steps;
        o.states = r.states;
        o.transitions = r.transitions;
        o.impl_steps = r.impl_steps;
        o.decode_calls = r.impl_steps;
        o.nontrivial_cases = r.obs.len() as u64;
        o.obs = r.obs;
        o.notes = r.notes;
        for (f, path) in &r.findings {
            let w: usize = path.len() * 1000
                + match path.last() {
                    Some(MsgSpec::Text(n)) | Some(MsgSpec::Binary(n)) | Some(MsgSpec::Ping(n)) | Some(MsgSpec::Pong(n))
                    | Some(MsgSpec::FirstText(n)) | Some(MsgSpec::FirstBinary(n)) | Some(MsgSpec::Continue(n)) | Some(MsgSpec::Last(n)) => *n,
                    _ => 0,
                };
            o.viol.push(viol(f, rt::replay_value(c2s, dec_max, path), w as u64));
        }
        o.sample = Some(json!({
            "part": "roundtrip", "direction": if c2s {"client->server"} else {"server->client"}, "decoder_max_size": dec_max,
            "alphabet_messages": alpha.len(), "states": r.states, "transitions": r.transitions, "encode_decode_executions": r.impl_steps,
            "example_messages": alpha.iter().take(4).map(|m| format!("{m:?}")).collect::<Vec<_>>(),
        }));
        o
    })
}

// ---------------------------------------------------------------------------------------------
// (5) masking, (6) handshake

fn mask_job(thorough: bool) -> Job {
    Box::new(move |_| {
        let mut o = JobOut { part: "mask", ..Default::default() };
        let mut aligns_seen: BTreeSet<usize> = BTreeSet::new();
        let mut dec = |len: usize, key: [u8; 4], off: usize, form: u8, o: &mut JobOut| {
            let (fs, al) = maskx::mask_decode_case(len, key, off, form, false);
            aligns_seen.insert(al);
            o.cases += 1;
            o.impl_steps += 1;
            o.decode_calls += 1;
            if len > 0 {
                o.obs.insert(mc_core::fnv_str(&format!("maskd|{len}|{key:?}|{al}|{form}|{}", fs.is_empty())));
            }
            for f in &fs {
                if !o.viol.iter().any(|v| v.signature == f.signature) {
                    o.viol.push(viol(f, maskx::replay_decode(len, key, off, form), (len * 100 + off) as u64));
                }
            }
        };
        for len in 0..=40usize {
            for key in KEYS {
                for off in 0..8usize {
                    dec(len, key, off, 0, &mut o);
                }
            }
        }
        for len in [125usize, 126, 127, 128, 129, 130, 131, 65_535, 65_536, 65_537] {
            for key in KEYS {
                for off in 0..4usize {
                    dec(len, key, off, 0, &mut o);
                }
            }
        }
        for form in [1u8, 2] {
            for len in 0..=9usize {
                for off in 0..4usize {
                    dec(len, KEYS[1], off, form, &mut o);
                }
            }
        }
        if thorough {
            // every value of every key byte (XOR is bit-parallel; word path has no cross-byte carry)
            for pos in 0..4usize {
                for val in 0..=255u8 {
                    let mut key = [0x10u8, 0x20, 0x40, 0x80];
                    key[pos] = val;
                    for len in 0..=13usize {
                        for off in 0..4usize {
                            dec(len, key, off, 0, &mut o);
                        }
                    }
                }
            }
            for k0 in 0..=255u8 {
                for k1 in 0..=255u8 {
                    let off = (k0 as usize + k1 as usize) % 4;
                    dec(9, [k0, k1, k0 ^ 0x5a, k1.wrapping_add(k0)], off, 0, &mut o);
                }
            }
            for len in 41..=300usize {
                for off in 0..4usize {
                    dec(len, KEYS[0], off, 0, &mut o);
                }
            }
        }
        let mut enc_aligns: BTreeSet<usize> = BTreeSet::new();
        let enc_lens: Vec<usize> = (0..=40).chain([125usize, 126, 127, 65_535, 65_536]).collect();
        for &len in &enc_lens {
            for off in 0..8usize {
                for _rep in 0..(if thorough { 8 } else { 2 }) {
                    let (fs, al) = maskx::mask_encode_case(len, off, false);
                    enc_aligns.insert(al);
                    o.cases += 1;
                    o.impl_steps += 1;
                    if len > 0 {
                        o.obs.insert(mc_core::fnv_str(&format!("maske|{len}|{al}|{}", fs.is_empty())));
                    }
                    for f in &fs {
                        if !o.viol.iter().any(|v| v.signature == f.signature) {
                            o.viol.push(viol(f, maskx::replay_encode(len, off), (len * 100 + off) as u64));
                        }
                    }
                }
            }
        }
        o.nontrivial_cases = o.obs.len() as u64;
        if aligns_seen.len() != 4 || enc_aligns.len() != 4 {
            o.notes.push(format!("MACHINERY: payload alignments reached decode {aligns_seen:?} encode {enc_aligns:?}, expected all of 0..4"));
        }
        o.sample = Some(json!({
            "part": "mask", "cases": o.cases, "payload_start_alignments_mod4_decode": aligns_seen, "payload_start_alignments_mod4_encode": enc_aligns,
            "example": {"len": 7, "key": KEYS[0], "frame_offset": 3, "wire": mc_core::show(&FrameSpec::new(OP_BIN, true, Some(KEYS[0]), 7, 24).wire())},
        }));
        o
    })
}

fn hs_cases(thorough: bool) -> Vec<hs::HsCase> {
    let s = |x: &str| Some(x.to_string());
    let methods = if thorough { vec!["GET", "POST", "HEAD", "PUT", "OPTIONS", "get"] } else { vec!["GET", "POST"] };
    let mut upgrades = vec![None, s("websocket"), s("WebSocket"), s("other")];
    let mut conns = vec![None, s("upgrade"), s("Upgrade"), s("keep-alive, Upgrade"), s("close")];
    let mut vers = vec![None, s("7"), s("8"), s("13"), s("12")];
    let mut keys = vec![None, s("dGhlIHNhbXBsZSBub25jZQ=="), s("x3JJHMbDL1EzLkh9GBhXDw=="), s("AQIDBAUGBwgJCgsMDQ4PEC==")];
    if thorough {
        upgrades.extend([s("WEBSOCKET"), s("h2c, websocket"), s("web socket"), s("")]);
        conns.extend([s("UPGRADE"), s("keep-alive"), s("")]);
        vers.extend([s("14"), s("0"), s("13, 8"), s(" 13"), s("013"), s("")]);
        keys.extend([s(""), s("a")]);
    }
    let mut v = vec![];
    for m in &methods {
        for u in &upgrades {
            for c in &conns {
                for ve in &vers {
                    for k in &keys {
                        v.push(hs::HsCase { method: m.to_string(), upgrade: u.clone(), connection: c.clone(), version: ve.clone(), key: k.clone() });
                    }
                }
            }
        }
    }
    // accept key over key strings of every length across the SHA-1 block boundaries
    const B64: &[u8] = b"ABCDEFGHIJKLMNOPQRSTUVWXYZabcdefghijklmnopqrstuvwxyz0123456789+/=";
    let maxlen = if thorough { 200 } else { 100 };
    let variants = if thorough { 8 } else { 2 };
    for l in 0..=maxlen {
        for var in 0..variants {
            let k: String = (0..l).map(|i| B64[(i * 7 + var * 13 + l) % B64.len()] as char).collect();
            v.push(hs::HsCase { method: "GET".into(), upgrade: s("websocket"), connection: s("Upgrade"), version: s("13"), key: Some(k) });
        }
    }
    v
}

fn hs_job(thorough: bool) -> Job {
    Box::new(move |_| {
        let mut o = JobOut { part: "handshake", ..Default::default() };
        let cases = hs_cases(thorough);
        let mut classes: BTreeMap<String, u64> = BTreeMap::new();
        for c in &cases {
            let (fs, outcome) = hs::run_case(c, false);
            o.cases += 1;
            o.impl_steps += 1;
            let cls = if outcome.starts_with("accept") { "accept".to_string() } else { outcome.clone() };
            *classes.entry(cls).or_default() += 1;
            o.obs.insert(mc_core::fnv_str(&format!("hs|{c:?}|{outcome}")));
            for f in &fs {
                if !o.viol.iter().any(|v| v.signature == f.signature) {
                    o.viol.push(viol(f, hs::replay_value(c), c.key.as_ref().map(|k| k.len()).unwrap_or(0) as u64));
                }
            }
        }
        o.nontrivial_cases = o.obs.len() as u64;
        o.sample = Some(json!({
            "part": "handshake", "cases": o.cases, "outcome_classes": classes,
            "example": serde_json::to_value(&cases[cases.len() / 3]).unwrap(),
            "rfc_sample": {"key": "dGhlIHNhbXBsZSBub25jZQ==", "accept": accept_key(b"dGhlIHNhbXBsZSBub25jZQ==")},
        }));
        o
    })
}

// ---------------------------------------------------------------------------------------------

fn self_test() {
    use base64::Engine as _;
    use sha1::Digest as _;
    let hex = |b: &[u8]| b.iter().map(|x| format!("{x:02x}")).collect::<String>();
    let mut bad = vec![];
    if hex(&sha1(b"abc")) != "a9993e364706816aba3e25717850c26c9cd0d89d" {
        bad.push("sha1(abc)".to_string());
    }
    if hex(&sha1(b"")) != "da39a3ee5e6b4b0d3255bfef95601890afd80709" {
        bad.push("sha1(empty)".to_string());
    }
    if accept_key(b"dGhlIHNhbXBsZSBub25jZQ==") != "s3pPLMBiTxaQ9kYGzzhZRbK+xOo=" {
        bad.push("accept key of the RFC 6455 sample".to_string());
    }
    for l in 0..200usize {
        let m: Vec<u8> = (0..l).map(|i| (i * 31 + l) as u8).collect();
        let a = sha1(&m);
        let b = sha1::Sha1::digest(&m);
        if a[..] != b[..] {
            bad.push(format!("sha1 cross-check at length {l}"));
        }
        if base64(&m) != base64::engine::general_purpose::STANDARD.encode(&m) {
            bad.push(format!("base64 cross-check at length {l}"));
        }
    }
    // builder <-> independent parser
    for (i, l) in [0u64, 1, 125, 126, 65_535, 65_536].iter().enumerate() {
        for mask in [None, Some(KEYS[i % 4])] {
            let f = FrameSpec::new(OP_BIN, i % 2 == 0, mask, *l, i as u8);
            let w = f.wire();
            match ref_parse(&w) {
                Some((fin, 0, OP_BIN, m, true, p, used)) if fin == f.fin && m == mask.is_some() && p == f.plain() && used == w.len() => {}
                _ => bad.push(format!("frame builder/parser self-check at len {l}")),
            }
        }
    }
    if !bad.is_empty() {
        eprintln!("MACHINERY: reference self-test failed: {bad:?}");
        std::process::exit(2);
    }
}

fn build_jobs(thorough: bool) -> Vec<(Job, bool)> {
    let mut jobs: Vec<(Job, bool)> = vec![];
    let full_limit = if thorough { 2200 } else { 700 };
    // long streams first (longest jobs)
    for (label, ts) in long_templates(thorough) {
        for server in [true, false] {
            let maxes: &[usize] = if thorough { &[0, 125, 126, 65_535, 65_536, 65_537] } else { &[126, 65_536] };
            for &mx in maxes {
                jobs.push((seg_bfs_job(label.clone(), ts.clone(), server, mx, full_limit, if thorough { 512 } else { 0 }), false));
                jobs.push((seg_twin_job(label.clone(), ts.clone(), server, mx, full_limit, 0, 0), false));
            }
        }
    }
    for c2s in [true, false] {
        jobs.push((rt_job(c2s, None, thorough), true));
        for mx in [0usize, 1, 125, 126, 65_535] {
            jobs.push((rt_job(c2s, Some(mx), thorough), true));
        }
    }
    let (pair_limit, triple_limit) = if thorough { (300, 56) } else { (48, 22) };
    for (k, (label, ts)) in templates(thorough).into_iter().enumerate() {
        for server in [true, false] {
            for &mx in max_sizes(thorough) {
                jobs.push((seg_bfs_job(label.clone(), ts.clone(), server, mx, full_limit, 0), k < 3));
                jobs.push((seg_twin_job(label.clone(), ts.clone(), server, mx, full_limit, pair_limit, triple_limit), k < 3));
            }
        }
    }
    for server in [true, false] {
        for &mx in max_sizes(thorough) {
            jobs.push((strict_bfs_job(server, mx, thorough), true));
            for first in 0..strict_seq_alphabet(server).len() {
                jobs.push((strict_seq_job(server, mx, if thorough { 6 } else { 3 }, first), first < 2));
            }
        }
    }
    jobs.push((mask_job(thorough), false));
    jobs.push((hs_job(thorough), true));
    jobs
}

fn replay(path: &str) -> i32 {
    let v = mc_core::report::read_replay(path);
    let r = &v["replay"];
    println!("replaying {} clause={} signature={}", path, v["clause"], v["signature"]);
    let findings: Vec<Finding> = match r["kind"].as_str().unwrap_or("") {
        "seg" => {
            let spec: StreamSpec = serde_json::from_value(r["stream"].clone()).unwrap_or_else(|e| {
                eprintln!("MACHINERY: bad replay file: {e}");
                std::process::exit(2)
            });
            let sg: Vec<(usize, u8)> = r["seg"]
                .as_array()
                .map(|a| a.iter().map(|x| (x[0].as_u64().unwrap_or(0) as usize, x[1].as_u64().unwrap_or(0) as u8)).collect())
                .unwrap_or_default();
            let s = Stream::new(spec);
            let sg: Vec<(usize, u8)> = if r["seg_every_byte_separately"].as_bool().unwrap_or(false) {
                (1..=s.bytes.len()).map(|c| (c, 0)).collect()
            } else {
                sg
            };
            println!(
                "  {} codec, max_size {}, stream of {} bytes: {}",
                if s.spec.server { "server" } else { "client" },
                s.spec.max_size,
                s.bytes.len(),
                mc_core::show_short(&s.bytes, 40)
            );
            for (i, (f, inf)) in s.spec.frames.iter().zip(s.infos.iter()).enumerate() {
                println!(
                    "  frame #{i} {} mask={:?} bytes[{}..{}] header ends at {} expected: {}",
                    f.class(), f.mask, inf.start, inf.end, inf.hdr_end,
                    match &inf.exp { Exp::Deliver(o) => format!("deliver {}", o.short()), e => format!("{e:?}").chars().take(90).collect() }
                );
            }
            run_seg(&s, &sg, r["relocate"].as_bool().unwrap_or(false), sg.len() <= 200).0
        }
        "rt" => {
            let msgs: Vec<MsgSpec> = serde_json::from_value(r["msgs"].clone()).unwrap_or_default();
            rt::run_msgs(r["c2s"].as_bool().unwrap_or(true), r["dec_max"].as_u64().map(|x| x as usize), &msgs, true)
        }
        "mask-decode" => {
            let key: [u8; 4] = serde_json::from_value(r["key"].clone()).unwrap_or([0; 4]);
            maskx::mask_decode_case(r["len"].as_u64().unwrap_or(0) as usize, key, r["off"].as_u64().unwrap_or(0) as usize, r["lenform"].as_u64().unwrap_or(0) as u8, true).0
        }
        "mask-encode" => maskx::mask_encode_case(r["len"].as_u64().unwrap_or(0) as usize, r["off"].as_u64().unwrap_or(0) as usize, true).0,
        "hs" => {
            let c: hs::HsCase = serde_json::from_value(r["case"].clone()).unwrap_or_else(|e| {
                eprintln!("MACHINERY: bad replay file: {e}");
                std::process::exit(2)
            });
            hs::run_case(&c, true).0
        }
        k => {
            eprintln!("MACHINERY: unknown replay kind {k:?}");
            return 2;
        }
    };
    if findings.is_empty() {
        println!("replay: the case no longer fails");
        return 0;
    }
    for f in &findings {
        println!("STILL FAILS clause={} signature={}\n  {}", f.clause, f.signature, f.what);
    }
    1
}

fn main() {
    let args = mc_core::cli::parse();
    if args.property != PROP {
        eprintln!("MACHINERY: engine codecx serves C14 only");
        std::process::exit(2);
    }
    let default_hook = std::panic::take_hook();
    std::panic::set_hook(Box::new(move |info| {
        if !QUIET.with(|q| q.get()) {
            default_hook(info);
        }
    }));
    self_test();
    if let Some(p) = &args.replay {
        std::process::exit(replay(p));
    }
    let thorough = args.tier == "thorough";
    let t0 = Instant::now();
    let wall = args.wall_s.unwrap_or(if thorough { 1500 } else { 55 });
    let deadline = Some(t0 + Duration::from_secs(wall));
    let mut jobs = build_jobs(thorough);
    let seed: usize = std::env::var("VERIF_SEED").ok().and_then(|s| s.parse().ok()).unwrap_or(0);
    if seed > 0 && !jobs.is_empty() {
        let k = seed % jobs.len();
        jobs.rotate_left(k);
    }
    let njobs = jobs.len();
    let queue: Mutex<VecDeque<(usize, (Job, bool))>> = Mutex::new(jobs.into_iter().enumerate().collect());
    let results: Mutex<Vec<(usize, JobOut)>> = Mutex::new(vec![]);
    let nondet: Mutex<Vec<String>> = Mutex::new(vec![]);
    std::thread::scope(|sc| {
        for _ in 0..mc_core::cli::threads() {
            sc.spawn(|| loop {
                let Some((i, (job, recheck))) = queue.lock().unwrap().pop_front() else { break };
                let tj = Instant::now();
                let out = job(deadline);
                if std::env::var("CODECX_TIMES").is_ok() && tj.elapsed().as_secs_f64() > 0.5 {
                    eprintln!("job {i} {} took {:.2}s: {}", out.part, tj.elapsed().as_secs_f64(), out.sample.as_ref().map(|s| s.to_string().chars().take(160).collect::<String>()).unwrap_or_default());
                }
                // determinism: same job twice -> same counters, observations and findings. A run
                // that already reports violations is not compared: wrong masking/length handling
                // lets the encoder's random masking key leak into what is observed.
                if recheck && !out.capped && out.viol.is_empty() {
                    let again = job(deadline);
                    if !again.capped && again.viol.is_empty() && again.digest() != out.digest() {
                        nondet.lock().unwrap().push(format!("job {i} ({})", out.part));
                    }
                    if !again.viol.is_empty() {
                        let extra = JobOut { part: out.part, viol: again.viol, exhaustive_cuts: true, ..Default::default() };
                        results.lock().unwrap().push((i, extra));
                    }
                }
                results.lock().unwrap().push((i, out));
            });
        }
    });
    let nondet = nondet.into_inner().unwrap();
    if !nondet.is_empty() {
        eprintln!("MACHINERY: nondeterministic results in {nondet:?}");
        std::process::exit(2);
    }
    let mut results = results.into_inner().unwrap();
    results.sort_by_key(|(i, _)| *i);

    let mut rep = Reporter::new(PROP);
    let mut parts: BTreeMap<&'static str, BTreeMap<&'static str, u64>> = BTreeMap::new();
    let mut obs: HashSet<u64> = HashSet::new();
    let mut notes: BTreeMap<String, u64> = BTreeMap::new();
    let mut samples: Vec<Value> = vec![];
    let mut sample_count: BTreeMap<&'static str, usize> = BTreeMap::new();
    let (mut evals, mut states, mut transitions, mut impl_steps, mut decode_calls) = (0u64, 0u64, 0u64, 0u64, 0u64);
    let mut capped = false;
    let mut restricted_cut_jobs = 0u64;
    let mut machinery_notes = vec![];
    for (_, o) in results {
        let p = parts.entry(o.part).or_default();
        *p.entry("jobs").or_default() += 1;
        *p.entry("cases").or_default() += o.cases;
        *p.entry("states").or_default() += o.states;
        *p.entry("transitions").or_default() += o.transitions;
        *p.entry("executions_on_real_codec").or_default() += o.impl_steps;
        *p.entry("decode_calls").or_default() += o.decode_calls;
        *p.entry("distinct_nontrivial").or_default() += o.obs.len() as u64;
        evals += o.cases;
        states += o.states;
        transitions += o.transitions;
        impl_steps += o.impl_steps;
        decode_calls += o.decode_calls;
        capped |= o.capped;
        if o.part.starts_with("seg") && !o.exhaustive_cuts {
            restricted_cut_jobs += 1;
        }
        obs.extend(o.obs);
        for n in o.notes {
            if n.starts_with("MACHINERY") {
                machinery_notes.push(n);
            } else {
                *notes.entry(n).or_default() += 1;
            }
        }
        if let Some(s) = o.sample {
            let c = sample_count.entry(o.part).or_default();
            if *c < 3 {
                samples.push(s);
                *c += 1;
            }
        }
        rep.add_all(o.viol);
    }
    if !machinery_notes.is_empty() {
        eprintln!("{}", machinery_notes.join("\n"));
        std::process::exit(2);
    }
    if Instant::now() > deadline.unwrap() {
        capped = true;
    }
    let wall_s = t0.elapsed().as_secs_f64();
    let mut ev = Evidence::new(PROP, &args.tier, "model_checking");
    ev.set("evaluations", evals)
        .set("distinct_nontrivial", obs.len() as u64)
        .set("rule", "Cases are enumerated, never sampled: (seg-bfs) explicit-state BFS per generated frame stream × role × max_size over actions 'feed bytes up to cut c at buffer alignment a, then decode until None/Err' on a clone of the real ws::Codec, states merged on (codec Debug incl. continuation flag, leftover bytes, #bytes fed, #frames emitted, error) — the merged graph reaches every state any of the 2^(n-1) segmentations over the cut set can reach, and the oracle (frames emitted == reference decode of the prefix, leftover exact, error only where the reference rejects, refusal at header for oversize) is evaluated on every transition; (seg-unmerged) the same streams with one persistent BytesMut under the whole buffer, all-1-byte, every single cut, every pair (short streams) and every triple (very short) of cuts; (strict-bfs) frame alphabet × real codec to the fixpoint of the continuation flag against the reference 2-state machine, plus all frame sequences up to a depth un-merged; (roundtrip) BFS over message sequences encoder(role A) → independent wire parse → decoder(role B); (mask) lengths × keys × buffer offsets against byte-wise XOR; (handshake) full product of header shapes plus key strings of every length across SHA-1 block boundaries. distinct_nontrivial = number of distinct canonical observations (hash of part, configuration, position and outcome) restricted to non-trivial ones: seg-bfs transitions that leave or complete a partial frame or surface an error; per-stream final outcomes for the un-merged twin; every (state, frame, outcome) of the strictness machine; round trips other than Nop; masked payloads of length > 0; every handshake (input, outcome).")
        .set("states", states)
        .set("transitions", transitions)
        .set("traces_validated_against_impl", impl_steps)
        .set("decode_calls_on_real_codec", decode_calls)
        .set("jobs", njobs as u64)
        .set("parts", serde_json::to_value(&parts).unwrap())
        .set("samples", Value::Array(samples))
        .set("exhaustive", !capped)
        .set("capped", capped)
        .set("seg_jobs_with_restricted_cut_set", restricted_cut_jobs)
        .set("statement_neutral_observations", serde_json::to_value(&notes).unwrap())
        .set("violations_found", Value::Array(rep.summaries()));
    ev.assume("Decoding stops at the first Err (the connection is failed); behaviour after an error is not explored.")
        .assume("Interpretation: an over-long Close frame (payload > 125) counts as rejected if decode returns Err or the payload-less Close(None) (the codec documents 'morphing to protocol close frame'); any other delivery alarms.")
        .assume("Interpretation: 'start inside a fragmented message' = a FIN=0 Text/Binary frame while a fragmented message is in progress (ProtocolError::ContinuationStarted). A complete (FIN=1) data frame inside a fragmented message, RSV bits and non-minimal length encodings are not listed in the statement: either outcome is accepted, but it must be segmentation-independent and, if delivered, content-exact.")
        .assume("Interpretation: a legal frame whose payload equals max_size must be delivered; one announcing more must be refused as soon as its header is complete (clause maxsize-early-refusal).")
        .assume("Close(Some(code, Some(\"\"))) and CloseCode::Other(n) for a registered n are not representable on the wire distinctly from Close(Some(code, None)) / the named variant and are excluded from the round trip; control messages are round-tripped only with payload <= 125 (the encoder does not refuse longer ones).")
        .assume("The client encoder draws its masking key from rand::random; it cannot be set through the public API. All-key coverage comes from hand-built frames (4 keys everywhere; thorough: every value of every key byte).")
        .assume("For streams longer than the every-offset limit the cut set is: every offset of each header region plus 4 payload bytes, payload offsets 5,7,64,125..128,4095,4096,65534,65535, the last 3 bytes of each frame (thorough: plus every 1024th payload byte); the all-1-byte segmentation is still run in full.")
        .assume("Buffer alignment is over-approximated: before every feed the BFS may relocate the buffer to any address class mod 4 (server role), which covers whatever BytesMut::reserve does.")
        .assume("Key strings: header shapes listed in DESIGN plus keys of length 0..=100 (thorough 0..=200, 8 variants); not all strings.");
    ev.wall_s = wall_s;
    ev.violations = rep.unknown_count() as i64;
    ev.write();
    println!(
        "codecx C14 tier={} jobs={njobs} evaluations={evals} states={states} transitions={transitions} real-codec-executions={impl_steps} distinct_nontrivial={} capped={capped} wall={wall_s:.1}s",
        args.tier,
        obs.len()
    );
    for (p, m) in &parts {
        println!("  {p}: {m:?}");
    }
    for (n, c) in &notes {
        println!("  note ({c}x): {n}");
    }
    let code = rep.finish();
    if code == 0 {
        println!("C14: no unknown violation ({} known finding(s))", rep.known_count());
    }
    std::process::exit(code);
}
