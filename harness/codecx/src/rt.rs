//! (1) round trip: every `Message` variant encoded by the real encoder of one role, checked on the
//! wire by the independent parser, decoded by the real decoder of the other role. Explored as an
//! explicit-state search over message sequences so that both continuation flags are covered.

use std::cell::RefCell;
use std::collections::HashSet;

use actix_http::ws::{CloseCode, CloseReason, Codec, Item, Message};
use bytes::{Bytes, BytesMut};
use mc_core::bfs::{bfs, Model, StepErr};
use serde::{Deserialize, Serialize};
use serde_json::{json, Value};
use tokio_util::codec::{Decoder, Encoder};

use crate::refm::*;
use crate::seg::{err_kind, mk_codec, obs_of, Finding};

#[derive(Clone, Debug, Serialize, Deserialize, PartialEq, Eq, Hash)]
pub enum MsgSpec {
    Text(usize),
    Binary(usize),
    Ping(usize),
    Pong(usize),
    CloseNone,
    Close { code: u16, desc: Option<usize> },
    FirstText(usize),
    FirstBinary(usize),
    Continue(usize),
    Last(usize),
    Nop,
}

pub fn pattern(len: usize, seed: u8, ascii: bool) -> Vec<u8> {
    (0..len)
        .map(|i| {
            if ascii {
                b' ' + ((i * 5 + seed as usize + (i >> 7)) % 95) as u8
            } else {
                (seed as usize).wrapping_add(i * 11).wrapping_add((i >> 8) * 3) as u8
            }
        })
        .collect()
}

fn close_code(code: u16) -> CloseCode {
    match code {
        1000 => CloseCode::Normal,
        1001 => CloseCode::Away,
        1002 => CloseCode::Protocol,
        1003 => CloseCode::Unsupported,
        1006 => CloseCode::Abnormal,
        1007 => CloseCode::Invalid,
        1008 => CloseCode::Policy,
        1009 => CloseCode::Size,
        1010 => CloseCode::Extension,
        1011 => CloseCode::Error,
        1012 => CloseCode::Restart,
        1013 => CloseCode::Again,
        1015 => CloseCode::Tls,
        n => CloseCode::Other(n),
    }
}

impl MsgSpec {
    /// (message for the real encoder, opcode, fin, plain payload on the wire, expected frame)
    pub fn build(&self, seed: u8) -> (Message, Option<(u8, bool, Vec<u8>, Obs)>) {
        match self {
            MsgSpec::Text(n) => {
                let p = pattern(*n, seed, true);
                let s = String::from_utf8(p.clone()).unwrap();
                (Message::Text(s.into()), Some((OP_TEXT, true, p.clone(), Obs::Text(p))))
            }
            MsgSpec::Binary(n) => {
                let p = pattern(*n, seed, false);
                (Message::Binary(Bytes::from(p.clone())), Some((OP_BIN, true, p.clone(), Obs::Binary(p))))
            }
            MsgSpec::Ping(n) => {
                let p = pattern(*n, seed, false);
                (Message::Ping(Bytes::from(p.clone())), Some((OP_PING, true, p.clone(), Obs::Ping(p))))
            }
            MsgSpec::Pong(n) => {
                let p = pattern(*n, seed, false);
                (Message::Pong(Bytes::from(p.clone())), Some((OP_PONG, true, p.clone(), Obs::Pong(p))))
            }
            MsgSpec::CloseNone => {
                (Message::Close(None), Some((OP_CLOSE, true, vec![], Obs::Close(None))))
            }
            MsgSpec::Close { code, desc } => {
                let d = desc.map(|n| String::from_utf8(pattern(n, seed, true)).unwrap());
                let mut p = code.to_be_bytes().to_vec();
                if let Some(d) = &d {
                    p.extend_from_slice(d.as_bytes());
                }
                (
                    Message::Close(Some(CloseReason { code: close_code(*code), description: d.clone() })),
                    Some((OP_CLOSE, true, p, Obs::Close(Some((close_code_name(*code), d))))),
                )
            }
            MsgSpec::FirstText(n) => {
                let p = pattern(*n, seed, true);
                (
                    Message::Continuation(Item::FirstText(Bytes::from(p.clone()))),
                    Some((OP_TEXT, false, p.clone(), Obs::FirstText(p))),
                )
            }
            MsgSpec::FirstBinary(n) => {
                let p = pattern(*n, seed, false);
                (
                    Message::Continuation(Item::FirstBinary(Bytes::from(p.clone()))),
                    Some((OP_BIN, false, p.clone(), Obs::FirstBinary(p))),
                )
            }
            MsgSpec::Continue(n) => {
                let p = pattern(*n, seed, false);
                (
                    Message::Continuation(Item::Continue(Bytes::from(p.clone()))),
                    Some((OP_CONT, false, p.clone(), Obs::Continue(p))),
                )
            }
            MsgSpec::Last(n) => {
                let p = pattern(*n, seed, false);
                (
                    Message::Continuation(Item::Last(Bytes::from(p.clone()))),
                    Some((OP_CONT, true, p.clone(), Obs::Last(p))),
                )
            }
            MsgSpec::Nop => (Message::Nop, None),
        }
    }

    pub fn kind(&self) -> &'static str {
        match self {
            MsgSpec::Text(_) => "Text",
            MsgSpec::Binary(_) => "Binary",
            MsgSpec::Ping(_) => "Ping",
            MsgSpec::Pong(_) => "Pong",
            MsgSpec::CloseNone => "CloseNone",
            MsgSpec::Close { .. } => "Close",
            MsgSpec::FirstText(_) => "FirstText",
            MsgSpec::FirstBinary(_) => "FirstBinary",
            MsgSpec::Continue(_) => "Continue",
            MsgSpec::Last(_) => "Last",
            MsgSpec::Nop => "Nop",
        }
    }
}

/// Sequencing legality of a message in the reference machine: Some(true) legal, Some(false)
/// illegal (continuation without start / start inside a fragmented message), None = not covered
/// by the statement (complete data message inside a fragmented one).
fn legality(m: &MsgSpec, frag: bool) -> (Option<bool>, bool) {
    match m {
        MsgSpec::FirstText(_) | MsgSpec::FirstBinary(_) => (Some(!frag), true),
        MsgSpec::Continue(_) => (Some(frag), frag),
        MsgSpec::Last(_) => (Some(frag), false),
        MsgSpec::Text(_) | MsgSpec::Binary(_) if frag => (None, frag),
        _ => (Some(true), frag),
    }
}

#[derive(Clone)]
pub struct RtState {
    pub enc: Codec,
    pub dec: Codec,
    pub frag: bool,
    pub dead: bool,
}

pub struct RtModel {
    /// true: client encodes, server decodes
    pub c2s: bool,
    pub dec_max: Option<usize>,
    pub alphabet: Vec<MsgSpec>,
    pub findings: RefCell<Vec<(Finding, Vec<MsgSpec>)>>,
    pub impl_steps: RefCell<u64>,
    pub obs: RefCell<HashSet<u64>>,
    pub notes: RefCell<Vec<String>>,
    pub repeats: usize,
}

/// One round-trip transition on clones of the two real codecs. Returns false if exploration from
/// the resulting state makes no sense any more.
pub fn rt_step(
    c2s: bool,
    enc: &mut Codec,
    dec: &mut Codec,
    frag: bool,
    m: &MsgSpec,
    seed: u8,
    dec_max: usize,
    out: &mut Vec<Finding>,
    notes: &mut Vec<String>,
    trace: bool,
) -> (bool, Option<String>) {
    let (msg, wire_exp) = m.build(seed);
    let (legal, _) = legality(m, frag);
    let mut wire = BytesMut::new();
    let r = crate::seg::quiet_catch(|| enc.encode(msg, &mut wire));
    let r = match r {
        Ok(r) => r,
        Err(_) => {
            out.push(Finding {
                clause: "panic",
                signature: "encode-panicked".into(),
                what: format!("Codec::encode panicked on {m:?}"),
            });
            return (false, None);
        }
    };
    if trace {
        println!(
            "  encode {m:?} (frag={frag}) -> {:?}, {} wire bytes: {}",
            r.as_ref().map_err(|e| format!("{e:?}")),
            wire.len(),
            mc_core::show_short(&wire, 20)
        );
    }
    if let Err(e) = r {
        let d = format!("{e:?}");
        if legal == Some(true) {
            out.push(Finding {
                clause: "roundtrip",
                signature: format!("encoder-refused-legal-message:{}:{}", m.kind(), err_kind(&d)),
                what: format!("encoding {m:?} in a legal position failed with {d}"),
            });
            return (false, None);
        }
        if !wire.is_empty() {
            out.push(Finding {
                clause: "roundtrip",
                signature: "encoder-error-but-bytes-written".into(),
                what: format!("encoding {m:?} failed with {d} but wrote {} bytes", wire.len()),
            });
        }
        return (true, Some(format!("enc-err:{}", err_kind(&d))));
    }
    let Some((op, fin, plain, want)) = wire_exp else {
        if !wire.is_empty() {
            out.push(Finding {
                clause: "roundtrip",
                signature: "nop-wrote-bytes".into(),
                what: format!("Message::Nop wrote {} bytes", wire.len()),
            });
        }
        return (true, Some("nop".into()));
    };
    // independent look at the wire
    match ref_parse(&wire) {
        Some((wfin, rsv, wop, masked, minimal, p, used)) => {
            let mut bad = vec![];
            if wfin != fin {
                bad.push("fin");
            }
            if wop != op {
                bad.push("opcode");
            }
            if rsv != 0 {
                bad.push("rsv");
            }
            if masked != c2s {
                bad.push("maskbit");
            }
            if p != plain {
                bad.push("payload");
            }
            if used != wire.len() {
                bad.push("trailing-bytes");
            }
            if !bad.is_empty() {
                out.push(Finding {
                    clause: "roundtrip",
                    signature: format!("wire-format:{}:{}", m.kind(), bad.join("+")),
                    what: format!(
                        "{m:?} encoded by the {} is not that message under RFC 6455 §5.2 ({}): {}",
                        if c2s { "client" } else { "server" },
                        bad.join(", "),
                        mc_core::show_short(&wire, 24)
                    ),
                });
            }
            if !minimal {
                notes.push(format!(
                    "encoder used a non-minimal length form for {} (not a clause of the statement)",
                    m.kind()
                ));
            }
        }
        None => out.push(Finding {
            clause: "roundtrip",
            signature: format!("wire-format:{}:unparsable", m.kind()),
            what: format!(
                "{m:?} encoded by the {} is not one complete RFC 6455 frame: {} bytes {}",
                if c2s { "client" } else { "server" },
                wire.len(),
                mc_core::show_short(&wire, 24)
            ),
        }),
    }
    // the other role decodes the whole buffer
    let mut buf = BytesMut::from(&wire[..]);
    let mut got = vec![];
    let mut err = None;
    for _ in 0..4 {
        match crate::seg::quiet_catch(|| dec.decode(&mut buf)) {
            Ok(Ok(Some(f))) => got.push(obs_of(&f)),
            Ok(Ok(None)) => break,
            Ok(Err(e)) => {
                err = Some(format!("{e:?}"));
                break;
            }
            Err(_) => {
                out.push(Finding {
                    clause: "panic",
                    signature: "decode-panicked".into(),
                    what: format!("Codec::decode panicked on the encoding of {m:?}"),
                });
                return (false, None);
            }
        }
    }
    if trace {
        println!(
            "  decode -> {:?} err={err:?} leftover={}",
            got.iter().map(|o| o.short()).collect::<Vec<_>>(),
            buf.len()
        );
    }
    let over = plain.len() > dec_max;
    let outcome = format!(
        "{}|{:?}|{}",
        got.iter().map(|o| o.short()).collect::<Vec<_>>().join(","),
        err.as_deref().map(err_kind),
        buf.len()
    );
    match legal {
        Some(true) if !over => {
            if got.len() != 1 || got[0] != want || err.is_some() || !buf.is_empty() {
                let why = if let Some(e) = &err {
                    format!("error:{}", err_kind(e))
                } else if got.is_empty() {
                    "nothing-decoded".to_string()
                } else if got.len() > 1 {
                    "extra-frames".to_string()
                } else if got[0] != want {
                    format!("different:{}", got[0].kind())
                } else {
                    "leftover-bytes".to_string()
                };
                out.push(Finding {
                    clause: "roundtrip",
                    signature: format!("roundtrip:{}:{why}", m.kind()),
                    what: format!(
                        "{m:?} encoded by the {} decoded at the {} to {:?} err={err:?} leftover={} instead of {}",
                        if c2s { "client" } else { "server" },
                        if c2s { "server" } else { "client" },
                        got.iter().map(|o| o.short()).collect::<Vec<_>>(),
                        buf.len(),
                        want.short()
                    ),
                });
                return (false, Some(outcome));
            }
        }
        Some(true) => {
            // payload above the decoder's max_size: must not be delivered
            if !got.is_empty() {
                out.push(Finding {
                    clause: "maxsize-delivered",
                    signature: format!("delivered-exceeds-max:{}", got[0].kind()),
                    what: format!("{m:?} delivered although decoder max_size is {dec_max}"),
                });
            }
            return (false, Some(outcome));
        }
        Some(false) => {
            if !got.is_empty() {
                out.push(Finding {
                    clause: "strict",
                    signature: format!(
                        "illegal-accepted:{}",
                        if matches!(m, MsgSpec::Continue(_) | MsgSpec::Last(_)) {
                            "ContinuationWithoutStart"
                        } else {
                            "StartInsideFragmented"
                        }
                    ),
                    what: format!("out-of-sequence {m:?} (frag={frag}) was encoded and then delivered by the peer decoder"),
                });
            }
            return (false, Some(outcome));
        }
        None => {
            if let Some(g) = got.first() {
                if *g != want {
                    out.push(Finding {
                        clause: "roundtrip",
                        signature: format!("roundtrip:{}:different:{}", m.kind(), g.kind()),
                        what: format!("{m:?} decoded to {} instead of {}", g.short(), want.short()),
                    });
                }
            }
            if err.is_some() {
                return (false, Some(outcome));
            }
        }
    }
    (true, Some(outcome))
}

impl Model for RtModel {
    type State = RtState;
    type Key = (String, String, bool, bool);
    type Action = MsgSpec;

    fn key(&self, s: &RtState) -> Self::Key {
        (format!("{:?}", s.enc), format!("{:?}", s.dec), s.frag, s.dead)
    }
    fn actions(&self, s: &RtState) -> Vec<MsgSpec> {
        if s.dead {
            vec![]
        } else {
            self.alphabet.clone()
        }
    }
    fn step(&self, s: &RtState, a: &MsgSpec, path: &[MsgSpec]) -> Result<Option<RtState>, StepErr> {
        let mut last = None;
        for rep in 0..self.repeats {
            let mut enc = s.enc.clone();
            let mut dec = s.dec.clone();
            let mut out = vec![];
            let mut notes = vec![];
            let dec_max = self.dec_max.unwrap_or(65_536);
            let (alive, outcome) = rt_step(
                self.c2s, &mut enc, &mut dec, s.frag, a, (path.len() * 17 + rep * 101) as u8, dec_max,
                &mut out, &mut notes, false,
            );
            *self.impl_steps.borrow_mut() += 1;
            self.notes.borrow_mut().extend(notes);
            if !out.is_empty() {
                let mut p = path.to_vec();
                p.push(a.clone());
                let mut fs = self.findings.borrow_mut();
                for f in out {
                    if !fs.iter().any(|(g, _)| g.clause == f.clause && g.signature == f.signature) {
                        fs.push((f, p.clone()));
                    }
                }
            }
            if let Some(o) = &outcome {
                if *a != MsgSpec::Nop {
                    self.obs.borrow_mut().insert(mc_core::fnv_str(&format!(
                        "rt|{}|{:?}|{}|{:?}|{o}",
                        self.c2s, self.dec_max, s.frag, a
                    )));
                }
            }
            let (legal, nfrag) = legality(a, s.frag);
            let nfrag = if legal == Some(false) { s.frag } else { nfrag };
            last = Some(RtState { enc, dec, frag: if outcome.as_deref().map(|o| o.starts_with("enc-err")).unwrap_or(false) { s.frag } else { nfrag }, dead: !alive });
        }
        Ok(last)
    }
}

pub struct RtResult {
    pub states: u64,
    pub transitions: u64,
    pub impl_steps: u64,
    pub findings: Vec<(Finding, Vec<MsgSpec>)>,
    pub obs: HashSet<u64>,
    pub notes: Vec<String>,
}

pub fn rt_bfs(c2s: bool, dec_max: Option<usize>, alphabet: Vec<MsgSpec>, repeats: usize) -> RtResult {
    let m = RtModel {
        c2s,
        dec_max,
        alphabet,
        findings: RefCell::new(vec![]),
        impl_steps: RefCell::new(0),
        obs: RefCell::new(HashSet::new()),
        notes: RefCell::new(vec![]),
        repeats,
    };
    let enc = mk_codec(!c2s, 65_536);
    let dec = mk_codec(c2s, dec_max.unwrap_or(65_536));
    let (st, v) = bfs(&m, RtState { enc, dec, frag: false, dead: false }, u64::MAX, u32::MAX, None);
    assert!(v.is_empty());
    RtResult {
        states: st.states,
        transitions: st.transitions,
        impl_steps: m.impl_steps.take(),
        findings: m.findings.take(),
        obs: m.obs.take(),
        notes: m.notes.take(),
    }
}

pub fn replay_value(c2s: bool, dec_max: Option<usize>, msgs: &[MsgSpec]) -> Value {
    json!({"kind": "rt", "c2s": c2s, "dec_max": dec_max, "msgs": serde_json::to_value(msgs).unwrap()})
}

/// Re-execute a message sequence (seeds as in the search: position*17).
pub fn run_msgs(c2s: bool, dec_max: Option<usize>, msgs: &[MsgSpec], trace: bool) -> Vec<Finding> {
    let mut enc = mk_codec(!c2s, 65_536);
    let mut dec = mk_codec(c2s, dec_max.unwrap_or(65_536));
    let mut frag = false;
    let mut out = vec![];
    let mut notes = vec![];
    for (i, m) in msgs.iter().enumerate() {
        let (alive, outcome) = rt_step(
            c2s, &mut enc, &mut dec, frag, m, (i * 17) as u8, dec_max.unwrap_or(65_536), &mut out,
            &mut notes, trace,
        );
        let (legal, nfrag) = legality(m, frag);
        let enc_err = outcome.as_deref().map(|o| o.starts_with("enc-err")).unwrap_or(false);
        if legal != Some(false) && !enc_err {
            frag = nfrag;
        }
        if !alive {
            break;
        }
    }
    out
}
