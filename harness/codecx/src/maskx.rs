//! (5) `apply_mask` (private, ws/mask.rs) exercised through the public codec at every alignment of
//! the payload start, against the byte-wise XOR definition of RFC 6455 §5.3.

use actix_http::ws::Message;
use bytes::{Buf, Bytes, BytesMut};
use serde_json::{json, Value};
use tokio_util::codec::{Decoder, Encoder};

use crate::refm::*;
use crate::seg::{mk_codec, obs_of, Finding};

/// Decode direction: a masked Binary frame built by the independent builder, placed so that the
/// frame starts `off` bytes into an allocation, decoded by the real server codec.
/// Returns (findings, alignment (mod 4) of the payload start as really observed).
pub fn mask_decode_case(len: usize, key: [u8; 4], off: usize, lenform: u8, trace: bool) -> (Vec<Finding>, usize) {
    let mut out = vec![];
    let mut f = FrameSpec::new(OP_BIN, true, Some(key), len as u64, (len * 3 + off) as u8);
    f.lenform = lenform;
    let wire = f.wire();
    let hdr = f.header().len();
    let mut buf = BytesMut::with_capacity(off + wire.len() + 8);
    buf.extend_from_slice(&vec![0xA5u8; off]);
    buf.extend_from_slice(&wire);
    if off % 2 == 0 {
        buf.advance(off);
    } else {
        let _ = buf.split_to(off);
    }
    let align = (buf.as_ptr() as usize + hdr) % 4;
    let mut codec = mk_codec(true, 1 << 20);
    let r = codec.decode(&mut buf);
    let want = Obs::Binary(f.plain());
    if trace {
        println!(
            "  server decode of masked Binary len={len} key={key:02x?} frame offset {off} (payload address ≡ {align} mod 4) -> {:?}",
            r.as_ref().map(|o| o.as_ref().map(|f| obs_of(f).short())).map_err(|e| format!("{e:?}"))
        );
    }
    match r {
        Ok(Some(fr)) if obs_of(&fr) == want && buf.is_empty() => {}
        other => {
            let got = match &other {
                Ok(Some(fr)) => obs_of(fr).short(),
                Ok(None) => "Ok(None)".into(),
                Err(e) => format!("{e:?}"),
            };
            let cls = match &other {
                Ok(Some(fr)) => {
                    let o = obs_of(fr);
                    if o.kind() == "Binary" && o.payload_len() == len { "bytes" } else { "shape" }
                }
                Ok(None) => "none",
                Err(_) => "error",
            };
            out.push(Finding {
                clause: "mask",
                signature: format!("unmask-differs-from-xor-definition:{cls}"),
                what: format!(
                    "masked Binary len={len} key={key:02x?} at buffer offset {off} (payload address ≡ {align} mod 4): expected {} got {got}",
                    want.short()
                ),
            });
        }
    }
    (out, align)
}

/// Encode direction: the real client encoder appends to a buffer that already holds `off` bytes;
/// the independent parser must recover the payload with the key found on the wire.
pub fn mask_encode_case(len: usize, off: usize, trace: bool) -> (Vec<Finding>, usize) {
    let mut out = vec![];
    let payload: Vec<u8> = (0..len).map(|i| (i * 29 + off * 7 + 3) as u8).collect();
    let mut dst = BytesMut::with_capacity(off + len + 32);
    dst.extend_from_slice(&vec![0x5Au8; off]);
    let mut codec = mk_codec(false, 65_536);
    let r = codec.encode(Message::Binary(Bytes::from(payload.clone())), &mut dst);
    let hdr = if len < 126 { 6 } else if len <= 65_535 { 8 } else { 14 };
    let align = (dst.as_ptr() as usize + off + hdr) % 4;
    let parsed = ref_parse(&dst[off..]);
    if trace {
        println!(
            "  client encode of Binary len={len} after {off} bytes -> {:?}, wire {}",
            r.as_ref().map_err(|e| format!("{e:?}")),
            mc_core::show_short(&dst[off..], 24)
        );
    }
    let ok = matches!(&parsed, Some((true, 0, OP_BIN, true, _, p, used)) if *p == payload && *used == dst.len() - off)
        && r.is_ok()
        && dst[..off].iter().all(|&b| b == 0x5A);
    if !ok {
        out.push(Finding {
            clause: "mask",
            signature: "encoder-mask-differs-from-xor-definition".into(),
            what: format!(
                "client-encoded Binary len={len} appended at offset {off} (payload address ≡ {align} mod 4) does not unmask to the payload under RFC 6455 §5.3"
            ),
        });
    }
    (out, align)
}

pub fn replay_decode(len: usize, key: [u8; 4], off: usize, lenform: u8) -> Value {
    json!({"kind": "mask-decode", "len": len, "key": key, "off": off, "lenform": lenform})
}
pub fn replay_encode(len: usize, off: usize) -> Value {
    json!({"kind": "mask-encode", "len": len, "off": off})
}
