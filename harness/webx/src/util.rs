//! Small shared helpers: quiet panic capture, work distribution, wall cap.

use std::cell::RefCell;
use std::sync::atomic::{AtomicBool, AtomicU64, Ordering};
use std::time::Instant;

thread_local! {
    static LAST_PANIC: RefCell<Option<(String, String)>> = const { RefCell::new(None) };
}

static VERBOSE_PANICS: AtomicBool = AtomicBool::new(false);
/// last panic on any thread (diagnostics for uncaught worker panics only)
pub static LAST_ANY: std::sync::Mutex<Vec<String>> = std::sync::Mutex::new(Vec::new());

/// Panics inside the subject are *outcomes* here (caught with `catch_unwind`), so the default
/// hook's stderr output is replaced by a per-thread record of (message, source file).
pub fn install_panic_capture(verbose: bool) {
    VERBOSE_PANICS.store(verbose, Ordering::Relaxed);
    std::panic::set_hook(Box::new(|info| {
        let msg = if let Some(s) = info.payload().downcast_ref::<&str>() {
            s.to_string()
        } else if let Some(s) = info.payload().downcast_ref::<String>() {
            s.clone()
        } else if let Some(m) = info.payload().downcast_ref::<mc_core::MachineryError>() {
            format!("MACHINERY: {}", m.0)
        } else {
            "<non-string panic payload>".to_string()
        };
        let (file, line) = info
            .location()
            .map(|l| (l.file().to_string(), l.line()))
            .unwrap_or_else(|| ("<unknown>".into(), 0));
        if VERBOSE_PANICS.load(Ordering::Relaxed) || msg.starts_with("MACHINERY") {
            eprintln!("panic: {msg} at {file}:{line}");
        }
        if let Ok(mut g) = LAST_ANY.lock() {
            if g.len() >= 6 {
                g.remove(0);
            }
            g.push(format!("{msg} at {file}:{line}"));
        }
        LAST_PANIC.with(|p| *p.borrow_mut() = Some((msg, format!("{file}:{line}"))));
    }));
}

/// (message, "file:line") of the last panic on this thread, cleared by the call.
pub fn take_panic() -> Option<(String, String)> {
    LAST_PANIC.with(|p| p.borrow_mut().take())
}

/// Strip everything run-specific from a panic message so it can be part of a signature.
pub fn panic_class(msg: &str) -> String {
    let mut out = String::new();
    let mut last_dash = false;
    // quoted input (`...`) and anything after it is run/input specific
    let msg = msg.split('`').next().unwrap_or(msg);
    for c in msg.chars().take(60) {
        if c.is_ascii_alphabetic() {
            out.push(c.to_ascii_lowercase());
            last_dash = false;
        } else if !last_dash && !out.is_empty() {
            out.push('-');
            last_dash = true;
        }
    }
    out.trim_end_matches('-').to_string()
}

/// Source file of a panic location relative to the repository (no line number: line numbers move).
pub fn panic_file(loc: &str) -> String {
    let f = loc.rsplit_once(':').map(|x| x.0).unwrap_or(loc);
    for marker in ["actix-files/", "actix-web/", "actix-http/", "actix-router/"] {
        if let Some(i) = f.find(marker) {
            return f[i..].to_string();
        }
    }
    f.rsplit('/').next().unwrap_or(f).to_string()
}

pub fn seed() -> u64 {
    std::env::var("VERIF_SEED").ok().and_then(|s| s.parse::<u64>().ok()).unwrap_or(0)
}

/// Hands out indices `0..total` in chunks to worker threads. `VERIF_SEED` rotates the starting
/// point only; every index is handed out exactly once unless the wall cap fires.
pub struct Work {
    next: AtomicU64,
    total: u64,
    offset: u64,
    chunk: u64,
    start: Instant,
    wall_s: Option<u64>,
    pub capped: AtomicBool,
    pub done: AtomicU64,
}

impl Work {
    pub fn new(total: u64, chunk: u64, wall_s: Option<u64>, start: Instant) -> Self {
        let offset = if total == 0 { 0 } else { seed().wrapping_mul(0x9E3779B97F4A7C15) % total };
        Work {
            next: AtomicU64::new(0),
            total,
            offset,
            chunk: chunk.max(1),
            start,
            wall_s,
            capped: AtomicBool::new(false),
            done: AtomicU64::new(0),
        }
    }

    /// Next chunk as a list of real indices, or None when finished / capped.
    pub fn next_chunk(&self) -> Option<Vec<u64>> {
        if let Some(w) = self.wall_s {
            if self.start.elapsed().as_secs() >= w {
                if self.next.load(Ordering::Relaxed) < self.total {
                    self.capped.store(true, Ordering::Relaxed);
                }
                return None;
            }
        }
        let a = self.next.fetch_add(self.chunk, Ordering::Relaxed);
        if a >= self.total {
            return None;
        }
        let b = (a + self.chunk).min(self.total);
        Some((a..b).map(|i| (i + self.offset) % self.total).collect())
    }

    pub fn mark_done(&self, n: u64) {
        self.done.fetch_add(n, Ordering::Relaxed);
    }
}

/// Keeps the simplest violation per (clause, signature) and counts all violating cases, so that a
/// badly broken subject does not make the run hold millions of reports.
pub struct Best {
    pub map: std::collections::BTreeMap<(String, String), mc_core::report::Violation>,
    pub count: u64,
}

impl Best {
    pub fn new() -> Self {
        Best { map: Default::default(), count: 0 }
    }
    fn keep(&mut self, v: mc_core::report::Violation) {
        let k = (v.clause.clone(), v.signature.clone());
        match self.map.get(&k) {
            Some(o) if o.weight <= v.weight => {}
            _ => {
                self.map.insert(k, v);
            }
        }
    }
    pub fn add(&mut self, v: mc_core::report::Violation) {
        self.count += 1;
        self.keep(v);
    }
    pub fn merge(&mut self, o: Best) {
        self.count += o.count;
        for (_, v) in o.map {
            self.keep(v);
        }
    }
}
