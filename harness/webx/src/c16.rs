//! C16 — actix-files stays inside its root and answers ranges exactly.
//!
//! Shape B. A temp tree is created (and removed) by the command itself:
//!
//! ```text
//! U/                      a.txt canary.txt OUTSIDE-u.m            (all CANARY-tagged)
//! U/l1/                   a.txt canary.txt OUTSIDE-l1.m
//! U/l1/l2/                a.txt a.txt.gz canary.txt .hidden é OUTSIDE-l2.m sub/{a.txt,canary.txt,OUTSIDE-l2sub.m} root/
//! U/l1/l2/root/           a.txt a.txt.gz .hidden é mark-root.m len0.bin len1.bin len10.bin big.bin
//! U/l1/l2/root/sub/       a.txt .hidden é mark-root_sub.m
//! U/l1/l2/root/sub/sub/   a.txt mark-root_sub_sub.m
//! U/l1/l2/root/root/      mark-root_root.m                         (a detour target named like the root)
//! ```
//!
//! (i) traversal: every URL path of <= K tokens, x 3 mounts x 6 option sets, through a real
//! `Files` service; (ii) ranges: Range shapes x boundary numbers x conditional headers x file
//! lengths x {GET, HEAD} x {async, sync read mode}.

use std::collections::{BTreeMap, BTreeSet, HashMap, HashSet};
use std::panic::AssertUnwindSafe;
use std::path::{Path, PathBuf};
use std::rc::Rc;
use std::sync::{Arc, Mutex};
use std::time::{Duration, Instant, SystemTime};

use actix_files::Files;
use actix_http::Request;
use actix_web::body::{BodySize, BoxBody, MessageBody};
use actix_web::dev::{Service, ServiceResponse};
use actix_web::http::header::{HeaderName, HeaderValue};
use actix_web::http::{Method, Uri};
use actix_web::test::{self, TestRequest};
use actix_web::{web, App, Error};
use futures_core::future::LocalBoxFuture;
use futures_util::FutureExt;
use mc_core::cli::Args;
use mc_core::report::{read_replay, Evidence, Reporter, Violation};
use serde_json::{json, Value};

use crate::util::{self, Work};

// ---------------------------------------------------------------------------------------------
// the tree

pub struct Tree {
    pub unique: PathBuf,
    pub root: PathBuf,
    /// rel path under root -> content
    pub files: BTreeMap<String, Vec<u8>>,
    /// content -> rel path (contents are unique)
    pub by_content: HashMap<Vec<u8>, String>,
    /// rel dir under root ("" = root) -> visible entry names
    pub dirs: BTreeMap<String, BTreeSet<String>>,
    /// contents of files outside the root
    pub canaries: HashMap<Vec<u8>, String>,
}

impl Drop for Tree {
    fn drop(&mut self) {
        let _ = std::fs::remove_dir_all(&self.unique);
    }
}

pub const LENS: [(&str, usize); 4] =
    [("len0.bin", 0), ("len1.bin", 1), ("len10.bin", 10), ("big.bin", 70_000)];

fn patterned(len: usize, salt: u8) -> Vec<u8> {
    // adjacent bytes differ, and every 8-aligned window identifies its offset
    (0..len)
        .map(|i| ((i % 251) as u8).wrapping_add(((i / 251) as u8).wrapping_mul(3)).wrapping_add(salt))
        .collect()
}

static TREE_PATH: Mutex<Option<PathBuf>> = Mutex::new(None);

/// Remove the temp tree if one exists (used on abnormal exits).
pub fn cleanup() {
    if let Ok(g) = TREE_PATH.lock() {
        if let Some(p) = g.as_ref() {
            let _ = std::fs::remove_dir_all(p);
        }
    }
}

fn machinery_exit(msg: String) -> ! {
    eprintln!("MACHINERY: {msg}");
    if let Ok(g) = TREE_PATH.lock() {
        if let Some(p) = g.as_ref() {
            let _ = std::fs::remove_dir_all(p);
        }
    }
    std::process::exit(2)
}

impl Tree {
    pub fn create() -> Tree {
        static SEQ: std::sync::atomic::AtomicU32 = std::sync::atomic::AtomicU32::new(0);
        let unique = std::env::temp_dir().join(format!(
            "webx-c16-{}-{}",
            std::process::id(),
            SEQ.fetch_add(1, std::sync::atomic::Ordering::Relaxed)
        ));
        let _ = std::fs::remove_dir_all(&unique);
        *TREE_PATH.lock().unwrap() = Some(unique.clone());
        let l2 = unique.join("l1").join("l2");
        let root = l2.join("root");
        let mut t = Tree {
            unique: unique.clone(),
            root: root.clone(),
            files: BTreeMap::new(),
            by_content: HashMap::new(),
            dirs: BTreeMap::new(),
            canaries: HashMap::new(),
        };
        let mtime = SystemTime::UNIX_EPOCH + Duration::from_secs(1_614_834_367); // 2021-03-04
        let put = |p: &Path, content: &[u8]| {
            if let Some(d) = p.parent() {
                std::fs::create_dir_all(d)
                    .unwrap_or_else(|e| machinery_exit(format!("mkdir {}: {e}", d.display())));
            }
            std::fs::write(p, content)
                .unwrap_or_else(|e| machinery_exit(format!("write {}: {e}", p.display())));
            let f = std::fs::OpenOptions::new().write(true).open(p).unwrap();
            f.set_modified(mtime)
                .unwrap_or_else(|e| machinery_exit(format!("set mtime {}: {e}", p.display())));
        };
        // outside the root
        let outside: Vec<(PathBuf, &str)> = vec![
            (unique.join("a.txt"), "U/a.txt"),
            (unique.join("canary.txt"), "U/canary.txt"),
            (unique.join("OUTSIDE-u.m"), "U/OUTSIDE-u.m"),
            (unique.join("l1/a.txt"), "U/l1/a.txt"),
            (unique.join("l1/canary.txt"), "U/l1/canary.txt"),
            (unique.join("l1/OUTSIDE-l1.m"), "U/l1/OUTSIDE-l1.m"),
            (l2.join("a.txt"), "U/l1/l2/a.txt"),
            (l2.join("a.txt.gz"), "U/l1/l2/a.txt.gz"),
            // siblings of the root named like a pre-compressed variant of the root itself
            (l2.join("root.gz"), "U/l1/l2/root.gz"),
            (l2.join("root.br"), "U/l1/l2/root.br"),
            (l2.join("root.zst"), "U/l1/l2/root.zst"),
            (l2.join("canary.txt"), "U/l1/l2/canary.txt"),
            (l2.join(".hidden"), "U/l1/l2/.hidden"),
            (l2.join("é"), "U/l1/l2/é"),
            (l2.join("OUTSIDE-l2.m"), "U/l1/l2/OUTSIDE-l2.m"),
            (l2.join("sub/a.txt"), "U/l1/l2/sub/a.txt"),
            (l2.join("sub/canary.txt"), "U/l1/l2/sub/canary.txt"),
            (l2.join("sub/OUTSIDE-l2sub.m"), "U/l1/l2/sub/OUTSIDE-l2sub.m"),
        ];
        for (p, tag) in outside {
            let c = format!("CANARY:{tag}\n").into_bytes();
            put(&p, &c);
            t.canaries.insert(c, tag.to_string());
        }
        // inside the root
        let mut inside: Vec<(String, Vec<u8>)> = vec![];
        for rel in [
            "a.txt",
            "a.txt.gz",
            ".hidden",
            "é",
            "mark-root.m",
            "sub/a.txt",
            "sub/.hidden",
            "sub/é",
            "sub/mark-root_sub.m",
            "sub/sub/a.txt",
            "sub/sub/mark-root_sub_sub.m",
            "root/mark-root_root.m",
        ] {
            inside.push((rel.to_string(), format!("FILE:{rel}\n").into_bytes()));
        }
        for (i, (name, len)) in LENS.iter().enumerate() {
            inside.push((name.to_string(), patterned(*len, i as u8 * 17)));
        }
        for (rel, c) in inside {
            put(&root.join(&rel), &c);
            let (dir, name) = match rel.rsplit_once('/') {
                Some((d, n)) => (d.to_string(), n.to_string()),
                None => (String::new(), rel.clone()),
            };
            // register the directory chain
            let mut acc = String::new();
            t.dirs.entry(String::new()).or_default();
            for part in dir.split('/').filter(|p| !p.is_empty()) {
                let parent = acc.clone();
                if !acc.is_empty() {
                    acc.push('/');
                }
                acc.push_str(part);
                t.dirs.entry(parent).or_default().insert(part.to_string());
                t.dirs.entry(acc.clone()).or_default();
            }
            if !name.starts_with('.') {
                t.dirs.entry(dir).or_default().insert(name);
            }
            if !c.is_empty() {
                t.by_content.insert(c.clone(), rel.clone());
            }
            t.files.insert(rel, c);
        }
        t
    }
}

// ---------------------------------------------------------------------------------------------
// services

pub type Svc = Rc<dyn Fn(Request) -> LocalBoxFuture<'static, Result<ServiceResponse<BoxBody>, Error>>>;

fn boxed<S>(s: S) -> Svc
where
    S: Service<Request, Response = ServiceResponse<BoxBody>, Error = Error> + 'static,
{
    let s = Rc::new(s);
    Rc::new(move |req| {
        let s = s.clone();
        Box::pin(async move { s.call(req).await })
    })
}

pub const MOUNTS: [&str; 3] = ["/", "/static", "/sc/f"];
pub const OPTIONS: [&str; 6] = ["default", "hidden", "listing", "index", "all+redirect", "compressed"];

fn files_with(mount: &str, root: &Path, option: &str, threshold: u64) -> Files {
    let f = Files::new(mount, root).read_mode_threshold(threshold);
    match option {
        "default" => f,
        "hidden" => f.use_hidden_files(),
        "listing" => f.show_files_listing(),
        "index" => f.index_file("a.txt"),
        "all+redirect" => f
            .use_hidden_files()
            .show_files_listing()
            .index_file("a.txt")
            .redirect_to_slash_directory(),
        "compressed" => f.try_compressed(),
        _ => machinery_exit(format!("unknown option {option}")),
    }
}

pub async fn make_service(mount: &str, root: &Path, option: &str, threshold: u64) -> Svc {
    if mount == "/sc/f" {
        boxed(
            test::init_service(
                App::new().service(web::scope("/sc").service(files_with("/f", root, option, threshold))),
            )
            .await,
        )
    } else {
        boxed(test::init_service(App::new().service(files_with(mount, root, option, threshold))).await)
    }
}

pub struct Outcome {
    pub status: u16,
    pub headers: BTreeMap<String, Vec<String>>,
    pub size: String,
    pub body: Result<Vec<u8>, String>,
    pub panic: Option<(String, String)>,
}

pub async fn call(svc: &Svc, req: Request) -> Outcome {
    let mut out = Outcome {
        status: 0,
        headers: BTreeMap::new(),
        size: String::new(),
        body: Ok(vec![]),
        panic: None,
    };
    match AssertUnwindSafe(svc(req)).catch_unwind().await {
        Ok(Ok(res)) => {
            out.status = res.status().as_u16();
            for (k, v) in res.headers().iter() {
                out.headers
                    .entry(k.as_str().to_string())
                    .or_default()
                    .push(mc_core::show(v.as_bytes()));
            }
            let body = res.into_body();
            out.size = match body.size() {
                BodySize::None => "none".into(),
                BodySize::Sized(n) => format!("{n}"),
                BodySize::Stream => "stream".into(),
            };
            match AssertUnwindSafe(actix_web::body::to_bytes(body)).catch_unwind().await {
                Ok(Ok(b)) => out.body = Ok(b.to_vec()),
                Ok(Err(e)) => out.body = Err(format!("{e}")),
                Err(_) => out.panic = util::take_panic(),
            }
        }
        Ok(Err(e)) => {
            let r = e.error_response();
            out.status = r.status().as_u16();
            out.size = "error".into();
        }
        Err(_) => out.panic = util::take_panic(),
    }
    out
}

// ---------------------------------------------------------------------------------------------
// (i) traversal

pub const TOKENS: [&str; 20] = [
    "a.txt",
    "sub",
    "..",
    ".",
    "",
    "%2e",
    "%2e%2e",
    "%2f",
    "%5c",
    "%00",
    "é",
    "%C3%A9",
    ".hidden",
    "canary.txt",
    "%2e%2e%2fcanary.txt",
    // additions
    "%c3",
    "%252e%252e",
    ".%2e",
    "root",
    "..%5c",
];

fn percent_decode(s: &str) -> Vec<u8> {
    let b = s.as_bytes();
    let mut out = Vec::with_capacity(b.len());
    let mut i = 0;
    let hex = |c: u8| (c as char).to_digit(16).map(|d| d as u8);
    while i < b.len() {
        if b[i] == b'%' && i + 3 <= b.len() {
            if let (Some(h), Some(l)) = (hex(b[i + 1]), hex(b[i + 2])) {
                out.push(h * 16 + l);
                i += 3;
                continue;
            }
        }
        out.push(b[i]);
        i += 1;
    }
    out
}

/// Reference normal form of the tail of a request path: one percent-decoding, then RFC 3986
/// dot-segment removal on the byte level, clamped at the root. Segments that are not UTF-8 are kept
/// (lossily rendered): `/%c3/..` names the root, whatever `%c3` is.
pub fn ref_norm(tail: &str) -> Option<Vec<String>> {
    let dec = percent_decode(tail);
    let mut out: Vec<String> = vec![];
    for seg in dec.split(|b| *b == b'/') {
        match seg {
            b"" | b"." => {}
            b".." => {
                out.pop();
            }
            s => out.push(String::from_utf8_lossy(s).into_owned()),
        }
    }
    Some(out)
}

fn tail_of<'a>(url_path: &'a str, mount: &str) -> &'a str {
    if mount == "/" {
        url_path
    } else {
        &url_path[mount.len()..]
    }
}

fn url_of(mount: &str, toks: &[&str]) -> String {
    let joined = toks.join("/");
    if mount == "/" {
        format!("/{joined}")
    } else {
        format!("{mount}/{joined}")
    }
}

fn parse_listing(body: &str) -> Option<BTreeSet<String>> {
    if !body.starts_with("<html>") {
        return None;
    }
    let mut names = BTreeSet::new();
    for part in body.split("<li><a href=\"").skip(1) {
        let after = part.split_once("\">")?.1;
        let name = after.split_once("</a></li>")?.0;
        let name = name
            .replace("&#x2f;", "/")
            .replace("&amp;", "&")
            .replace("&lt;", "<")
            .replace("&gt;", ">")
            .replace("&quot;", "\"")
            .replace("&#x27;", "'");
        names.insert(name.trim_end_matches('/').to_string());
    }
    Some(names)
}

#[derive(Default)]
pub struct TStats {
    pub requests: u64,
    pub uri_rejected: u64,
    pub served_files: u64,
    pub served_listings: u64,
    pub status_counts: BTreeMap<u16, u64>,
    /// (normal form or marker, option, status) for paths that needed normalisation
    pub classes: HashSet<u64>,
    pub classes_all: HashSet<u64>,
    pub panics: u64,
    pub samples: Vec<Value>,
}

pub struct PathCase {
    pub mount: String,
    pub option: String,
    pub url: String,
    pub ntok: usize,
}

fn path_violation(case: &PathCase, clause: &str, signature: String, what: String, weight: u64) -> Violation {
    Violation {
        property: "C16".into(),
        clause: clause.into(),
        signature,
        what: format!(
            "GET {} on Files mounted at {} with options '{}': {}",
            case.url, case.mount, case.option, what
        ),
        replay: json!({"part": "path", "url": case.url, "mount": case.mount, "option": case.option}),
        weight,
    }
}

/// Run one traversal case and judge it.
pub async fn check_path(
    tree: &Tree,
    svc: &Svc,
    case: &PathCase,
    weight: u64,
    st: &mut TStats,
    verbose: bool,
) -> Vec<Violation> {
    let mut v = vec![];
    if case.url.parse::<Uri>().is_err() {
        st.uri_rejected += 1;
        if verbose {
            println!("URL {} is rejected by the URI parser (cannot reach the service)", case.url);
        }
        return v;
    }
    let mut tr = TestRequest::get().uri(&case.url);
    if case.option == "compressed" {
        tr = tr.insert_header(("accept-encoding", "gzip"));
    }
    st.requests += 1;
    let out = call(svc, tr.to_request()).await;
    let tail = tail_of(&case.url, &case.mount);
    let norm = ref_norm(tail);
    let norm_s = norm.as_ref().map(|n| n.join("/"));
    if verbose {
        println!(
            "GET {} (mount {}, options {}) -> status {} size {} headers {:?}\n  reference normal form of tail {:?}: {:?}\n  body: {}",
            case.url,
            case.mount,
            case.option,
            out.status,
            out.size,
            out.headers,
            tail,
            norm_s,
            match &out.body {
                Ok(b) => mc_core::show_short(b, 300),
                Err(e) => format!("<error {e}>"),
            }
        );
    }
    if let Some((msg, loc)) = &out.panic {
        st.panics += 1;
        v.push(path_violation(
            case,
            "c",
            format!("panic:path:{}:{}", util::panic_file(loc), util::panic_class(msg)),
            format!("panicked: {msg} at {loc}"),
            weight,
        ));
        return v;
    }
    *st.status_counts.entry(out.status).or_default() += 1;
    let class_key = mc_core::fnv_str(&format!(
        "{}|{}|{}",
        norm_s.clone().unwrap_or_else(|| "<undecodable>".into()),
        case.option,
        out.status
    ));
    st.classes_all.insert(class_key);
    let plain = format!("/{}", norm_s.clone().unwrap_or_default());
    if plain != tail {
        st.classes.insert(class_key);
    }
    if !(200..300).contains(&out.status) {
        return v;
    }
    let body = match out.body {
        Ok(b) => b,
        Err(e) => {
            v.push(path_violation(
                case,
                "a",
                "2xx-body-error".into(),
                format!("status {} but the body stream failed: {e}", out.status),
                weight,
            ));
            return v;
        }
    };
    if let Some(tag) = tree.canaries.get(&body) {
        v.push(path_violation(
            case,
            "a",
            "escape:outside-file-served".into(),
            format!("status {} and the body is the file {tag}, which is OUTSIDE the configured root", out.status),
            weight,
        ));
        return v;
    }
    let has_index = case.option == "index" || case.option == "all+redirect";
    if let Some(rel) = tree.by_content.get(&body) {
        st.served_files += 1;
        // consistency with the normalised request path
        let mut ok = false;
        if let Some(n) = &norm_s {
            let join = |a: &str, b: &str| if a.is_empty() { b.to_string() } else { format!("{a}/{b}") };
            let mut cands = vec![n.clone()];
            if has_index {
                cands.push(join(n, "a.txt"));
            }
            if case.option == "compressed" {
                let more: Vec<String> = cands.iter().map(|c| format!("{c}.gz")).collect();
                cands.extend(more);
            }
            ok = cands.iter().any(|c| c == rel);
        }
        if !ok {
            v.push(path_violation(
                case,
                "a-consistent",
                "wrong-file-inside-root".into(),
                format!(
                    "status {} serves root/{rel}, but the request path normalises to {:?}",
                    out.status, norm_s
                ),
                weight,
            ));
        }
        if st.samples.len() < 3 && plain != tail {
            st.samples.push(json!({"part": "path", "url": case.url, "mount": case.mount, "option": case.option, "status": out.status, "served": format!("root/{rel}")}));
        }
        return v;
    }
    let text = String::from_utf8_lossy(&body).to_string();
    if let Some(names) = parse_listing(&text) {
        st.served_listings += 1;
        if names.iter().any(|n| n.starts_with("OUTSIDE-") || n == "canary.txt") {
            v.push(path_violation(
                case,
                "a",
                "escape:outside-listing".into(),
                format!("status {} and the body lists a directory outside the root: {:?}", out.status, names),
                weight,
            ));
            return v;
        }
        let dir = tree.dirs.iter().find(|(_, e)| **e == names).map(|(d, _)| d.clone());
        match dir {
            None => v.push(path_violation(
                case,
                "a",
                "listing-of-unknown-directory".into(),
                format!("status {} lists {:?}, which is not the visible content of any directory under the root", out.status, names),
                weight,
            )),
            Some(d) => {
                if norm_s.as_deref() != Some(d.as_str()) {
                    v.push(path_violation(
                        case,
                        "a-consistent",
                        "wrong-listing-inside-root".into(),
                        format!("status {} lists root/{d}, but the request path normalises to {:?}", out.status, norm_s),
                        weight,
                    ));
                }
            }
        }
        return v;
    }
    v.push(path_violation(
        case,
        "a",
        "2xx-unidentified-body".into(),
        format!(
            "status {} with a body that is neither a file under the root nor a listing: {}",
            out.status,
            mc_core::show_short(&body, 120)
        ),
        weight,
    ));
    v
}

/// index -> token sequence (length-major, then lexicographic in TOKENS order)
pub fn decode_path(mut idx: u64, max_tokens: usize) -> Vec<&'static str> {
    let n = TOKENS.len() as u64;
    let mut len = 1;
    loop {
        let block = n.pow(len as u32);
        if idx < block || len == max_tokens {
            break;
        }
        idx -= block;
        len += 1;
    }
    let mut v = vec![""; len];
    for i in (0..len).rev() {
        v[i] = TOKENS[(idx % n) as usize];
        idx /= n;
    }
    v
}

pub fn path_count(max_tokens: usize) -> u64 {
    (1..=max_tokens).map(|l| (TOKENS.len() as u64).pow(l as u32)).sum()
}

// ---------------------------------------------------------------------------------------------
// (ii) ranges

#[derive(Clone, Debug, PartialEq, Eq, Hash)]
pub enum Spec {
    FromTo(u128, u128),
    From(u128),
    Suffix(u128),
}

impl Spec {
    fn text(&self) -> String {
        match self {
            Spec::FromTo(a, b) => format!("{a}-{b}"),
            Spec::From(a) => format!("{a}-"),
            Spec::Suffix(n) => format!("-{n}"),
        }
    }
    /// RFC 7233 resolution against a representation of `len` bytes
    fn resolve(&self, len: u128) -> Option<(u128, u128)> {
        match *self {
            Spec::FromTo(a, b) => (a <= b && a < len).then(|| (a, b.min(len.wrapping_sub(1)))),
            Spec::From(a) => (a < len).then(|| (a, len - 1)),
            Spec::Suffix(n) => (n > 0 && len > 0).then(|| (len - n.min(len), len - 1)),
        }
    }
}

#[derive(Clone, Debug)]
pub struct RangeHdr {
    pub bytes: Vec<u8>,
    pub shape: &'static str,
    /// number relation classes, for coverage classes only
    pub numclass: String,
}

fn numclass(x: u128, len: u128) -> &'static str {
    if x > u64::MAX as u128 {
        "ovf"
    } else if x >= 1 << 63 {
        "huge"
    } else if x == 0 {
        "0"
    } else if x + 1 == len {
        "len-1"
    } else if x == len {
        "len"
    } else if x > len {
        ">len"
    } else {
        "mid"
    }
}

fn spec_class(s: &Spec, len: u128) -> String {
    match s {
        Spec::FromTo(a, b) => format!("{}-{}", numclass(*a, len), numclass(*b, len)),
        Spec::From(a) => format!("{}-", numclass(*a, len)),
        Spec::Suffix(n) => format!("-{}", numclass(*n, len)),
    }
}

pub fn numbers(len: usize, small: Option<&str>) -> Vec<u128> {
    let l = len as u128;
    let mut v: Vec<u128> = match small {
        Some("quick") => vec![0, 1, l],
        Some(_) => vec![0, 1, l.saturating_sub(1), l, 1u128 << 64],
        None => {
            let mut v = vec![0, 1, l.saturating_sub(1), l, l + 1, 1u128 << 63, u64::MAX as u128, 1u128 << 64];
            if len > 65_536 {
                v.extend([65_535, 65_536, 65_537, l - 2]);
            }
            v
        }
    };
    let mut seen = HashSet::new();
    v.retain(|x| seen.insert(*x));
    v
}

fn single_specs(nums: &[u128]) -> Vec<Spec> {
    let mut v = vec![];
    for &a in nums {
        for &b in nums {
            v.push(Spec::FromTo(a, b));
        }
    }
    for &a in nums {
        v.push(Spec::From(a));
    }
    for &n in nums {
        v.push(Spec::Suffix(n));
    }
    v
}

pub const MISC: [(&str, &str); 30] = [
    ("bytes=", "empty"),
    ("", "empty"),
    ("bytes=,", "empty"),
    ("bytes= ", "empty"),
    ("bytes= , ,", "empty"),
    ("bytes=abc", "garbage"),
    ("bytes=1", "garbage"),
    ("bytes=-", "garbage"),
    ("bytes=--1", "garbage"),
    ("bytes=1-2-3", "garbage"),
    ("bytes=0x1-0x2", "garbage"),
    ("bytes=+0-+0", "garbage"),
    ("bytes= 0 - 0 ", "garbage"),
    ("bytes=0-0;q=1", "garbage"),
    ("bytes =0-0", "garbage"),
    ("bytes=0-0 0-0", "garbage"),
    ("bytes==0-0", "garbage"),
    ("BYTES=0-0", "other-unit"),
    ("Bytes=0-0", "other-unit"),
    ("items=0-0", "other-unit"),
    ("none", "other-unit"),
    ("pages=1-2", "other-unit"),
    ("bytes=0-0,", "list"),
    ("bytes=,0-0", "list"),
    ("bytes=0-0,,0-0", "list"),
    ("bytes=0-0,abc", "list"),
    ("bytes=00000000000000000000000000000-00000000000000000000000000000", "overflow"),
    ("bytes=99999999999999999999999999-", "overflow"),
    ("bytes=0-99999999999999999999999999", "overflow"),
    ("bytes=-99999999999999999999999999", "overflow"),
];

pub fn range_headers(len: usize, tier: &str) -> Vec<RangeHdr> {
    let l = len as u128;
    let mut v = vec![];
    for s in single_specs(&numbers(len, None)) {
        let ovf = match &s {
            Spec::FromTo(a, b) => *a > u64::MAX as u128 || *b > u64::MAX as u128,
            Spec::From(a) | Spec::Suffix(a) => *a > u64::MAX as u128,
        };
        let shape = match (&s, ovf) {
            (_, true) => "overflow",
            (Spec::FromTo(..), _) => "first-last",
            (Spec::From(_), _) => "open",
            (Spec::Suffix(_), _) => "suffix",
        };
        v.push(RangeHdr {
            bytes: format!("bytes={}", s.text()).into_bytes(),
            shape: if matches!(s, Spec::Suffix(_)) && !ovf { "suffix" } else { shape },
            numclass: spec_class(&s, l),
        });
    }
    let small = single_specs(&numbers(len, Some(tier)));
    for a in &small {
        for b in &small {
            let has_suffix = matches!(a, Spec::Suffix(_)) || matches!(b, Spec::Suffix(_));
            v.push(RangeHdr {
                bytes: format!("bytes={},{}", a.text(), b.text()).into_bytes(),
                shape: if has_suffix { "list-with-suffix" } else { "list" },
                numclass: format!("{},{}", spec_class(a, l), spec_class(b, l)),
            });
        }
    }
    // a list with spaces after the comma and three members
    v.push(RangeHdr { bytes: b"bytes=0-0, 1-1, -1".to_vec(), shape: "list-with-suffix", numclass: "ws3".into() });
    let many: String = (0..100).map(|i| format!("{i}-{i}")).collect::<Vec<_>>().join(",");
    v.push(RangeHdr { bytes: format!("bytes={many}").into_bytes(), shape: "list", numclass: "x100".into() });
    for (h, shape) in MISC {
        v.push(RangeHdr { bytes: h.as_bytes().to_vec(), shape, numclass: h.to_string() });
    }
    // not visible ASCII (en dash): the header value is opaque bytes
    v.push(RangeHdr { bytes: "bytes=0\u{2013}0".as_bytes().to_vec(), shape: "non-ascii", numclass: "endash".into() });
    v
}

/// Lenient reference parse of a Range header into resolved (a, b) ranges for `len`.
pub fn requested_ranges(hdr: &[u8], len: u128) -> Vec<(u128, u128)> {
    let Ok(s) = std::str::from_utf8(hdr) else { return vec![] };
    let Some((unit, set)) = s.split_once('=') else { return vec![] };
    if !unit.trim().eq_ignore_ascii_case("bytes") {
        return vec![];
    }
    let num = |t: &str| -> Option<u128> {
        let t = t.trim().trim_start_matches('+');
        if t.is_empty() || t.len() > 38 || !t.bytes().all(|b| b.is_ascii_digit()) {
            return None;
        }
        t.parse().ok()
    };
    let mut out = vec![];
    for part in set.split(',') {
        let part = part.trim();
        let Some((a, b)) = part.split_once('-') else { continue };
        let spec = match (a.trim().is_empty(), b.trim().is_empty()) {
            (true, true) => continue,
            (true, false) => num(b).map(Spec::Suffix),
            (false, true) => num(a).map(Spec::From),
            (false, false) => num(a).zip(num(b)).map(|(a, b)| Spec::FromTo(a, b)),
        };
        if let Some(r) = spec.and_then(|s| s.resolve(len)) {
            out.push(r);
        }
    }
    out
}

pub const CONDS: [&str; 20] = [
    "none",
    "if-none-match:weak-etag",
    "if-match:weak-etag",
    "if-match:etag",
    "if-match:other",
    "if-match:*",
    "if-none-match:etag",
    "if-none-match:other",
    "if-none-match:*",
    "if-modified-since:same",
    "if-modified-since:past",
    "if-modified-since:future",
    "if-unmodified-since:past",
    "if-unmodified-since:same",
    "if-range:etag",
    "if-range:other",
    "if-range:past-date",
    "if-match:other+if-none-match:etag",
    "if-none-match:other+if-modified-since:same",
    "if-match:etag+if-unmodified-since:past",
];

#[derive(Clone, Debug, Default)]
pub struct FileMeta {
    pub etag: String,
    pub last_modified: String,
}

fn cond_headers(cond: &str, meta: &FileMeta) -> Vec<(String, String)> {
    let past = "Wed, 03 Mar 2021 05:06:07 GMT";
    let future = "Fri, 05 Mar 2100 05:06:07 GMT";
    let mut v = vec![];
    if cond == "none" {
        return v;
    }
    if let Some(raw) = cond.strip_prefix("raw:") {
        // raw:<header-name>:<verbatim value> — the malformed-value sweep
        let (name, val) = raw.split_once(':').unwrap();
        v.push((name.to_string(), val.to_string()));
        return v;
    }
    for part in cond.split('+') {
        let (name, kind) = part.split_once(':').unwrap();
        let val = match kind {
            "etag" => meta.etag.clone(),
            "weak-etag" => format!("W/{}", meta.etag),
            "other" => "\"0:0:0:0\"".to_string(),
            "*" => "*".to_string(),
            "same" => meta.last_modified.clone(),
            "past" | "past-date" => past.to_string(),
            "future" => future.to_string(),
            _ => machinery_exit(format!("bad cond {cond}")),
        };
        v.push((name.to_string(), val));
    }
    v
}

/// Class of a conditional setting for the coverage count: the named settings are their own class;
/// a raw value is classed by header name and by the multiset of characters it uses.
fn cond_class(cond: &str) -> String {
    match cond.strip_prefix("raw:") {
        None => cond.to_string(),
        Some(raw) => {
            let (name, val) = raw.split_once(':').unwrap();
            let mut cs: Vec<char> = val.chars().map(|c| if c.is_ascii_digit() { '0' } else { c }).collect();
            cs.sort_unstable();
            cs.dedup();
            format!("raw:{name}:{}:{}", val.len().min(6), cs.into_iter().collect::<String>())
        }
    }
}

/// Alphabet of the entity-tag sweep: weak prefix letters, quote, an etag character, list
/// separator, space and the wildcard.
pub const ETAG_ALPHABET: [u8; 7] = [b'W', b'/', b'"', b'a', b',', b' ', b'*'];

/// Malformed and borderline HTTP-date values.
pub const DATE_MENU: [&str; 12] = [
    "",
    " ",
    "0",
    "GMT",
    "Wed, 03 Mar 2021",
    "Wed, 03 Mar 2021 05:06:07",
    "Wed, 03 Mar 2021 05:06:07 UTC",
    "Wed, 31 Feb 2021 05:06:07 GMT",
    "Thu, 01 Jan 1970 00:00:00 GMT",
    "Mon, 01 Jan 0001 00:00:00 GMT",
    "Fri, 31 Dec 9999 23:59:59 GMT",
    "Sunday, 06-Nov-94 08:49:37 GMT",
];

/// Every conditional header with every value over the entity-tag alphabet up to `max_len`
/// (HeaderValue needs no leading/trailing-space trimming: the value is inserted verbatim), plus
/// the date menu on the three date-valued headers. The strings live for the whole run.
pub fn raw_conds(max_len: usize) -> Vec<&'static str> {
    let mut v: Vec<&'static str> = vec![];
    let mut vals: Vec<Vec<u8>> = vec![vec![]];
    let mut start = 0;
    for _ in 0..max_len {
        let end = vals.len();
        for i in start..end {
            for &c in &ETAG_ALPHABET {
                let mut t = vals[i].clone();
                t.push(c);
                vals.push(t);
            }
        }
        start = end;
    }
    for name in ["if-match", "if-none-match", "if-range"] {
        for val in &vals {
            let s = format!("raw:{name}:{}", std::str::from_utf8(val).unwrap());
            v.push(Box::leak(s.into_boxed_str()));
        }
    }
    for name in ["if-modified-since", "if-unmodified-since", "if-range"] {
        for val in DATE_MENU {
            let s = format!("raw:{name}:{val}");
            v.push(Box::leak(s.into_boxed_str()));
        }
    }
    v
}

#[derive(Clone, Debug)]
pub struct RangeCase {
    pub file: usize,
    pub range: Option<RangeHdr>,
    pub cond: &'static str,
    pub head: bool,
    pub sync: bool,
}

fn lenclass(len: usize) -> &'static str {
    match len {
        0 => "empty-file",
        1 => "one-byte-file",
        x if x <= 65_536 => "small-file",
        _ => "multichunk-file",
    }
}

#[derive(Default)]
pub struct RStats {
    pub requests: u64,
    pub by_status: BTreeMap<u16, u64>,
    pub classes: HashSet<u64>,
    pub partial_ok: u64,
    pub full_ok: u64,
    pub multi_chunk_bodies: u64,
    pub with_416_content_range: u64,
    pub non_ascii_400: u64,
    pub panics: u64,
    pub samples: Vec<Value>,
}

fn parse_content_range(v: &str) -> Option<(u128, u128, u128)> {
    let rest = v.strip_prefix("bytes ")?;
    let (r, total) = rest.split_once('/')?;
    let (a, b) = r.split_once('-')?;
    let ok = |s: &str| !s.is_empty() && s.bytes().all(|c| c.is_ascii_digit());
    if !(ok(a) && ok(b) && ok(total)) {
        return None;
    }
    Some((a.parse().ok()?, b.parse().ok()?, total.parse().ok()?))
}

pub async fn check_range(
    tree: &Tree,
    svc: &Svc,
    metas: &[FileMeta],
    case: &RangeCase,
    weight: u64,
    st: &mut RStats,
    verbose: bool,
) -> Vec<Violation> {
    let (fname, flen) = LENS[case.file];
    let content = &tree.files[fname];
    let mut tr = if case.head { TestRequest::default().method(Method::HEAD) } else { TestRequest::get() };
    tr = tr.uri(&format!("/{fname}"));
    let mut req = tr.to_request();
    if let Some(r) = &case.range {
        let hv = HeaderValue::from_bytes(&r.bytes)
            .unwrap_or_else(|_| machinery_exit(format!("range header not constructible: {}", mc_core::show(&r.bytes))));
        req.headers_mut().insert(HeaderName::from_static("range"), hv);
    }
    for (n, v) in cond_headers(case.cond, &metas[case.file]) {
        req.headers_mut().insert(
            HeaderName::from_bytes(n.as_bytes()).unwrap(),
            HeaderValue::from_str(&v).unwrap_or_else(|_| machinery_exit(format!("bad header value {v}"))),
        );
    }
    st.requests += 1;
    let out = call(svc, req).await;
    let shape = case.range.as_ref().map(|r| r.shape).unwrap_or("no-range");
    let rtext = case.range.as_ref().map(|r| mc_core::show(&r.bytes));
    let lc = lenclass(flen);
    let desc = format!(
        "{} /{fname} (length {flen}, {} read) Range: {} cond: {}",
        if case.head { "HEAD" } else { "GET" },
        if case.sync { "sync" } else { "async" },
        rtext.clone().map(|t| format!("{t:?}")).unwrap_or_else(|| "<none>".into()),
        case.cond
    );
    let mk = |clause: &str, signature: String, what: String| Violation {
        property: "C16".into(),
        clause: clause.into(),
        signature,
        what: format!("{desc}: {what}"),
        replay: json!({
            "part": "range",
            "file": fname,
            "range_bytes": case.range.as_ref().map(|r| r.bytes.clone()),
            "range_text": rtext,
            "shape": shape,
            "cond": case.cond,
            "head": case.head,
            "sync": case.sync,
        }),
        weight,
    };
    if verbose {
        println!(
            "{desc}\n  -> status {} size {} headers {:?}\n  body: {}",
            out.status,
            out.size,
            out.headers,
            match &out.body {
                Ok(b) => format!("{} bytes: {}", b.len(), mc_core::show_short(b, 48)),
                Err(e) => format!("<error {e}>"),
            }
        );
    }
    let mut v = vec![];
    if let Some((msg, loc)) = &out.panic {
        st.panics += 1;
        let sig = if flen == 0 && (shape == "suffix" || shape == "list-with-suffix") {
            // one root cause: a suffix range resolves to a zero-length range on an empty file
            format!("panic:range-on-empty-file:suffix:{}", util::panic_class(msg))
        } else {
            format!("panic:range:{lc}:{shape}:{}:{}", util::panic_file(loc), util::panic_class(msg))
        };
        v.push(mk("c", sig, format!("panicked: {msg} at {loc}")));
        return v;
    }
    *st.by_status.entry(out.status).or_default() += 1;
    st.classes.insert(mc_core::fnv_str(&format!(
        "{shape}|{}|{lc}|{}|{}",
        case.range.as_ref().map(|r| r.numclass.as_str()).unwrap_or(""),
        cond_class(case.cond),
        out.status
    )));
    let sized: Option<u128> = out.size.parse().ok();
    let cl_hdr = out.headers.get("content-length").and_then(|v| v.first()).cloned();
    let cr = out.headers.get("content-range").and_then(|v| v.first()).cloned();
    // RFC 7232 3.2: If-None-Match compares weakly, so the weak form of the current tag matches
    if case.cond == "if-none-match:weak-etag" && case.range.is_none() && out.status != 304 {
        v.push(mk("b-conditional", format!("weak-if-none-match-not-304:{lc}"), format!("If-None-Match carries the weak form of the current entity tag (weak comparison applies): expected 304, got {}", out.status)));
    }
    match out.status {
        200 => {
            match &out.body {
                Err(e) => v.push(mk("b", format!("200-body-error:{lc}"), format!("200 but the body stream failed: {e}"))),
                Ok(b) => {
                    if b != content {
                        v.push(mk(
                            "b",
                            format!("200-body-mismatch:{lc}:{shape}"),
                            format!("200 but the body ({} bytes) is not the full file ({} bytes)", b.len(), flen),
                        ));
                    } else if sized != Some(flen as u128) {
                        v.push(mk(
                            "b",
                            format!("200-length-mismatch:{lc}:{shape}"),
                            format!("200 with declared body size {} for a file of {flen} bytes", out.size),
                        ));
                    } else {
                        st.full_ok += 1;
                    }
                }
            }
            if let Some(cl) = cl_hdr {
                if cl.parse::<usize>().ok() != Some(flen) {
                    v.push(mk("b", format!("200-content-length-header:{lc}"), format!("Content-Length {cl} for a full response of {flen} bytes")));
                }
            }
        }
        206 => {
            let Some(crv) = cr else {
                v.push(mk("b", format!("206-no-content-range:{lc}:{shape}"), "206 without Content-Range".into()));
                return v;
            };
            let Some((a, b, total)) = parse_content_range(&crv) else {
                v.push(mk("b", format!("206-malformed-content-range:{lc}:{shape}"), format!("206 with malformed Content-Range {crv:?}")));
                return v;
            };
            if total != flen as u128 || a > b || b >= flen as u128 {
                v.push(mk(
                    "b",
                    format!("206-impossible-range:{lc}:{shape}"),
                    format!("206 with Content-Range {crv:?} for a file of {flen} bytes (needs a <= b < len and total == len)"),
                ));
                return v;
            }
            let want = &content[a as usize..=b as usize];
            if sized != Some(b - a + 1) {
                v.push(mk(
                    "b",
                    format!("206-length-mismatch:{lc}:{shape}"),
                    format!("206 {crv:?} declares body size {} instead of {}", out.size, b - a + 1),
                ));
            }
            if let Some(cl) = cl_hdr {
                if cl.parse::<u128>().ok() != Some(b - a + 1) {
                    v.push(mk("b", format!("206-content-length-header:{lc}"), format!("Content-Length {cl} with Content-Range {crv:?}")));
                }
            }
            match &out.body {
                Err(e) => v.push(mk("b", format!("206-body-error:{lc}:{shape}"), format!("206 {crv:?} but the body stream failed: {e}"))),
                Ok(body) => {
                    if body.as_slice() != want {
                        let first_bad = body.iter().zip(want.iter()).position(|(x, y)| x != y);
                        v.push(mk(
                            "b",
                            format!("206-body-mismatch:{lc}:{shape}"),
                            format!(
                                "206 {crv:?}: body has {} bytes, the file slice has {}; first differing offset {:?}",
                                body.len(),
                                want.len(),
                                first_bad
                            ),
                        ));
                    } else if v.is_empty() {
                        st.partial_ok += 1;
                        if want.len() > 65_536 {
                            st.multi_chunk_bodies += 1;
                        }
                        if st.samples.len() < 3 && shape != "first-last" {
                            st.samples.push(json!({"part": "range", "file": fname, "range": rtext, "cond": case.cond, "status": 206, "content_range": crv}));
                        }
                    }
                }
            }
            // the 206 must answer a range the client asked for
            let asked = case.range.as_ref().map(|r| requested_ranges(&r.bytes, flen as u128)).unwrap_or_default();
            if !asked.contains(&(a, b)) {
                v.push(mk(
                    "b-requested",
                    format!("206-range-not-requested:{lc}:{shape}"),
                    format!("206 {crv:?} but the satisfiable ranges requested resolve to {asked:?}"),
                ));
            }
        }
        304 | 412 => {
            if case.cond == "if-match:weak-etag" && case.range.is_none() && out.status != 412 {
                v.push(mk("b-conditional", format!("weak-if-match-not-412:{lc}"), format!("If-Match with the weak form of the current entity tag must fail (strong comparison): status {}", out.status)));
            }
            // a 304 answers If-None-Match / If-Modified-Since, a 412 answers If-Match /
            // If-Unmodified-Since; without such a header there is nothing to answer
            let needs: [&str; 2] = if out.status == 304 { ["if-none-match", "if-modified-since"] } else { ["if-match", "if-unmodified-since"] };
            if !needs.iter().any(|h| case.cond.contains(h)) {
                v.push(mk(
                    "b-conditional",
                    format!("{}-without-its-precondition-header:{lc}", out.status),
                    format!("status {} although the request carries none of {needs:?}", out.status),
                ));
            }
        }
        416 => {
            if cr.is_some() {
                st.with_416_content_range += 1;
            }
        }
        400 if shape == "non-ascii" => {
            // a Range value that is not visible ASCII is rejected as a bad request: an error
            // response, accepted (the statement's list presupposes a readable header)
            st.non_ascii_400 += 1;
        }
        other => v.push(mk(
            "b",
            format!("status-outside-set:{other}:{lc}:{shape}"),
            format!("status {other} is none of 200 / 206 / 304 / 412 / 416"),
        )),
    }
    v
}

pub fn range_cases(tier: &str) -> Vec<RangeCase> {
    let mut v = vec![];
    for (fi, (_, len)) in LENS.iter().enumerate() {
        let mut hdrs: Vec<Option<RangeHdr>> = vec![None];
        hdrs.extend(range_headers(*len, tier).into_iter().map(Some));
        for h in &hdrs {
            for cond in CONDS {
                for head in [false, true] {
                    for sync in [false, true] {
                        v.push(RangeCase { file: fi, range: h.clone(), cond, head, sync });
                    }
                }
            }
        }
    }
    // malformed / borderline conditional values: without a Range header and with one satisfiable
    // first-last range, on the 10-byte and the empty file
    let raw = raw_conds(if tier == "quick" { 4 } else { 6 });
    for (fi, (_, len)) in LENS.iter().enumerate() {
        if *len != 10 && *len != 0 {
            continue;
        }
        let mut hdrs: Vec<Option<RangeHdr>> = vec![None];
        if *len == 10 {
            hdrs.push(Some(RangeHdr { bytes: b"bytes=2-5".to_vec(), shape: "first-last", numclass: "inside".into() }));
        }
        for h in &hdrs {
            for &cond in &raw {
                v.push(RangeCase { file: fi, range: h.clone(), cond, head: false, sync: false });
            }
        }
    }
    v
}

async fn file_metas(tree: &Tree) -> Vec<FileMeta> {
    let svc = make_service("/", &tree.root, "default", 0).await;
    let mut v = vec![];
    for (name, _) in LENS {
        let out = call(&svc, TestRequest::get().uri(&format!("/{name}")).to_request()).await;
        let g = |k: &str| out.headers.get(k).and_then(|x| x.first()).cloned();
        match (out.status, g("etag"), g("last-modified")) {
            (200, Some(etag), Some(lm)) => v.push(FileMeta { etag, last_modified: lm }),
            other => machinery_exit(format!("plain GET /{name} did not give 200 + etag + last-modified: {other:?}")),
        }
    }
    v
}

// ---------------------------------------------------------------------------------------------

use crate::util::Best;

pub fn main(args: &Args) -> i32 {
    util::install_panic_capture(args.replay.is_some());
    let tree = Tree::create();
    let code = if let Some(p) = &args.replay { replay(&tree, p) } else { explore(&tree, args) };
    drop(tree);
    code
}

fn explore(tree: &Tree, args: &Args) -> i32 {
    let t0 = Instant::now();
    let quick = args.tier == "quick";
    let max_tokens = if quick { 3 } else { 5 };
    let wall = args.wall_s.or(if quick { None } else { Some(25 * 60) });
    let threads = mc_core::cli::threads();

    // ---- (i) traversal
    let npaths = path_count(max_tokens);
    let combos: Vec<(usize, usize)> =
        (0..MOUNTS.len()).flat_map(|m| (0..OPTIONS.len()).map(move |o| (m, o))).collect();
    let work = Work::new(npaths, 64, wall, t0);
    let tstats = Mutex::new(TStats::default());
    let best = Mutex::new(Best::new());
    std::thread::scope(|sc| {
        for _ in 0..threads {
            sc.spawn(|| {
                util::install_panic_capture(false);
                let rt = actix_rt::Runtime::new().expect("runtime");
                let mut st = TStats::default();
                let mut b = Best::new();
                rt.block_on(async {
                    let mut svcs: HashMap<(usize, usize), Svc> = HashMap::new();
                    for &(m, o) in &combos {
                        svcs.insert((m, o), make_service(MOUNTS[m], &tree.root, OPTIONS[o], 0).await);
                    }
                    while let Some(chunk) = work.next_chunk() {
                        let n = chunk.len() as u64;
                        for idx in chunk {
                            let toks = decode_path(idx, max_tokens);
                            for &(m, o) in &combos {
                                let case = PathCase {
                                    mount: MOUNTS[m].into(),
                                    option: OPTIONS[o].into(),
                                    url: url_of(MOUNTS[m], &toks),
                                    ntok: toks.len(),
                                };
                                let weight = ((case.ntok as u64) << 40) | (idx << 8) | ((m * OPTIONS.len() + o) as u64);
                                let before = st.panics;
                                for v in check_path(tree, &svcs[&(m, o)], &case, weight, &mut st, false).await {
                                    b.add(v);
                                }
                                if st.panics != before {
                                    // do not trust an instance that unwound
                                    svcs.insert((m, o), make_service(MOUNTS[m], &tree.root, OPTIONS[o], 0).await);
                                }
                            }
                        }
                        work.mark_done(n);
                    }
                });
                let mut g = tstats.lock().unwrap();
                g.requests += st.requests;
                g.uri_rejected += st.uri_rejected;
                g.served_files += st.served_files;
                g.served_listings += st.served_listings;
                g.panics += st.panics;
                for (k, v) in st.status_counts {
                    *g.status_counts.entry(k).or_default() += v;
                }
                g.classes.extend(st.classes);
                g.classes_all.extend(st.classes_all);
                if g.samples.len() < 4 {
                    g.samples.extend(st.samples.into_iter().take(2));
                }
                best.lock().unwrap().merge(b);
            });
        }
    });
    let t_capped = work.capped.load(std::sync::atomic::Ordering::Relaxed);
    let t_done = work.done.load(std::sync::atomic::Ordering::Relaxed);
    let t_wall = t0.elapsed().as_secs_f64();

    // ---- (ii) ranges
    let metas = {
        let rt = actix_rt::Runtime::new().expect("runtime");
        rt.block_on(file_metas(tree))
    };
    let cases = Arc::new(range_cases(&args.tier));
    let rwork = Work::new(cases.len() as u64, 128, wall, t0);
    let rstats = Mutex::new(RStats::default());
    std::thread::scope(|sc| {
        for _ in 0..threads {
            sc.spawn(|| {
                util::install_panic_capture(false);
                let rt = actix_rt::Runtime::new().expect("runtime");
                let mut st = RStats::default();
                let mut b = Best::new();
                rt.block_on(async {
                    let mut svc_async = make_service("/", &tree.root, "default", 0).await;
                    let mut svc_sync = make_service("/", &tree.root, "default", u64::MAX).await;
                    while let Some(chunk) = rwork.next_chunk() {
                        let n = chunk.len() as u64;
                        for idx in chunk {
                            let case = &cases[idx as usize];
                            let before = st.panics;
                            let svc = if case.sync { &svc_sync } else { &svc_async };
                            for v in check_range(tree, svc, &metas, case, idx, &mut st, false).await {
                                b.add(v);
                            }
                            if st.panics != before {
                                svc_async = make_service("/", &tree.root, "default", 0).await;
                                svc_sync = make_service("/", &tree.root, "default", u64::MAX).await;
                            }
                        }
                        rwork.mark_done(n);
                    }
                });
                let mut g = rstats.lock().unwrap();
                g.requests += st.requests;
                g.partial_ok += st.partial_ok;
                g.full_ok += st.full_ok;
                g.multi_chunk_bodies += st.multi_chunk_bodies;
                g.with_416_content_range += st.with_416_content_range;
                g.non_ascii_400 += st.non_ascii_400;
                g.panics += st.panics;
                for (k, v) in st.by_status {
                    *g.by_status.entry(k).or_default() += v;
                }
                g.classes.extend(st.classes);
                if g.samples.len() < 4 {
                    g.samples.extend(st.samples.into_iter().take(2));
                }
                best.lock().unwrap().merge(b);
            });
        }
    });
    let r_capped = rwork.capped.load(std::sync::atomic::Ordering::Relaxed);
    let r_done = rwork.done.load(std::sync::atomic::Ordering::Relaxed);

    let ts = tstats.into_inner().unwrap();
    let rs = rstats.into_inner().unwrap();
    let best = best.into_inner().unwrap();
    let capped = t_capped || r_capped;

    // determinism: every violating case kept is re-run once and must violate the same way
    let mut reporter = Reporter::new("C16");
    {
        let rt = actix_rt::Runtime::new().expect("runtime");
        for v in best.map.values() {
            let again = rt.block_on(rerun(tree, &v.replay, &metas, false));
            if !again.iter().any(|w| w.clause == v.clause && w.signature == v.signature) {
                eprintln!(
                    "MACHINERY: violation {}:{} did not reproduce when its case was re-run ({})",
                    v.clause, v.signature, v.what
                );
                return 2;
            }
        }
    }
    let total_violating = best.count;
    reporter.add_all(best.map.into_values());

    let mut ev = Evidence::new("C16", &args.tier, "exploration");
    ev.set("evaluations", ts.requests + rs.requests);
    ev.set("distinct_nontrivial", (ts.classes.len() + rs.classes.len()) as u64);
    ev.set(
        "rule",
        format!(
            "(i) every URL path of 1..={max_tokens} tokens from a {}-token alphabet (dot segments, percent-encoded dots/slash/backslash/NUL, raw and encoded UTF-8, invalid UTF-8, double encoding, hidden name, names that exist outside the root) joined by '/', x mounts {:?} x option sets {:?}, sent as GET to a real Files service over a temp tree with tagged canary files outside the root; a traversal class is (reference normal form of the path tail, option set, status) and is non-trivial when the raw tail differs from its normal form. (ii) Range headers (first-last / open / suffix over boundary numbers {{0,1,len-1,len,len+1,2^63,2^64-1,2^64}} plus chunk-boundary numbers for the 70000-byte file, all pairs of a reduced spec set as two-range lists, empty / garbage / other-unit / overflowing / non-ASCII values) x {} conditional-header settings x file lengths {{0,1,10,70000}} x {{GET,HEAD}} x {{async,sync read mode}}; plus, on the empty and the 10-byte file with no Range and with bytes=2-5, If-Match / If-None-Match / If-Range with EVERY value over {{W,/,\",a,comma,space,*}} up to 4 (quick) / 6 (thorough) characters and a 12-entry menu of malformed and borderline HTTP-dates on If-Modified-Since / If-Unmodified-Since / If-Range; a range class is (shape, number classes relative to the file length, file-length class, conditional, status); all range classes with a Range header are non-trivial. distinct_nontrivial = traversal classes + range classes.",
            TOKENS.len(),
            MOUNTS,
            OPTIONS,
            CONDS.len()
        ),
    );
    ev.set("exhaustive", !capped);
    ev.set("capped", capped);
    ev.set("traversal_paths_in_space", npaths);
    ev.set("traversal_paths_done", t_done);
    ev.set("traversal_requests", ts.requests);
    ev.set("traversal_urls_rejected_by_uri_parser", ts.uri_rejected);
    ev.set("traversal_files_served", ts.served_files);
    ev.set("traversal_listings_served", ts.served_listings);
    ev.set("traversal_classes_nontrivial", ts.classes.len() as u64);
    ev.set("traversal_classes_all", ts.classes_all.len() as u64);
    ev.set(
        "traversal_status_counts",
        Value::Object(ts.status_counts.iter().map(|(k, v)| (k.to_string(), json!(v))).collect()),
    );
    ev.set("traversal_wall_s", t_wall);
    ev.set("range_cases_in_space", cases.len() as u64);
    ev.set("range_cases_done", r_done);
    ev.set("range_requests", rs.requests);
    ev.set("range_classes", rs.classes.len() as u64);
    ev.set(
        "range_status_counts",
        Value::Object(rs.by_status.iter().map(|(k, v)| (k.to_string(), json!(v))).collect()),
    );
    ev.set("range_206_fully_verified", rs.partial_ok);
    ev.set("range_206_bodies_longer_than_one_read_chunk", rs.multi_chunk_bodies);
    ev.set("range_200_fully_verified", rs.full_ok);
    ev.set("range_416_with_content_range", rs.with_416_content_range);
    ev.set("range_400_for_non_ascii_value", rs.non_ascii_400);
    ev.set("panics", ts.panics + rs.panics);
    let mut samples = ts.samples.clone();
    samples.extend(rs.samples.clone());
    samples.push(json!({"part": "path", "url": url_of("/static", &decode_path(npaths / 2 + 11, max_tokens)), "mount": "/static", "option": "hidden"}));
    samples.push(json!({"part": "range", "file": "len0.bin", "range": "bytes=-1", "cond": "none", "method": "GET"}));
    ev.set("samples", samples);
    ev.set("findings", reporter.summaries());
    ev.assume("the file system is the one under std::env::temp_dir(); no symlinks are placed in the tree (whether a symlink that points outside the root counts as 'located under the directory' is not decided by the statement)");
    ev.assume("responses are read at the service level (ServiceResponse + body stream); HEAD body suppression and Content-Length framing happen later in the HTTP/1 encoder and are the subject of C02");
    ev.assume("clause a-consistent (the served file is the one the dot-segment-normalised path names) and clause b-requested (a 206 answers one of the requested ranges) read 'serves a file' / 'answers ranges exactly' as 'the file / range that was asked for'");
    ev.assume("raw non-ASCII bytes in the request target are rejected by the http crate's URI parser before any service sees them; such URLs are counted, not sent");
    ev.violations = total_violating as i64;
    ev.wall_s = t0.elapsed().as_secs_f64();
    ev.write();

    println!(
        "C16 {}: traversal {} requests ({} paths x {} mount/option combos; {} URLs unrepresentable), {} files + {} listings served, {} non-trivial classes; ranges {} requests, statuses {:?}, {} x 206 verified ({} multi-chunk), {} classes; panics {}; capped={capped}; {:.1}s",
        args.tier,
        ts.requests,
        t_done,
        combos.len(),
        ts.uri_rejected,
        ts.served_files,
        ts.served_listings,
        ts.classes.len(),
        rs.requests,
        rs.by_status,
        rs.partial_ok,
        rs.multi_chunk_bodies,
        rs.classes.len(),
        ts.panics + rs.panics,
        t0.elapsed().as_secs_f64()
    );
    let code = reporter.finish();
    let seen_206 = rs.by_status.get(&206).copied().unwrap_or(0);
    if code == 0 && (ts.served_files == 0 || rs.partial_ok == 0 || seen_206 == 0) {
        eprintln!("MACHINERY: no file was ever served / no 206 verified and nothing was reported — the check would be vacuous");
        return 2;
    }
    code
}

async fn rerun(tree: &Tree, r: &Value, metas: &[FileMeta], verbose: bool) -> Vec<Violation> {
    match r["part"].as_str() {
        Some("path") => {
            let case = PathCase {
                mount: r["mount"].as_str().unwrap_or("/").to_string(),
                option: r["option"].as_str().unwrap_or("default").to_string(),
                url: r["url"].as_str().unwrap_or("/").to_string(),
                ntok: 0,
            };
            let svc = make_service(&case.mount, &tree.root, &case.option, 0).await;
            let mut st = TStats::default();
            check_path(tree, &svc, &case, 0, &mut st, verbose).await
        }
        Some("range") => {
            let fname = r["file"].as_str().unwrap_or("");
            let Some(file) = LENS.iter().position(|(n, _)| *n == fname) else {
                machinery_exit(format!("replay names unknown file {fname}"))
            };
            let range = r["range_bytes"].as_array().map(|a| RangeHdr {
                bytes: a.iter().map(|x| x.as_u64().unwrap_or(0) as u8).collect(),
                shape: ["first-last", "open", "suffix", "list", "list-with-suffix", "empty", "overflow", "garbage", "other-unit", "non-ascii"]
                    .into_iter()
                    .find(|s| Some(*s) == r["shape"].as_str())
                    .unwrap_or("garbage"),
                numclass: String::new(),
            });
            let cond: &'static str = match r["cond"].as_str() {
                Some(c) if c.starts_with("raw:") => Box::leak(c.to_string().into_boxed_str()),
                c => CONDS.iter().copied().find(|k| Some(*k) == c).unwrap_or("none"),
            };
            let case = RangeCase {
                file,
                range,
                cond,
                head: r["head"].as_bool().unwrap_or(false),
                sync: r["sync"].as_bool().unwrap_or(false),
            };
            let svc = make_service("/", &tree.root, "default", if case.sync { u64::MAX } else { 0 }).await;
            let mut st = RStats::default();
            check_range(tree, &svc, metas, &case, 0, &mut st, verbose).await
        }
        _ => machinery_exit("replay file has no part".into()),
    }
}

fn replay(tree: &Tree, path: &str) -> i32 {
    let v = read_replay(path);
    let rt = actix_rt::Runtime::new().expect("runtime");
    let metas = rt.block_on(file_metas(tree));
    let vs = rt.block_on(rerun(tree, &v["replay"], &metas, true));
    if vs.is_empty() {
        println!("replay: the case ran without a violation");
        0
    } else {
        for x in &vs {
            println!("VIOLATION property=C16 replay={path}");
            println!("  clause={} signature={}", x.clause, x.signature);
            println!("  {}", x.what);
        }
        1
    }
}
