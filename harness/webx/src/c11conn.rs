//! C11, connection-data part. `actix_web::test::TestRequest` has no way to attach connection data
//! (`Request::conn_data` is crate-private in actix-http), so this sub-check drives the same
//! application through a real `actix_http::HttpService::h1` service with `on_connect_ext`, over
//! in-memory connections. All connections of one history go through ONE service instance (one
//! `AppInitService`, hence one request pool) exactly like the connections of one server worker.
//!
//! History = sequence of connections; each connection has a connection marker (or none) and
//! carries one request or two pipelined requests. Oracle: every stage dump of every request equals
//! the dump of the same connection as the first connection of a fresh service instance.

use std::cell::RefCell;
use std::collections::{HashMap, HashSet};
use std::future::Future;
use std::io;
use std::net::SocketAddr;
use std::pin::Pin;
use std::rc::Rc;
use std::task::{Context, Poll};

use actix_http::{Extensions, HttpService};
use actix_service::{map_config, Service, ServiceFactory};
use actix_web::dev::AppConfig;
use mc_core::report::Violation;
use serde_json::{json, Value};
use tokio::io::{AsyncRead, AsyncWrite, ReadBuf};

use crate::c11::{build_app, classify, Beh, ConnMarker, Ctx, Kind};

pub struct MemIo {
    input: Vec<u8>,
    pos: usize,
    out: Rc<RefCell<Vec<u8>>>,
    marker: Option<String>,
}

impl AsyncRead for MemIo {
    fn poll_read(
        mut self: Pin<&mut Self>,
        _cx: &mut Context<'_>,
        buf: &mut ReadBuf<'_>,
    ) -> Poll<io::Result<()>> {
        if self.pos < self.input.len() {
            let n = buf.remaining().min(self.input.len() - self.pos);
            let p = self.pos;
            buf.put_slice(&self.input[p..p + n]);
            self.pos += n;
            Poll::Ready(Ok(()))
        } else {
            // the peer sends nothing more and keeps the connection open; the last request says
            // `connection: close`, so the dispatcher finishes without further reads
            Poll::Pending
        }
    }
}

impl AsyncWrite for MemIo {
    fn poll_write(self: Pin<&mut Self>, _cx: &mut Context<'_>, buf: &[u8]) -> Poll<io::Result<usize>> {
        self.out.borrow_mut().extend_from_slice(buf);
        Poll::Ready(Ok(buf.len()))
    }
    fn poll_flush(self: Pin<&mut Self>, _cx: &mut Context<'_>) -> Poll<io::Result<()>> {
        Poll::Ready(Ok(()))
    }
    fn poll_shutdown(self: Pin<&mut Self>, _cx: &mut Context<'_>) -> Poll<io::Result<()>> {
        Poll::Ready(Ok(()))
    }
}

#[derive(Clone, Copy, PartialEq, Eq, Hash, Debug)]
pub struct ConnOp {
    /// connection carries a marker inserted by `on_connect_ext`
    pub marked: bool,
    /// requests on this connection (1 or 2, pipelined)
    pub reqs: &'static [(Kind, Beh)],
    /// the transport reports no peer address (unix socket, in-memory transport)
    pub no_peer: bool,
    /// the (first) request carries `Expect: 100-continue`
    pub expect: bool,
}

pub fn alphabet() -> Vec<ConnOp> {
    const SHAPES: [&[(Kind, Beh)]; 5] = [
        &[(Kind::A, Beh::Plain)],
        &[(Kind::D, Beh::Plain)],
        &[(Kind::A, Beh::Ext)],
        &[(Kind::N, Beh::Ext)],
        &[(Kind::A, Beh::Ext), (Kind::D, Beh::Plain)],
    ];
    let mut v = vec![];
    for marked in [true, false] {
        for s in SHAPES {
            v.push(ConnOp { marked, reqs: s, no_peer: false, expect: false });
        }
    }
    // a request that asks for `100 Continue` (its parsed flags must not outlive it in a recycled head)
    v.push(ConnOp { marked: false, reqs: SHAPES[0], no_peer: false, expect: true });
    // connections without a peer address (two request shapes): a recycled request head must not
    // keep the address of the connection that used it before
    for marked in [true, false] {
        for s in [SHAPES[0], SHAPES[3]] {
            v.push(ConnOp { marked, reqs: s, no_peer: true, expect: false });
        }
    }
    v
}

fn op_name(op: &ConnOp) -> String {
    let r: Vec<String> = op.reqs.iter().map(|(k, b)| format!("{k:?}.{b:?}")).collect();
    format!("{}{}{}[{}]", if op.marked { "conn+data" } else { "conn" }, if op.no_peer { "-nopeer" } else { "" }, if op.expect { "-expect" } else { "" }, r.join(","))
}

fn request_bytes(op: &ConnOp, pos: usize) -> Vec<u8> {
    let mut out = Vec::new();
    for (j, (kind, beh)) in op.reqs.iter().enumerate() {
        let tag = format!("c{pos}r{j}");
        let (method, uri) = match kind {
            Kind::A => ("GET", format!("/s1/a/xa{tag}/ya-{tag}?q={tag}")),
            Kind::B => ("POST", format!("/b/zb{tag}")),
            Kind::N => ("PUT", format!("/s1/in/n/w{tag}")),
            Kind::D => ("DELETE", format!("/nomatch/{tag}")),
            Kind::S => ("PATCH", format!("/s1/zz{tag}/nothing")),
        };
        let behs = match beh {
            Beh::Plain => "plain",
            _ => "ext",
        };
        let last = j + 1 == op.reqs.len();
        out.extend_from_slice(
            format!(
                "{method} {uri} HTTP/1.1\r\nhost: h-{tag}.test\r\nx-beh: {behs}\r\nx-tag: {tag}\r\ncookie: c=v{tag}\r\ncontent-length: 0\r\n{}{}\r\n",
                if op.expect && j == 0 { "expect: 100-continue\r\n" } else { "" },
                if last { "connection: close\r\n" } else { "" }
            )
            .as_bytes(),
        );
    }
    out
}

fn marker_of(op: &ConnOp, pos: usize) -> Option<String> {
    op.marked.then(|| format!("conn-marker-{pos}"))
}

/// One connection through `svc`; returns the stage dumps grouped as one list, plus addresses of
/// the request objects (one per request, taken at the app middleware).
async fn run_conn<S>(svc: &S, ctx: &Ctx, op: &ConnOp, pos: usize) -> Result<(Vec<String>, Vec<usize>), String>
where
    S: Service<(MemIo, Option<SocketAddr>), Response = ()>,
    S::Error: std::fmt::Debug,
{
    run_conn_wire(svc, ctx, op, pos).await.map(|(mut d, a, w)| {
        // what the connection wrote (status lines and framing; the date value is blanked) is part
        // of the observation: an interim response, a different framing or an extra header that
        // depends on earlier connections shows up here
        d.push(format!("@wire\n{w}"));
        (d, a)
    })
}

fn stable_wire(out: &[u8]) -> String {
    let text = String::from_utf8_lossy(out);
    let mut s = String::new();
    for line in text.split_inclusive("\r\n") {
        if line.to_ascii_lowercase().starts_with("date:") {
            s.push_str("date: <blanked>\r\n");
        } else {
            s.push_str(line);
        }
    }
    s
}

async fn run_conn_wire<S>(svc: &S, ctx: &Ctx, op: &ConnOp, pos: usize) -> Result<(Vec<String>, Vec<usize>, String), String>
where
    S: Service<(MemIo, Option<SocketAddr>), Response = ()>,
    S::Error: std::fmt::Debug,
{
    ctx.sink.borrow_mut().clear();
    ctx.addrs.borrow_mut().clear();
    let out = Rc::new(RefCell::new(Vec::new()));
    let io = MemIo { input: request_bytes(op, pos), pos: 0, out: out.clone(), marker: marker_of(op, pos) };
    let peer: SocketAddr = format!("10.9.0.{}:{}", pos + 1, 4000 + pos).parse().unwrap();
    let mut fut = Box::pin(svc.call((io, (!op.no_peer).then_some(peer))));
    let w = futures_util::task::noop_waker_ref();
    let mut cx = Context::from_waker(w);
    let mut done = false;
    for _ in 0..64 {
        let polled = std::panic::catch_unwind(std::panic::AssertUnwindSafe(|| fut.as_mut().poll(&mut cx)));
        match polled {
            Err(_) => {
                let (msg, loc) = crate::util::take_panic().unwrap_or_default();
                // the future must not be touched again
                std::mem::forget(fut);
                return Err(format!(
                    "panic:{}:{}|{msg} at {loc}",
                    crate::util::panic_file(&loc),
                    crate::util::panic_class(&msg)
                ));
            }
            Ok(Poll::Ready(r)) => {
                if let Err(e) = r {
                    return Err(format!("dispatcher error {e:?}"));
                }
                done = true;
                break;
            }
            Ok(Poll::Pending) => {
                // let spawned/blocking work (none expected) make progress
                tokio::task::yield_now().await;
            }
        }
    }
    if !done {
        return Err(format!(
            "connection future still pending after 64 polls; wrote {}",
            mc_core::show_short(&out.borrow(), 200)
        ));
    }
    if std::panic::catch_unwind(std::panic::AssertUnwindSafe(move || drop(fut))).is_err() {
        let (msg, loc) = crate::util::take_panic().unwrap_or_default();
        return Err(format!(
            "panic:{}:{}|{msg} at {loc}",
            crate::util::panic_file(&loc),
            crate::util::panic_class(&msg)
        ));
    }
    let dumps = std::mem::take(&mut *ctx.sink.borrow_mut());
    let n_req = dumps.iter().filter(|d| d.starts_with("@app_mw_pre")).count();
    if n_req != op.reqs.len() {
        return Err(format!(
            "expected {} requests to reach the app, saw {}; wrote {}",
            op.reqs.len(),
            n_req,
            mc_core::show_short(&out.borrow(), 300)
        ));
    }
    let addrs = std::mem::take(&mut *ctx.addrs.borrow_mut());
    let wire = stable_wire(&out.borrow());
    Ok((dumps, addrs, wire))
}

async fn new_h1(
    ctx: Rc<Ctx>,
) -> impl Service<(MemIo, Option<SocketAddr>), Response = (), Error = actix_http::error::DispatchError> {
    let factory = HttpService::build()
        .on_connect_ext(|io: &MemIo, ext: &mut Extensions| {
            if let Some(m) = &io.marker {
                ext.insert(ConnMarker(m.clone()));
            }
        })
        .h1(map_config(build_app(ctx), |_| AppConfig::default()));
    match factory.new_service(()).await {
        Ok(s) => s,
        Err(_) => mc_core::machinery("h1 service construction failed"),
    }
}

async fn reference(op: &ConnOp, pos: usize) -> Result<Vec<String>, String> {
    let ctx = Rc::new(Ctx::default());
    let svc = new_h1(ctx.clone()).await;
    run_conn(&svc, &ctx, op, pos).await.map(|(d, _)| d)
}

/// A connection that fails on a FRESH instance (only the pipelined shape reuses an object there).
fn fresh_failure(op: &ConnOp, ai: usize, e: &str) -> Violation {
    let (clause, signature, text) = match e.strip_prefix("panic:") {
        Some(rest) => {
            let (sig, text) = rest.split_once('|').unwrap_or((rest, rest));
            ("panic".to_string(), format!("conn:panic:{sig}"), format!("panicked: {text}"))
        }
        None => ("isolation-conn".to_string(), "conn:connection-failed".to_string(), e.to_string()),
    };
    Violation {
        property: "C11".into(),
        clause,
        signature,
        what: format!(
            "connection {} as the first connection of a fresh instance fails (its second, pipelined request is served by the object of the first) — {text}",
            op_name(op)
        ),
        replay: json!({"conn_history": [ai]}),
        weight: 1 << 40,
    }
}

#[derive(Default, Clone)]
pub struct ConnResult {
    pub violations: Vec<Violation>,
    pub histories: u64,
    pub requests: u64,
    pub distinct_nontrivial: u64,
    pub rule: String,
    pub samples: Vec<Value>,
}

fn decode(mut idx: usize, len: usize, n: usize) -> Vec<usize> {
    let mut v = vec![0; len];
    for i in (0..len).rev() {
        v[i] = idx % n;
        idx /= n;
    }
    v
}

async fn run_history(
    ops: &[ConnOp],
    refs: &HashMap<(usize, usize), Vec<String>>,
    alpha: &[ConnOp],
    res: &mut ConnResult,
    nontrivial: &mut HashSet<u64>,
    weight_base: u64,
    verbose: bool,
) -> Option<Violation> {
    let ctx = Rc::new(Ctx::default());
    let svc = new_h1(ctx.clone()).await;
    // address -> marker of the connection that last used the object
    let mut seen: HashMap<usize, Option<String>> = HashMap::new();
    let mut obs: u64 = 0xcbf29ce484222325;
    let mut any = false;
    res.histories += 1;
    for (i, op) in ops.iter().enumerate() {
        let ai = alpha.iter().position(|a| a == op).unwrap();
        let (dumps, addrs) = match run_conn(&svc, &ctx, op, i).await {
            Ok(x) => x,
            Err(e) => {
                // the same connection works as first connection of a fresh instance (the reference
                // exists), so failing here depends on the history
                let names: Vec<String> = ops[..=i].iter().map(op_name).collect();
                let (clause, signature, text) = match e.strip_prefix("panic:") {
                    Some(rest) => {
                        let (sig, text) = rest.split_once('|').unwrap_or((rest, rest));
                        ("panic".to_string(), format!("conn:panic:{sig}"), format!("panicked: {text}"))
                    }
                    None => ("isolation-conn".to_string(), "conn:connection-failed".to_string(), e.clone()),
                };
                if verbose {
                    println!("connection {i} {}: {text}", op_name(op));
                }
                return Some(Violation {
                    property: "C11".into(),
                    clause,
                    signature,
                    what: format!(
                        "connection history [{}]: connection {i} fails although the same connection succeeds on a fresh instance — {text}",
                        names.join(", ")
                    ),
                    replay: json!({"conn_history": ops[..=i].iter().map(|o| alpha.iter().position(|a| a == o).unwrap()).collect::<Vec<_>>()}),
                    weight: ((i as u64 + 1) << 48) | weight_base,
                });
            }
        };
        res.requests += op.reqs.len() as u64;
        obs = (obs ^ ai as u64).wrapping_mul(0x100000001b3);
        let me = marker_of(op, i);
        for a in &addrs {
            if let Some(prev) = seen.get(a) {
                if *prev != me {
                    any = true;
                    obs = (obs ^ 0xabcd).wrapping_mul(0x100000001b3);
                }
            }
            seen.insert(*a, me.clone());
        }
        let want = &refs[&(ai, i)];
        if verbose {
            println!(
                "connection {i} {}: {} stage dumps, last request object at a {} address",
                op_name(op),
                dumps.len(),
                if any { "previously used" } else { "new" }
            );
        }
        if &dumps != want {
            let (sig, text) = classify(&dumps, want);
            let names: Vec<String> = ops[..=i].iter().map(op_name).collect();
            return Some(Violation {
                property: "C11".into(),
                clause: "isolation-conn".into(),
                signature: format!("conn:{sig}"),
                what: format!(
                    "connection history [{}]: a request on connection {i} is observed differently than on a fresh instance — {}",
                    names.join(", "),
                    text.trim_end()
                ),
                replay: json!({"conn_history": ops[..=i].iter().map(|o| alpha.iter().position(|a| a == o).unwrap()).collect::<Vec<_>>()}),
                weight: ((i as u64 + 1) << 48) | weight_base,
            });
        }
    }
    if any {
        nontrivial.insert(obs);
    }
    None
}

pub fn run(tier: &str) -> ConnResult {
    let len = if tier == "quick" { 3 } else { 4 };
    let alpha = alphabet();
    let rt = actix_rt::Runtime::new().expect("runtime");
    rt.block_on(async {
        let mut refs = HashMap::new();
        let mut res = ConnResult::default();
        for (ai, op) in alpha.iter().enumerate() {
            for pos in 0..len {
                let a = reference(op, pos).await;
                let b = reference(op, pos).await;
                if a != b {
                    eprintln!("MACHINERY: conn reference not deterministic for {}", op_name(op));
                    std::process::exit(2);
                }
                match a {
                    Ok(a) => {
                        refs.insert((ai, pos), a);
                    }
                    Err(e) => {
                        res.violations.push(fresh_failure(op, ai, &e));
                        res.rule = "connection sub-check stopped: a connection failed on a fresh instance".into();
                        res.samples = vec![json!({"conn_history": [op_name(op)]})];
                        return res;
                    }
                }
            }
        }
        let mut nontrivial = HashSet::new();
        let total = alpha.len().pow(len as u32);
        for idx in 0..total {
            let ops: Vec<ConnOp> = decode(idx, len, alpha.len()).into_iter().map(|i| alpha[i]).collect();
            if let Some(v) =
                run_history(&ops, &refs, &alpha, &mut res, &mut nontrivial, idx as u64, false).await
            {
                res.violations.push(v);
            }
        }
        res.distinct_nontrivial = nontrivial.len() as u64;
        res.rule = format!(
            "all {} sequences of {len} connections over {} connection shapes ({{with, without}} on_connect_ext data x 5 request lists incl. one pipelined pair, plus 4 shapes whose transport reports no peer address) through one HttpService::h1 instance; non-trivial = a request object address was used earlier by a connection with different connection data",
            total,
            alpha.len()
        );
        res.samples = vec![json!({"conn_history": decode(total / 2 + 3, len, alpha.len()).into_iter().map(|i| op_name(&alpha[i])).collect::<Vec<_>>()})];
        res
    })
}

pub fn replay(r: &Value) -> i32 {
    let alpha = alphabet();
    let ops: Vec<ConnOp> = r["conn_history"]
        .as_array()
        .map(|a| a.iter().map(|v| alpha[v.as_u64().unwrap_or(0) as usize % alpha.len()]).collect())
        .unwrap_or_default();
    let rt = actix_rt::Runtime::new().expect("runtime");
    rt.block_on(async {
        let mut refs = HashMap::new();
        for (ai, op) in alpha.iter().enumerate() {
            for pos in 0..ops.len() {
                match reference(op, pos).await {
                    Ok(r) => {
                        refs.insert((ai, pos), r);
                    }
                    Err(e) => {
                        if ops.contains(op) {
                            let v = fresh_failure(op, ai, &e);
                            println!("VIOLATION property=C11 clause={} signature={}", v.clause, v.signature);
                            println!("  {}", v.what);
                            return 1;
                        }
                    }
                }
            }
        }
        let mut res = ConnResult::default();
        let mut nt = HashSet::new();
        match run_history(&ops, &refs, &alpha, &mut res, &mut nt, 0, true).await {
            Some(v) => {
                println!("VIOLATION property=C11 clause={} signature={}", v.clause, v.signature);
                println!("  {}", v.what);
                1
            }
            None => {
                println!("replay: connection history ran without a violation");
                0
            }
        }
    })
}
