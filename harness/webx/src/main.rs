fn main() {
    eprintln!("MACHINERY: engine webx is not built yet");
    std::process::exit(2);
}
