//! webx — bounded-exhaustive checks through real `actix_web::test` services.
//!
//! * `webx C11 --tier quick|thorough [--replay f]` — request isolation under pooled `HttpRequest`s
//! * `webx C16 --tier quick|thorough [--replay f]` — actix-files: traversal containment + ranges

mod c11;
mod c11conn;
mod c16;
mod util;

fn main() {
    let args = mc_core::cli::parse();
    // panics of the subject are caught where they are outcomes; anything that unwinds up to here
    // is a problem of the machinery, never a verdict
    let r = std::panic::catch_unwind(|| match args.property.as_str() {
        "C11" => c11::main(&args),
        "C16" => c16::main(&args),
        other => {
            eprintln!("MACHINERY: webx does not serve property '{other}'");
            2
        }
    });
    let code = match r {
        Ok(c) => c,
        Err(_) => {
            let (msg, loc) = util::take_panic().unwrap_or_default();
            let any = util::LAST_ANY.lock().map(|g| g.join(" | ")).unwrap_or_default();
            eprintln!("MACHINERY: uncaught panic in the engine (main thread: {msg} at {loc}; last panics anywhere: {any})");
            c16::cleanup();
            2
        }
    };
    std::process::exit(code);
}
