//! webx — bounded-exhaustive checks through real `actix_web::test` services.
//!
//! * `webx C11 --tier quick|thorough [--replay f]` — request isolation under pooled `HttpRequest`s
//! * `webx C16 --tier quick|thorough [--replay f]` — actix-files: traversal containment + ranges

mod c11;
mod c11conn;
mod c16;
mod util;

fn main() {
    let args = mc_core::cli::parse();
    let code = match args.property.as_str() {
        "C11" => c11::main(&args),
        "C16" => c16::main(&args),
        other => {
            eprintln!("MACHINERY: webx does not serve property '{other}'");
            2
        }
    };
    std::process::exit(code);
}
