//! C11 — requests are isolated although `HttpRequest` objects are recycled.
//!
//! Shape B over *histories*: every operation sequence of a fixed length L (hence, as prefixes,
//! every sequence of length <= L) over a 19-letter alphabet is executed against ONE service
//! instance. Oracle (differential): everything a handler / middleware can read from a request
//! equals what the same request shows when it is the first request of a FRESH service instance
//! built by the same factory.
//!
//! Non-vacuity is measured black-box: the address of `req.match_info()` (a field inside
//! `HttpRequestInner`) identifies the allocation; a model of the pool (LIFO, capacity 128)
//! predicts which allocation a request must be served from, and the prediction is compared with
//! the observed address. Addresses are never part of what is compared by the oracle.

use std::cell::{Cell, RefCell};
use std::collections::{BTreeMap, BTreeSet, HashMap, HashSet};
use std::future::Future;
use std::net::SocketAddr;
use std::panic::AssertUnwindSafe;
use std::pin::Pin;
use std::rc::Rc;
use std::sync::{Arc, Mutex};
use std::task::{Context, Poll};
use std::time::Instant;

use actix_http::Request;
use actix_web::body::BoxBody;
use actix_web::dev::{ConnectionInfo, Service, ServiceResponse};
use actix_web::test::{self, TestRequest};
use actix_web::{web, App, Error, HttpMessage, HttpRequest, HttpResponse};
use futures_util::FutureExt;
use mc_core::cli::Args;
use mc_core::report::{read_replay, Evidence, Reporter, Violation};
use serde_json::{json, Value};

use crate::util::{self, Work};

pub const POOL_CAP: usize = 128;
pub const BURST: usize = 130;

// ---------------------------------------------------------------------------------------------
// alphabet

#[derive(Clone, Copy, PartialEq, Eq, Hash, Debug, PartialOrd, Ord)]
pub enum Kind {
    /// `/s1/a/{x}/{y}` inside scope `/s1` (scoped app_data)
    A,
    /// `/b/{z}` top-level resource with resource-level app_data
    B,
    /// `/s1/in/n/{w}` nested scope with its own app_data, resource named "n"
    N,
    /// unmatched path -> default service
    D,
    /// enters scope `/s1` but matches no resource inside it -> default service reached from
    /// inside the scope (leaves a partial routing trail behind)
    S,
}

#[derive(Clone, Copy, PartialEq, Eq, Hash, Debug, PartialOrd, Ord)]
pub enum Beh {
    /// handler only looks
    Plain,
    /// handler inserts a request-local extension marker
    Ext,
    /// handler inserts a marker and keeps an `HttpRequest` clone alive in a shared Vec
    Stash,
    /// handler inserts a marker, then never completes; the call future is dropped (early drop)
    Cancel,
}

pub const KINDS: [Kind; 5] = [Kind::A, Kind::B, Kind::N, Kind::D, Kind::S];
pub const BEHS: [Beh; 4] = [Beh::Plain, Beh::Ext, Beh::Stash, Beh::Cancel];

#[derive(Clone, Copy, PartialEq, Eq, Hash, Debug)]
pub enum Op {
    Req(Kind, Beh),
    DropOldest,
    DropNewest,
    Burst,
}

/// simplest first
pub fn alphabet() -> Vec<Op> {
    let mut v = vec![];
    for b in BEHS {
        for k in KINDS {
            v.push(Op::Req(k, b));
        }
    }
    v.push(Op::DropOldest);
    v.push(Op::DropNewest);
    v.push(Op::Burst);
    v
}

impl Kind {
    fn s(self) -> &'static str {
        match self {
            Kind::A => "A",
            Kind::B => "B",
            Kind::N => "N",
            Kind::D => "D",
            Kind::S => "S",
        }
    }
}
impl Beh {
    fn s(self) -> &'static str {
        match self {
            Beh::Plain => "plain",
            Beh::Ext => "ext",
            Beh::Stash => "stash",
            Beh::Cancel => "cancel",
        }
    }
}

pub fn op_name(op: Op) -> String {
    match op {
        Op::Req(k, b) => format!("{}.{}", k.s(), b.s()),
        Op::DropOldest => "drop_oldest".into(),
        Op::DropNewest => "drop_newest".into(),
        Op::Burst => "burst130".into(),
    }
}

pub fn op_parse(s: &str) -> Option<Op> {
    alphabet().into_iter().find(|o| op_name(*o) == s)
}

/// One concrete request: kind, behaviour, and a tag that makes its parameters / headers unique
/// (history position `p<i>`, or `k<j>` for the j-th flavour of burst request).
#[derive(Clone, Copy, PartialEq, Eq, Hash, Debug, PartialOrd, Ord)]
pub struct ReqKey {
    pub kind: Kind,
    pub beh: Beh,
    pub tag: u8,
}

impl ReqKey {
    pub fn tag_str(self) -> String {
        if self.tag >= 100 {
            format!("k{}", self.tag - 100)
        } else {
            format!("p{}", self.tag)
        }
    }
    pub fn name(self) -> String {
        format!("{}.{}@{}", self.kind.s(), self.beh.s(), self.tag_str())
    }
}

pub fn burst_key(k: usize) -> ReqKey {
    let j = k % 8;
    ReqKey {
        kind: KINDS[j % 4],
        beh: if j / 4 == 0 { Beh::Ext } else { Beh::Plain },
        tag: 100 + j as u8,
    }
}

// ---------------------------------------------------------------------------------------------
// markers (request-local extensions, app data, connection data)

#[derive(Debug)]
pub struct Marker(pub String);
#[derive(Debug)]
pub struct PreMarker(pub String);
#[derive(Debug)]
pub struct ConnMarker(pub String);
pub struct RootData(pub &'static str);
pub struct ScopeData(pub &'static str);
pub struct InnerOnly(pub &'static str);
pub struct ResData(pub &'static str);

/// Per-service-instance context shared by handlers and middleware.
#[derive(Default)]
pub struct Ctx {
    pub sink: RefCell<Vec<String>>,
    pub stash: RefCell<Vec<HttpRequest>>,
    pub addr: Cell<usize>,
    pub addrs: RefCell<Vec<usize>>,
}

pub fn build_request(key: ReqKey) -> Request {
    let tag = key.tag_str();
    let uri = match key.kind {
        Kind::A => format!("/s1/a/xa{tag}/ya-{tag}-long?q={tag}&k=a"),
        Kind::B => format!("/b/zb%20{tag}?b={tag}"),
        Kind::N => format!("/s1/in/n/w{tag}"),
        Kind::D => format!("/nomatch/{tag}/zz?d={tag}"),
        Kind::S => format!("/s1/zz{tag}/nothing?s={tag}"),
    };
    let port = 1000 + key.tag as u16;
    let peer: SocketAddr = format!("10.0.{}.{}:{}", key.kind as u8, key.tag, port).parse().unwrap();
    let mut tr = TestRequest::with_uri(&uri)
        .insert_header(("host", format!("h-{tag}-{}.test", key.kind.s().to_lowercase())))
        .insert_header(("x-beh", key.beh.s()))
        .insert_header(("x-tag", tag.clone()))
        .append_header(("x-m", "1"))
        .append_header(("x-m", format!("m-{tag}")))
        .insert_header(("cookie", format!("c=v{tag}; k{}=1", key.kind.s())))
        .insert_header((format!("x-only-{}", key.kind.s().to_lowercase()), "1"))
        .peer_addr(peer);
    tr = match key.kind {
        Kind::A => tr.method(actix_web::http::Method::GET),
        Kind::B => tr.method(actix_web::http::Method::POST),
        Kind::N => tr.method(actix_web::http::Method::PUT),
        Kind::D => tr.method(actix_web::http::Method::DELETE),
        Kind::S => tr.method(actix_web::http::Method::PATCH),
    };
    if key.beh != Beh::Plain {
        tr = tr.insert_header(("x-forwarded-for", format!("192.0.2.{}", key.tag)));
    }
    let req = tr.to_request();
    // request-local data that arrives with the request (what a lower layer may attach)
    req.extensions_mut().insert(PreMarker(format!("pre-{tag}")));
    req
}

// ---------------------------------------------------------------------------------------------
// the observation

/// Everything reachable from an `HttpRequest`, one `key=value` per line, in a canonical order.
pub fn dump(stage: &str, req: &HttpRequest) -> String {
    use std::fmt::Write;
    let mut s = String::with_capacity(1800);
    let _ = writeln!(s, "@{stage}");
    let _ = writeln!(s, "method={}", req.method());
    let _ = writeln!(s, "uri={}", req.uri());
    let _ = writeln!(s, "path={}", req.path());
    let _ = writeln!(s, "query={}", req.query_string());
    let _ = writeln!(s, "version={:?}", req.version());
    let _ = writeln!(s, "peer={:?}", req.peer_addr());
    // headers as name -> ordered values (HeaderMap iteration order is per-process random)
    let mut names: Vec<&str> = req.headers().keys().map(|k| k.as_str()).collect();
    names.sort_unstable();
    names.dedup();
    for n in names {
        let vals: Vec<String> = req
            .headers()
            .get_all(n)
            .map(|v| mc_core::show(v.as_bytes()))
            .collect();
        let _ = writeln!(s, "hdr.{n}={vals:?}");
    }
    let mi = req.match_info();
    let _ = writeln!(s, "mi.uri={}", mi.get_ref().uri());
    let _ = writeln!(s, "mi.path={}", mi.as_str());
    let _ = writeln!(s, "mi.unprocessed={}", mi.unprocessed());
    let _ = writeln!(s, "mi.len={}", mi.segment_count());
    let pairs: Vec<String> = mi.iter().map(|(k, v)| format!("{k}={v}")).collect();
    let _ = writeln!(s, "mi.pairs={pairs:?}");
    let _ = writeln!(s, "match_name={:?}", req.match_name());
    let _ = writeln!(s, "match_pattern={:?}", req.match_pattern());
    {
        let ext = req.extensions();
        let _ = writeln!(s, "ext.marker={:?}", ext.get::<Marker>().map(|m| m.0.as_str()));
        let _ = writeln!(s, "ext.pre={:?}", ext.get::<PreMarker>().map(|m| m.0.as_str()));
        let _ = writeln!(s, "ext.cached_conninfo={}", ext.contains::<ConnectionInfo>());
    }
    let _ = writeln!(s, "conn.marker={:?}", req.conn_data::<ConnMarker>().map(|m| m.0.as_str()));
    let _ = writeln!(s, "app.root={:?}", req.app_data::<RootData>().map(|d| d.0));
    let _ = writeln!(s, "app.scope={:?}", req.app_data::<ScopeData>().map(|d| d.0));
    let _ = writeln!(s, "app.inner={:?}", req.app_data::<InnerOnly>().map(|d| d.0));
    let _ = writeln!(s, "app.res={:?}", req.app_data::<ResData>().map(|d| d.0));
    let _ = writeln!(
        s,
        "app.webdata={:?}",
        req.app_data::<web::Data<String>>().map(|d| d.as_str().to_string())
    );
    let _ = writeln!(
        s,
        "url_for.n={:?}",
        req.url_for("n", ["zz"]).map(|u| u.to_string()).map_err(|e| e.to_string())
    );
    {
        let ci = req.connection_info();
        let _ = writeln!(s, "conninfo.host={}", ci.host());
        let _ = writeln!(s, "conninfo.scheme={}", ci.scheme());
        let _ = writeln!(s, "conninfo.realip={:?}", ci.realip_remote_addr());
        let _ = writeln!(s, "conninfo.peer={:?}", ci.peer_addr());
    }
    let _ = writeln!(s, "cookie.c={:?}", req.cookie("c").map(|c| c.value().to_string()));
    let names: Vec<String> = req
        .cookies()
        .map(|cs| cs.iter().map(|c| c.name().to_string()).collect())
        .unwrap_or_default();
    let _ = writeln!(s, "cookie.names={names:?}");
    s
}

fn record(ctx: &Ctx, stage: &str, req: &HttpRequest) {
    if stage == "app_mw_pre" {
        ctx.addr.set(req.match_info() as *const _ as usize);
        ctx.addrs.borrow_mut().push(req.match_info() as *const _ as usize);
    }
    let d = dump(stage, req);
    ctx.sink.borrow_mut().push(d);
}

type HandlerFut = Pin<Box<dyn Future<Output = HttpResponse>>>;

fn handler(ctx: Rc<Ctx>, status: u16) -> impl Fn(HttpRequest) -> HandlerFut + Clone + 'static {
    move |req: HttpRequest| {
        let ctx = ctx.clone();
        Box::pin(async move {
            record(&ctx, "handler", &req);
            let beh = req
                .headers()
                .get("x-beh")
                .and_then(|v| v.to_str().ok())
                .unwrap_or("plain")
                .to_string();
            let tag = req
                .headers()
                .get("x-tag")
                .and_then(|v| v.to_str().ok())
                .unwrap_or("?")
                .to_string();
            if beh != "plain" {
                req.extensions_mut().insert(Marker(format!("marker-{tag}")));
            }
            match beh.as_str() {
                "stash" => ctx.stash.borrow_mut().push(req),
                "cancel" => {
                    std::future::pending::<()>().await;
                }
                _ => {}
            }
            HttpResponse::build(actix_web::http::StatusCode::from_u16(status).unwrap())
                .body(format!("done {tag}"))
        }) as HandlerFut
    }
}

macro_rules! dump_mw {
    ($ctx:expr, $pre:literal, $post:literal) => {{
        let ctx: Rc<Ctx> = $ctx.clone();
        move |req: actix_web::dev::ServiceRequest, srv: &_| {
            record(&ctx, $pre, req.request());
            let fut = actix_web::dev::Service::call(srv, req);
            let ctx = ctx.clone();
            async move {
                let res: ServiceResponse<_> = fut.await?;
                record(&ctx, $post, res.request());
                Ok::<_, Error>(res.map_into_boxed_body())
            }
        }
    }};
}

/// The application factory. Every instance (the one that serves a history, and every fresh
/// instance used for a reference observation) is built by this function.
pub fn build_app(
    ctx: Rc<Ctx>,
) -> App<
    impl actix_web::dev::ServiceFactory<
        actix_web::dev::ServiceRequest,
        Config = (),
        Response = ServiceResponse<BoxBody>,
        Error = Error,
        InitError = (),
    >,
> {
    App::new()
        .app_data(RootData("root"))
        .app_data(ScopeData("root-level"))
        .app_data(web::Data::new(String::from("webdata-root")))
        .service(
            web::scope("/s1")
                .app_data(ScopeData("s1"))
                .wrap_fn(dump_mw!(ctx, "scope_mw_pre", "scope_mw_post"))
                .service(web::resource("/a/{x}/{y}").to(handler(ctx.clone(), 200)))
                .service(
                    web::scope("/in")
                        .app_data(ScopeData("s1/in"))
                        .app_data(InnerOnly("in"))
                        .app_data(web::Data::new(String::from("webdata-in")))
                        .service(
                            web::resource("/n/{w}").name("n").to(handler(ctx.clone(), 201)),
                        ),
                ),
        )
        // two resources with the same pattern, told apart by a method guard only: the name of the
        // matched resource is then known from the routing decision, not from the path
        .service(
            web::resource("/b/{z}")
                .name("b-get")
                .guard(actix_web::guard::Get())
                .app_data(ResData("b-get"))
                .to(handler(ctx.clone(), 203)),
        )
        .service(
            web::resource("/b/{z}")
                .name("b-post")
                .guard(actix_web::guard::Post())
                .app_data(ResData("b"))
                .to(handler(ctx.clone(), 202)),
        )
        .default_service(web::to(handler(ctx.clone(), 404)))
        .wrap_fn(dump_mw!(ctx, "app_mw_pre", "app_mw_post"))
}

pub async fn new_instance(
    ctx: Rc<Ctx>,
) -> impl Service<Request, Response = ServiceResponse<BoxBody>, Error = Error> {
    test::init_service(build_app(ctx)).await
}

// ---------------------------------------------------------------------------------------------
// executing one request

pub struct Exec {
    /// the stage dumps produced by this request, in order
    pub dumps: Vec<String>,
    pub addr: usize,
    pub held: Option<ServiceResponse<BoxBody>>,
    pub panic: Option<(String, String)>,
}

fn poll_once<F: Future>(fut: Pin<&mut F>) -> Poll<F::Output> {
    let w = futures_util::task::noop_waker_ref();
    let mut cx = Context::from_waker(w);
    fut.poll(&mut cx)
}

pub async fn exec_request<S>(app: &S, ctx: &Ctx, key: ReqKey, hold: bool) -> Exec
where
    S: Service<Request, Response = ServiceResponse<BoxBody>, Error = Error>,
{
    ctx.sink.borrow_mut().clear();
    ctx.addrs.borrow_mut().clear();
    ctx.addr.set(0);
    let req = build_request(key);
    let mut held = None;
    let mut panic = None;
    if key.beh == Beh::Cancel {
        let r = std::panic::catch_unwind(AssertUnwindSafe(|| {
            let mut fut = Box::pin(app.call(req));
            match poll_once(fut.as_mut()) {
                Poll::Pending => {}
                Poll::Ready(_) => mc_core::machinery("cancel request completed in one poll"),
            }
            drop(fut);
        }));
        if r.is_err() {
            panic = util::take_panic();
        }
    } else {
        // `call` already runs the synchronous part of the middleware chain: keep it inside the guard
        match AssertUnwindSafe(async { app.call(req).await }).catch_unwind().await {
            Ok(Ok(res)) => {
                if hold {
                    held = Some(res);
                } else {
                    // dropping the response releases the request object
                    let r = std::panic::catch_unwind(AssertUnwindSafe(move || drop(res)));
                    if r.is_err() {
                        panic = util::take_panic();
                    }
                }
            }
            Ok(Err(e)) => mc_core::machinery(format!("service returned error: {e}")),
            Err(_) => panic = util::take_panic(),
        }
    }
    if let Some((m, _)) = &panic {
        if m.starts_with("MACHINERY") {
            mc_core::machinery(m.clone());
        }
    }
    let dumps = std::mem::take(&mut *ctx.sink.borrow_mut());
    Exec { dumps, addr: ctx.addr.get(), held, panic }
}

/// Reference observation: the request as the FIRST request of a FRESH instance.
pub async fn reference(key: ReqKey) -> Vec<String> {
    let ctx = Rc::new(Ctx::default());
    let app = new_instance(ctx.clone()).await;
    let ex = exec_request(&app, &ctx, key, false).await;
    if let Some((m, l)) = ex.panic {
        mc_core::machinery(format!("reference run of {} panicked: {m} at {l}", key.name()));
    }
    ctx.stash.borrow_mut().clear();
    drop(app);
    ex.dumps
}

pub type Refs = HashMap<ReqKey, Vec<String>>;

pub fn all_keys(len: usize) -> Vec<ReqKey> {
    let mut v = vec![];
    for tag in 0..len as u8 {
        for b in BEHS {
            for k in KINDS {
                v.push(ReqKey { kind: k, beh: b, tag });
            }
        }
    }
    for k in 0..8 {
        v.push(burst_key(k));
    }
    v
}

pub fn build_refs(len: usize) -> Refs {
    let rt = actix_rt::Runtime::new().expect("runtime");
    rt.block_on(async {
        let mut refs = Refs::new();
        for key in all_keys(len) {
            let a = reference(key).await;
            let b = reference(key).await;
            if a != b {
                eprintln!(
                    "MACHINERY: reference observation of {} is not deterministic:\n{}",
                    key.name(),
                    diff_text(&a, &b)
                );
                std::process::exit(2);
            }
            if a.is_empty() {
                eprintln!("MACHINERY: reference observation of {} is empty", key.name());
                std::process::exit(2);
            }
            refs.insert(key, a);
        }
        refs
    })
}

// ---------------------------------------------------------------------------------------------
// comparing

fn split_stage(d: &str) -> (&str, BTreeMap<&str, &str>) {
    let mut lines = d.lines();
    let stage = lines.next().unwrap_or("");
    let mut m = BTreeMap::new();
    for l in lines {
        let (k, v) = l.split_once('=').unwrap_or((l, ""));
        m.insert(k, v);
    }
    (stage, m)
}

/// (signature, human-readable diff)
pub fn classify(got: &[String], want: &[String]) -> (String, String) {
    for i in 0..got.len().max(want.len()) {
        match (got.get(i), want.get(i)) {
            (Some(g), Some(w)) if g == w => continue,
            (Some(g), Some(w)) => {
                let (gs, gm) = split_stage(g);
                let (ws, wm) = split_stage(w);
                if gs != ws {
                    return (
                        format!("stages:{}!={}", gs, ws),
                        format!("stage {i}: got {gs}, fresh instance has {ws}"),
                    );
                }
                let keys: BTreeSet<&str> = gm.keys().chain(wm.keys()).copied().collect();
                let mut differing = vec![];
                let mut text = String::new();
                for k in keys {
                    let a = gm.get(k).copied();
                    let b = wm.get(k).copied();
                    if a != b {
                        // `hdr.x-only-a` etc. are all the same class of observation
                        let class = if k.starts_with("hdr.") { "headers" } else { k };
                        if !differing.contains(&class) {
                            differing.push(class);
                        }
                        text.push_str(&format!(
                            "    {k}: history={} fresh={}\n",
                            a.unwrap_or("<absent>"),
                            b.unwrap_or("<absent>")
                        ));
                    }
                }
                return (
                    format!("differs:{}:{}", gs.trim_start_matches('@'), differing.join("+")),
                    format!("at stage {gs}:\n{text}"),
                );
            }
            (Some(g), None) => {
                let (gs, _) = split_stage(g);
                return (format!("stages:extra:{gs}"), format!("extra stage {gs}"));
            }
            (None, Some(w)) => {
                let (ws, _) = split_stage(w);
                return (format!("stages:missing:{ws}"), format!("missing stage {ws}"));
            }
            (None, None) => unreachable!(),
        }
    }
    ("equal".into(), String::new())
}

fn diff_text(a: &[String], b: &[String]) -> String {
    classify(a, b).1
}

// ---------------------------------------------------------------------------------------------
// the pool model (for non-vacuity counters only — never part of the verdict)

#[derive(Clone, Copy, PartialEq, Eq, Hash, Debug, PartialOrd, Ord)]
pub enum How {
    ResponseDropped,
    FutureCancelled,
    StashDropped,
    BurstReleased,
}

#[derive(Clone, Copy, Debug)]
struct Pooled {
    addr: usize,
    prev: ReqKey,
    how: How,
}

#[derive(Default)]
pub struct Stats {
    pub histories: u64,
    pub requests: u64,
    pub stage_dumps: u64,
    pub recycle_predicted: u64,
    pub recycle_confirmed: u64,
    pub recycle_nontrivial: u64,
    pub histories_with_recycle: u64,
    pub histories_with_nontrivial: u64,
    pub over_capacity_drops: u64,
    pub max_pool_len: usize,
    pub stash_drops: u64,
    pub cancels: u64,
    pub model_mismatch: u64,
    pub obs_nontrivial: HashSet<u64>,
    /// (prev kind, prev beh, how released, kind, beh)
    pub classes: BTreeSet<(Kind, Beh, How, Kind, Beh)>,
    pub panics: u64,
}

impl Stats {
    fn merge(&mut self, o: Stats) {
        self.histories += o.histories;
        self.requests += o.requests;
        self.stage_dumps += o.stage_dumps;
        self.recycle_predicted += o.recycle_predicted;
        self.recycle_confirmed += o.recycle_confirmed;
        self.recycle_nontrivial += o.recycle_nontrivial;
        self.histories_with_recycle += o.histories_with_recycle;
        self.histories_with_nontrivial += o.histories_with_nontrivial;
        self.over_capacity_drops += o.over_capacity_drops;
        self.max_pool_len = self.max_pool_len.max(o.max_pool_len);
        self.stash_drops += o.stash_drops;
        self.cancels += o.cancels;
        self.model_mismatch += o.model_mismatch;
        self.obs_nontrivial.extend(o.obs_nontrivial);
        self.classes.extend(o.classes);
        self.panics += o.panics;
    }
}

struct Model {
    pool: Vec<Pooled>,
    stash: Vec<(usize, ReqKey)>,
}

impl Model {
    fn release(&mut self, addr: usize, prev: ReqKey, how: How, st: &mut Stats) {
        if self.pool.len() < POOL_CAP {
            self.pool.push(Pooled { addr, prev, how });
            st.max_pool_len = st.max_pool_len.max(self.pool.len());
        } else {
            st.over_capacity_drops += 1;
        }
    }
}

pub struct HistoryResult {
    pub violations: Vec<Violation>,
    pub log: Vec<String>,
}

/// Drop a value that owns a request object; a panic while doing so is an outcome, not a crash.
fn guarded_drop<T>(x: T, ops: &[Op], i: usize, weight_base: u64, doing: &str) -> Option<Violation> {
    let r = std::panic::catch_unwind(AssertUnwindSafe(move || drop(x)));
    if r.is_ok() {
        return None;
    }
    let (msg, loc) = util::take_panic().unwrap_or_default();
    if msg.starts_with("MACHINERY") {
        mc_core::machinery(msg);
    }
    let prefix: Vec<String> = ops[..=i].iter().map(|o| op_name(*o)).collect();
    Some(Violation {
        property: "C11".into(),
        clause: "panic".into(),
        signature: format!("panic:{}:{}", util::panic_file(&loc), util::panic_class(&msg)),
        what: format!("history [{}]: panic while {doing} at op {i}: {msg} at {loc}", prefix.join(", ")),
        replay: json!({"ops": prefix, "fail_op": i, "fail_burst_index": Value::Null}),
        weight: ((i as u64 + 1) << 48) | (weight_base & 0xffff_ffff_ffff),
    })
}

fn fold(h: &mut u64, x: u64) {
    *h ^= x;
    *h = h.wrapping_mul(0x100000001b3);
}

/// Run one history on one instance. Stops at the first violating request (the prefix up to it is
/// the counterexample).
pub async fn run_history(
    ops: &[Op],
    refs: &Refs,
    st: &mut Stats,
    weight_base: u64,
    verbose: bool,
) -> HistoryResult {
    let ctx = Rc::new(Ctx::default());
    let app = new_instance(ctx.clone()).await;
    let mut model = Model { pool: vec![], stash: vec![] };
    let mut violations = vec![];
    let mut log = vec![];
    let mut obs: u64 = 0xcbf29ce484222325;
    let mut any_recycle = false;
    let mut any_nontrivial = false;
    st.histories += 1;

    'ops: for (i, op) in ops.iter().enumerate() {
        let reqs: Vec<(ReqKey, bool)> = match *op {
            Op::Req(kind, beh) => vec![(ReqKey { kind, beh, tag: i as u8 }, false)],
            Op::Burst => (0..BURST).map(|k| (burst_key(k), true)).collect(),
            Op::DropOldest | Op::DropNewest => {
                if !model.stash.is_empty() {
                    let idx = if *op == Op::DropOldest { 0 } else { model.stash.len() - 1 };
                    let (addr, prev) = model.stash.remove(idx);
                    let r = ctx.stash.borrow_mut().remove(idx);
                    if let Some(v) = guarded_drop(r, ops, i, weight_base, "dropping a stashed request clone") {
                        st.panics += 1;
                        violations.push(v);
                        break 'ops;
                    }
                    model.release(addr, prev, How::StashDropped, st);
                    st.stash_drops += 1;
                    fold(&mut obs, 0x51 + idx as u64);
                    if verbose {
                        log.push(format!("op {i} {}: released {}", op_name(*op), prev.name()));
                    }
                } else {
                    fold(&mut obs, 0x50);
                    if verbose {
                        log.push(format!("op {i} {}: stash empty, no-op", op_name(*op)));
                    }
                }
                continue;
            }
        };
        let mut held: Vec<(ServiceResponse<BoxBody>, usize, ReqKey)> = vec![];
        for (k, (key, hold)) in reqs.iter().enumerate() {
            let predicted = model.pool.pop();
            let ex = exec_request(&app, &ctx, *key, *hold).await;
            st.requests += 1;
            st.stage_dumps += ex.dumps.len() as u64;
            // provenance (non-vacuity only)
            let mut prov = String::from("fresh");
            fold(&mut obs, mc_core::fnv_str(&key.name()));
            if let Some(p) = predicted {
                st.recycle_predicted += 1;
                if p.addr == ex.addr && ex.addr != 0 {
                    st.recycle_confirmed += 1;
                    any_recycle = true;
                    prov = format!("recycled from {} ({:?})", p.prev.name(), p.how);
                    fold(&mut obs, mc_core::fnv_str(&prov));
                    if p.prev.kind != key.kind || p.prev.beh != Beh::Plain {
                        st.recycle_nontrivial += 1;
                        any_nontrivial = true;
                        st.classes.insert((p.prev.kind, p.prev.beh, p.how, key.kind, key.beh));
                    }
                } else {
                    st.model_mismatch += 1;
                    prov = format!("pool model predicted reuse of {} but address differs", p.prev.name());
                }
            } else {
                fold(&mut obs, 1);
            }
            if verbose {
                log.push(format!(
                    "op {i} {}{}: request {} served by {} object",
                    op_name(*op),
                    if *hold { format!(" #{k}") } else { String::new() },
                    key.name(),
                    prov
                ));
            }

            // ---- the oracle
            let want = refs.get(key).unwrap_or_else(|| mc_core::machinery("missing reference"));
            let mut bad: Option<(String, String, String)> = None; // clause, signature, text
            if let Some((msg, loc)) = &ex.panic {
                st.panics += 1;
                bad = Some((
                    "panic".into(),
                    format!("panic:{}:{}", util::panic_file(loc), util::panic_class(msg)),
                    format!("panic while serving {}: {msg} at {loc}", key.name()),
                ));
            } else if &ex.dumps != want {
                let (sig, text) = classify(&ex.dumps, want);
                bad = Some(("isolation".into(), sig, text));
            }
            if let Some((clause, signature, text)) = bad {
                let prefix: Vec<String> = ops[..=i].iter().map(|o| op_name(*o)).collect();
                let what = format!(
                    "history [{}]: request {} (op {i}{}), served by {} object, is observed differently than on a fresh instance — {}",
                    prefix.join(", "),
                    key.name(),
                    if *hold { format!(", burst #{k}") } else { String::new() },
                    prov,
                    text.trim_end()
                );
                if verbose {
                    log.push(format!("  VIOLATION {clause} {signature}\n{text}"));
                }
                violations.push(Violation {
                    property: "C11".into(),
                    clause,
                    signature,
                    what,
                    replay: json!({"ops": prefix, "fail_op": i, "fail_burst_index": if *hold { json!(k) } else { Value::Null }}),
                    weight: ((i as u64 + 1) << 48) | (weight_base & 0xffff_ffff_ffff),
                });
                break 'ops;
            }

            // ---- model bookkeeping
            if let Some(res) = ex.held {
                held.push((res, ex.addr, *key));
            } else {
                match key.beh {
                    Beh::Stash => model.stash.push((ex.addr, *key)),
                    Beh::Cancel => {
                        st.cancels += 1;
                        model.release(ex.addr, *key, How::FutureCancelled, st)
                    }
                    _ => model.release(ex.addr, *key, How::ResponseDropped, st),
                }
            }
        }
        // release the burst in arrival order
        for (res, addr, key) in held {
            if let Some(v) = guarded_drop(res, ops, i, weight_base, "releasing a held burst response") {
                st.panics += 1;
                violations.push(v);
                break 'ops;
            }
            model.release(addr, key, How::BurstReleased, st);
        }
    }

    if any_recycle {
        st.histories_with_recycle += 1;
    }
    if any_nontrivial && violations.is_empty() {
        st.histories_with_nontrivial += 1;
        st.obs_nontrivial.insert(obs);
    }
    ctx.stash.borrow_mut().clear();
    drop(app);
    HistoryResult { violations, log }
}

pub fn decode(mut idx: u64, len: usize, alpha: &[Op]) -> Vec<Op> {
    let n = alpha.len() as u64;
    let mut v = vec![alpha[0]; len];
    for i in (0..len).rev() {
        v[i] = alpha[(idx % n) as usize];
        idx /= n;
    }
    v
}

// ---------------------------------------------------------------------------------------------

pub fn main(args: &Args) -> i32 {
    let replaying = args.replay.is_some();
    util::install_panic_capture(replaying);
    if let Some(path) = &args.replay {
        return replay(path);
    }
    let t0 = Instant::now();
    let len: usize = if args.tier == "quick" { 4 } else { 5 };
    let quick = args.tier == "quick";
    let alpha = alphabet();
    let total = (alpha.len() as u64).pow(len as u32);
    let wall = args.wall_s.or(if args.tier == "quick" { None } else { Some(25 * 60) });

    let refs = Arc::new(build_refs(len));
    let work = Work::new(total, 256, wall, t0);
    let threads = mc_core::cli::threads();
    let all_stats = Mutex::new(Stats::default());
    let all_viol: Mutex<util::Best> = Mutex::new(util::Best::new());

    std::thread::scope(|sc| {
        for _ in 0..threads {
            sc.spawn(|| {
                util::install_panic_capture(false);
                let rt = actix_rt::Runtime::new().expect("runtime");
                let mut st = Stats::default();
                let mut viol = util::Best::new();
                rt.block_on(async {
                    while let Some(chunk) = work.next_chunk() {
                        let n = chunk.len() as u64;
                        for idx in chunk {
                            let ops = decode(idx, len, &alpha);
                            // quick tier: the scope-404 request kind only with the plain handler
                            // behaviour (thorough runs the full alphabet)
                            if quick && ops.iter().any(|o| matches!(o, Op::Req(Kind::S, b) if *b != Beh::Plain)) {
                                continue;
                            }
                            let r = run_history(&ops, &refs, &mut st, idx, false).await;
                            for v in r.violations {
                                viol.add(v);
                            }
                        }
                        work.mark_done(n);
                    }
                });
                all_stats.lock().unwrap().merge(st);
                all_viol.lock().unwrap().merge(viol);
            });
        }
    });

    let st = all_stats.into_inner().unwrap();
    let viol = all_viol.into_inner().unwrap();
    let capped = work.capped.load(std::sync::atomic::Ordering::Relaxed);

    // connection-data sub-check (real HTTP/1 service with on_connect_ext)
    let conn = crate::c11conn::run(&args.tier);

    // determinism: re-run every violating prefix once more and demand the same verdict
    let mut reporter = Reporter::new("C11");
    let violating_cases = viol.count as usize + conn.violations.len();
    // determinism: each kept counterexample is re-run once and must fail the same way
    {
        let rt = actix_rt::Runtime::new().expect("runtime");
        for v in viol.map.values() {
            let ops: Vec<Op> = v.replay["ops"]
                .as_array()
                .map(|a| a.iter().filter_map(|s| op_parse(s.as_str().unwrap_or(""))).collect())
                .unwrap_or_default();
            let mut st2 = Stats::default();
            let again = rt.block_on(run_history(&ops, &refs, &mut st2, 0, false));
            if !again.violations.iter().any(|w| w.clause == v.clause && w.signature == v.signature) {
                eprintln!(
                    "MACHINERY: violation {}:{} did not reproduce when its history was re-run ({})",
                    v.clause, v.signature, v.what
                );
                return 2;
            }
        }
    }
    reporter.add_all(viol.map.into_values());
    reporter.add_all(conn.violations.clone());

    let mut ev = Evidence::new("C11", &args.tier, "exploration");
    ev.set("evaluations", st.histories + conn.histories);
    ev.set("distinct_nontrivial", st.obs_nontrivial.len() as u64 + conn.distinct_nontrivial);
    ev.set(
        "rule",
        format!(
            "every operation sequence of length exactly {len} (so every sequence of length <= {len} as a prefix; each request is checked when it is executed) over the {}-letter alphabet {{4 request kinds x 4 handler behaviours, drop_oldest, drop_newest, burst130}} is run against one service instance; each request's stage dumps (app middleware before/after, scope middleware before/after, handler entry) are compared with the dumps of the same request as first request of a fresh instance. A history counts as non-trivial when at least one request was served by a recycled object (address of req.match_info() equals the address the LIFO/capacity-128 pool model predicts) whose previous user matched a different route or inserted an extension; distinct = distinct sequences of (request, provenance of its object). The connection-data sub-check adds its own histories (see conn_*).",
            alpha.len()
        ),
    );
    ev.set("exhaustive", !capped);
    ev.set("capped", capped);
    ev.set("history_length", len as u64);
    ev.set("alphabet", alpha.iter().map(|o| op_name(*o)).collect::<Vec<_>>());
    ev.set("histories_total_in_space", total);
    ev.set("histories_run", st.histories);
    ev.set("requests_checked", st.requests);
    ev.set("stage_dumps_compared", st.stage_dumps);
    ev.set("reference_observations", refs.len() as u64);
    ev.set("recycle_predicted_by_pool_model", st.recycle_predicted);
    ev.set("recycle_confirmed_by_address", st.recycle_confirmed);
    ev.set("recycle_nontrivial", st.recycle_nontrivial);
    ev.set("pool_model_mismatches", st.model_mismatch);
    ev.set("histories_with_recycled_request", st.histories_with_recycle);
    ev.set("histories_with_nontrivial_recycle", st.histories_with_nontrivial);
    ev.set("reuse_classes_prevkind_prevbeh_release_kind_beh", st.classes.len() as u64);
    ev.set("releases_dropped_because_pool_full", st.over_capacity_drops);
    ev.set("max_pool_len_in_model", st.max_pool_len as u64);
    ev.set("stash_releases", st.stash_drops);
    ev.set("cancelled_requests", st.cancels);
    ev.set("panics", st.panics);
    ev.set("conn_histories", conn.histories);
    ev.set("conn_requests", conn.requests);
    ev.set("conn_recycled_with_different_conn_data", conn.distinct_nontrivial);
    ev.set("conn_rule", conn.rule.clone());
    let mut samples: Vec<Value> = [total / 7 * 3 + 12_345, total / 11 * 5 + 777, total / 13 * 9 + 4_242, total - 2]
        .iter()
        .map(|&i| {
            json!({"history": decode(i % total, len, &alpha).iter().map(|o| op_name(*o)).collect::<Vec<_>>()})
        })
        .chain(conn.samples.iter().cloned())
        .collect();
    let k0 = ReqKey { kind: Kind::N, beh: Beh::Ext, tag: 1 };
    samples.push(json!({"request": k0.name(), "reference_stage_dumps": refs.get(&k0)}));
    ev.set("samples", samples);
    ev.set("findings", reporter.summaries());
    ev.assume("a request's observable state is what the public accessors of HttpRequest return (headers, uri, match_info, match_name/pattern, extensions, conn_data, app_data, url_for, connection_info, cookies); private fields are not inspected");
    ev.assume("TestRequest cannot set connection data; conn_data isolation is checked by a separate sub-check through a real HttpService::h1 service with on_connect_ext over in-memory connections");
    ev.assume("histories longer than the bound, more than one concurrent in-flight request outside the burst op, and HTTP/2 multiplexing are outside the explored space");
    if st.model_mismatch > 0 {
        println!(
            "NOTE: pool model mismatches: {} (reuse predicted but the object address differed); non-vacuity counters only count confirmed reuse",
            st.model_mismatch
        );
    }
    ev.violations = violating_cases as i64;
    ev.wall_s = t0.elapsed().as_secs_f64();
    ev.write();

    println!(
        "C11 {}: {} histories of length {len} ({} requests, {} stage dumps) + {} conn histories; recycled objects: {} confirmed / {} predicted, {} non-trivial in {} histories ({} distinct), {} reuse classes; over-capacity drops {}; capped={capped}; {:.1}s",
        args.tier,
        st.histories,
        st.requests,
        st.stage_dumps,
        conn.histories,
        st.recycle_confirmed,
        st.recycle_predicted,
        st.recycle_nontrivial,
        st.histories_with_nontrivial,
        st.obs_nontrivial.len(),
        st.classes.len(),
        st.over_capacity_drops,
        t0.elapsed().as_secs_f64()
    );
    let code = reporter.finish();
    if code == 0 && st.recycle_confirmed == 0 {
        eprintln!("MACHINERY: no request was ever served by a recycled object and nothing was reported — the check would be vacuous");
        return 2;
    }
    code
}

fn replay(path: &str) -> i32 {
    let v = read_replay(path);
    let r = &v["replay"];
    if r.get("conn_history").is_some() {
        return crate::c11conn::replay(r);
    }
    let ops: Vec<Op> = r["ops"]
        .as_array()
        .unwrap_or_else(|| {
            eprintln!("MACHINERY: replay file has no ops");
            std::process::exit(2)
        })
        .iter()
        .map(|s| {
            op_parse(s.as_str().unwrap_or("")).unwrap_or_else(|| {
                eprintln!("MACHINERY: unknown op {s}");
                std::process::exit(2)
            })
        })
        .collect();
    let refs = build_refs(ops.len().max(1));
    let rt = actix_rt::Runtime::new().expect("runtime");
    let mut st = Stats::default();
    let res = rt.block_on(run_history(&ops, &refs, &mut st, 0, true));
    for l in &res.log {
        println!("{l}");
    }
    if res.violations.is_empty() {
        println!("replay: history ran without a violation");
        0
    } else {
        for v in &res.violations {
            println!("VIOLATION property=C11 replay={path}");
            println!("  clause={} signature={}", v.clause, v.signature);
            println!("  {}", v.what);
        }
        1
    }
}
