//! The subject: a real `actix_web::App` built from a `Table` through the public builder only, driven
//! through `actix_web::test::{init_service, call_service}`.

use std::panic::AssertUnwindSafe;

use actix_http::Request;
use actix_web::HttpMessage as _;
use actix_web::{
    body::MessageBody,
    dev::{Service, ServiceResponse},
    guard,
    http::Method,
    test::{self, TestRequest},
    web, App, Error, FromRequest, HttpRequest, HttpResponse,
};
use futures_util::FutureExt;

use crate::ast::*;

/// Application data marker; the payload names the level that registered it.
#[derive(Clone, Debug)]
pub struct Marker(pub String);

async fn dump(req: HttpRequest, tag: String) -> HttpResponse {
    let match_info: Vec<(String, String)> =
        req.match_info().iter().map(|(k, v)| (k.to_string(), v.to_string())).collect();

    let path_vec = web::Path::<Vec<String>>::extract(&req).await.ok().map(|p| p.into_inner());

    let path_tuple = match match_info.len() {
        1 => web::Path::<String>::extract(&req).await.ok().map(|p| vec![p.into_inner()]),
        2 => web::Path::<(String, String)>::extract(&req).await.ok().map(|p| {
            let (a, b) = p.into_inner();
            vec![a, b]
        }),
        3 => web::Path::<(String, String, String)>::extract(&req).await.ok().map(|p| {
            let (a, b, c) = p.into_inner();
            vec![a, b, c]
        }),
        _ => None,
    };

    let seen = Seen {
        tag,
        match_info,
        path_vec,
        path_tuple,
        marker: req.app_data::<Marker>().map(|m| m.0.clone()),
        match_pattern: req.match_pattern(),
        guard_marker: req.extensions().get::<GuardSaw>().map(|g| g.0.clone()).unwrap_or_else(|| "-".into()),
    };

    HttpResponse::Ok()
        .insert_header(("x-appx", "1"))
        .body(serde_json::to_string(&seen).unwrap())
}

fn handler(
    tag: String,
) -> impl Fn(HttpRequest) -> std::pin::Pin<Box<dyn std::future::Future<Output = HttpResponse>>>
       + Clone
       + 'static {
    move |req: HttpRequest| {
        let tag = tag.clone();
        Box::pin(dump(req, tag))
    }
}

/// What the recording guard of a resource saw (request-local data).
struct GuardSaw(String);

fn build_resource(r: &Res, ids: &mut Ids) -> actix_web::Resource {
    let id = ids.next_res();
    let pats = r.pat.patterns();
    let mut res = if pats.len() == 1 {
        web::resource(pats[0])
    } else {
        web::resource(pats.clone())
    };
    res = match r.guard {
        G::None => res,
        G::Get => res.guard(guard::Get()),
        G::Post => res.guard(guard::Post()),
        G::Hdr => res.guard(guard::Header("x-g", "1")),
        G::Host => res.guard(guard::Host("h.test")),
    };
    // a guard that accepts everything and records how application data resolves for it (guards
    // and middleware look it up through the service request, handlers through the HttpRequest)
    res = res.guard(guard::fn_guard(|ctx| {
        let saw = ctx.app_data::<Marker>().map(|m| m.0.clone()).unwrap_or_else(|| "none".into());
        ctx.req_data_mut().insert(GuardSaw(saw));
        true
    }));
    for (i, k) in r.routes.iter().enumerate() {
        let h = handler(format!("r{id}.{i}"));
        res = match k {
            RK::Get => res.route(web::get().to(h)),
            RK::Post => res.route(web::post().to(h)),
            RK::Any => res.to(h),
            RK::Hdr => res.route(web::route().guard(guard::Header("x-g", "1")).to(h)),
        };
    }
    res
}

fn build_scope(s: &Scope, level: usize, ids: &mut Ids) -> actix_web::Scope {
    let id = ids.next_scope();
    let mut sc = web::scope(s.prefix.pattern(level));
    sc = match s.guard {
        G::None => sc,
        G::Get => sc.guard(guard::Get()),
        G::Post => sc.guard(guard::Post()),
        G::Hdr => sc.guard(guard::Header("x-g", "1")),
        G::Host => sc.guard(guard::Host("h.test")),
    };
    if s.data {
        sc = sc.app_data(Marker(format!("s{id}")));
    }
    if s.own_default {
        sc = sc.default_service(web::to(handler(format!("d:s{id}"))));
    }
    for svc in &s.services {
        sc = match svc {
            Svc::Res(r) => sc.service(build_resource(r, ids)),
            Svc::Scope(inner) => sc.service(build_scope(inner, level + 1, ids)),
        };
    }
    sc
}

/// Pre-order id allocation shared by the builder and the reference.
#[derive(Default)]
pub struct Ids {
    res: usize,
    scope: usize,
}

impl Ids {
    pub fn next_res(&mut self) -> usize {
        self.res += 1;
        self.res
    }
    pub fn next_scope(&mut self) -> usize {
        self.scope += 1;
        self.scope
    }
}

pub async fn init(
    t: &Table,
) -> impl Service<Request, Response = ServiceResponse<impl MessageBody>, Error = Error> {
    let mut ids = Ids::default();
    let mut app = App::new();
    if t.data {
        app = app.app_data(Marker("app".into()));
    }
    if t.own_default {
        app = app.default_service(web::to(handler("d:app".into())));
    }
    for svc in &t.services {
        app = match svc {
            Svc::Res(r) => app.service(build_resource(r, &mut ids)),
            Svc::Scope(s) => app.service(build_scope(s, 1, &mut ids)),
        };
    }
    test::init_service(app).await
}

pub fn to_request(r: &Req) -> Request {
    let mut tr = TestRequest::with_uri(&r.path)
        .method(if r.post { Method::POST } else { Method::GET });
    if r.xg {
        tr = tr.insert_header(("x-g", "1"));
    }
    if r.host {
        tr = tr.insert_header(("host", "h.test"));
    }
    tr.to_request()
}

pub async fn call<S, B>(app: &S, r: &Req) -> Outcome
where
    S: Service<Request, Response = ServiceResponse<B>, Error = Error>,
    B: MessageBody,
{
    let req = to_request(r);
    let fut = AssertUnwindSafe(async {
        match app.call(req).await {
            Ok(resp) => {
                let status = resp.status().as_u16();
                let tagged = resp.headers().contains_key("x-appx");
                if tagged {
                    match actix_web::body::to_bytes(resp.into_body()).await {
                        Ok(b) => match serde_json::from_slice::<Seen>(&b) {
                            Ok(seen) => Outcome::Handler(seen),
                            Err(e) => Outcome::Broken(format!("undecodable handler body: {e}")),
                        },
                        Err(_) => Outcome::Broken("body error".into()),
                    }
                } else {
                    Outcome::Status(status)
                }
            }
            Err(e) => Outcome::Broken(format!("service error: {e}")),
        }
    })
    .catch_unwind();
    match fut.await {
        Ok(o) => o,
        Err(p) => {
            let msg = p
                .downcast_ref::<String>()
                .cloned()
                .or_else(|| p.downcast_ref::<&str>().map(|s| s.to_string()))
                .unwrap_or_else(|| "panic".into());
            Outcome::Broken(format!("panic: {msg}"))
        }
    }
}
