//! Independent reference router over the table AST. It implements the *documented* behaviour of
//! `App` / `Scope` / `Resource` / `Route` / guards and works on path segments, never on regexes and
//! never through `actix-router`.
//!
//! Documented rules implemented here (source of each rule in brackets):
//! * services are tried in registration order, first match wins [`App::service`, router docs]
//! * before matching, percent-escapes in the request path are decoded except `%2F`, `%25`, `%2B`
//!   (any case of hex digit) which stay encoded [`HttpRequest::match_info`, `Url`]
//! * a path is a list of segments, each preceded by `/`; patterns match segments, never partial
//!   strings; a trailing slash in a pattern is an empty segment [`ResourceDef` docs]
//! * a scope matches if its prefix matches the first segments of the remaining path *and* all its
//!   guards accept; it then consumes those segments and the request never leaves it again (no
//!   backtracking to later siblings) [`Scope`, `guard::Host` docs]
//! * a resource matches if its pattern matches the whole remaining path and its guards accept; its
//!   routes are tried in order, first route whose guards accept runs; none -> the resource's own
//!   default, `405 Method Not Allowed`; a resource does not inherit a default [`Resource`]
//! * nothing matched inside a scope -> the scope's default service; if it has none, the *nearest
//!   enclosing* default (enclosing scope's, else the app's) [property statement, literal reading;
//!   the doc of `Scope::default_service` instead says "the default service of the parent `App`",
//!   which is what the code does: see `DefaultMode`]; the app's default is 404 unless registered
//!   [`App::default_service`]
//! * `match_info` holds the raw captured text (still containing `%2F`/`%25`/`%2B`); `web::Path`
//!   fully percent-decodes each captured value [`web::Path`]
//! * `app_data::<T>()` returns the instance of the closest level that captured the request
//!   [`HttpRequest::app_data`]

use crate::ast::*;

#[derive(Clone, Debug, PartialEq)]
pub enum Kind {
    /// a route handler of a resource ran
    Route,
    /// matched resource without an accepting route (built-in 405)
    Res405,
    /// own default service of scope / app (tagged handler)
    OwnDefault,
    /// built-in app default (404)
    Builtin404,
}

/// One evaluation of a sibling service at some level (for classifying disagreements).
#[derive(Clone, Debug)]
pub struct Eval {
    /// `s<id>` or `r<id>`
    pub node: String,
    pub pattern_ok: bool,
    pub guard_ok: bool,
}

#[derive(Clone, Debug)]
pub struct Expected {
    /// acceptable outcomes; `[0]` is the primary reading
    pub outcomes: Vec<Outcome>,
    pub kind: Kind,
    /// ids of the services that captured the request, outermost first (`s1`, `s2`, `r3`)
    pub chain: Vec<String>,
    /// evaluations made at each level of `chain` (level 0 = app level)
    pub evals: Vec<Vec<Eval>>,
    /// at least one captured scope/resource parameter on the chain
    pub nparams: usize,
    /// the default that answered was registered by an enclosing scope and reached through at least
    /// one nested scope without a default of its own
    pub default_via_parent_scope: bool,
}

/// How a scope without own default finds its default.
#[derive(Clone, Copy, Debug, PartialEq, Eq)]
pub enum DefaultMode {
    /// property statement: "the nearest enclosing default"
    NearestEnclosing,
    /// doc of `Scope::default_service`: "fall back to the default service of the parent App"
    AppOnly,
}

fn hexval(b: u8) -> Option<u8> {
    match b {
        b'0'..=b'9' => Some(b - b'0'),
        b'a'..=b'f' => Some(b - b'a' + 10),
        b'A'..=b'F' => Some(b - b'A' + 10),
        _ => None,
    }
}

/// Percent-decode `s`; escapes that decode to a byte in `protected` are left untouched.
pub fn decode(s: &str, protected: &[u8]) -> String {
    let b = s.as_bytes();
    let mut out = Vec::with_capacity(b.len());
    let mut i = 0;
    while i < b.len() {
        if b[i] == b'%' && i + 2 < b.len() {
            if let (Some(h), Some(l)) = (hexval(b[i + 1]), hexval(b[i + 2])) {
                let c = (h << 4) | l;
                if !protected.contains(&c) {
                    out.push(c);
                    i += 3;
                    continue;
                }
            }
        }
        out.push(b[i]);
        i += 1;
    }
    String::from_utf8_lossy(&out).into_owned()
}

/// The path the router matches against.
pub fn routing_path(raw: &str) -> String {
    decode(raw, b"%/+")
}

#[derive(Clone, Debug)]
enum Elt {
    Lit(&'static str),
    Var(&'static str),
    Digits(&'static str),
    /// a variable followed, inside the same segment, by literal text
    VarSuffix(&'static str, &'static str),
}

fn elt_match(e: &Elt, seg: &str) -> Option<Option<(&'static str, String)>> {
    match e {
        Elt::Lit(l) => (*l == seg).then_some(None),
        Elt::Var(n) => (!seg.is_empty()).then(|| Some((*n, seg.to_string()))),
        Elt::Digits(n) => (!seg.is_empty() && seg.chars().all(|c| c.is_ascii_digit()))
            .then(|| Some((*n, seg.to_string()))),
        Elt::VarSuffix(n, suffix) => seg.strip_suffix(suffix).filter(|v| !v.is_empty()).map(|v| Some((*n, v.to_string()))),
    }
}

fn scope_elts(p: SP, level: usize) -> Vec<Elt> {
    match p {
        SP::Empty => vec![],
        SP::Slash => vec![Elt::Lit("")],
        SP::S => vec![Elt::Lit("s")],
        SP::SSlash => vec![Elt::Lit("s"), Elt::Lit("")],
        SP::Dyn => vec![Elt::Var(if level == 1 { "p" } else { "q" })],
    }
}

type Params = Vec<(String, String)>;

/// Prefix match at a segment boundary: returns (#segments consumed, captured params).
fn match_prefix(elts: &[Elt], rem: &[&str]) -> Option<(usize, Params)> {
    if rem.len() < elts.len() {
        return None;
    }
    let mut ps = vec![];
    for (e, seg) in elts.iter().zip(rem) {
        if let Some((n, v)) = elt_match(e, seg)? {
            ps.push((n.to_string(), v));
        }
    }
    Some((elts.len(), ps))
}

/// Whole-remaining-path match of a resource pattern.
fn match_resource(p: RP, rem: &[&str]) -> Option<Params> {
    let full = |elts: &[Elt]| -> Option<Params> {
        if rem.len() != elts.len() {
            return None;
        }
        match_prefix(elts, rem).map(|(_, ps)| ps)
    };
    match p {
        RP::Empty => full(&[]),
        RP::Slash => full(&[Elt::Lit("")]),
        RP::A => full(&[Elt::Lit("a")]),
        RP::ASlash => full(&[Elt::Lit("a"), Elt::Lit("")]),
        RP::Dyn => full(&[Elt::Var("x")]),
        RP::ADyn => full(&[Elt::Lit("a"), Elt::Var("x")]),
        RP::Digits => full(&[Elt::Digits("x")]),
        // `/{t}*`: a slash, then everything that is left (possibly nothing, possibly more slashes)
        RP::Tail => (!rem.is_empty()).then(|| vec![("t".to_string(), rem.join("/"))]),
        RP::Multi => full(&[Elt::Lit("a")]).or_else(|| full(&[Elt::Lit("b")])),
        RP::MultiEmpty => full(&[]).or_else(|| full(&[Elt::Lit("b")])),
        RP::DynDot => full(&[Elt::VarSuffix("x", ".b")]),
    }
}

fn guard_ok(g: G, r: &Req) -> bool {
    match g {
        G::None => true,
        G::Get => !r.post,
        G::Post => r.post,
        G::Hdr => r.xg,
        G::Host => r.host,
    }
}

fn route_ok(k: RK, r: &Req) -> bool {
    match k {
        RK::Get => !r.post,
        RK::Post => r.post,
        RK::Any => true,
        RK::Hdr => r.xg,
    }
}

struct Walk<'a> {
    req: &'a Req,
    mode: DefaultMode,
    via_parent_scope: bool,
    ids: crate::real::Ids,
    chain: Vec<String>,
    evals: Vec<Vec<Eval>>,
}

/// The default that applies at some level: `Some(tag)` = an own (tagged) default service
/// registered by `owner_depth` captured scopes deep; `None` = the built-in 404.
#[derive(Clone)]
struct Dflt {
    tag: Option<String>,
    /// `s<id>` of the scope that registered it, `None` for the app level
    owner: Option<String>,
    /// params / marker as seen at the level that registered the default
    owner_params: Params,
    owner_marker: Option<String>,
}

fn seen(tag: String, params: &Params, marker: &Option<String>) -> Seen {
    let dec: Vec<String> = params.iter().map(|(_, v)| decode(v, b"")).collect();
    Seen {
        tag,
        match_info: params.clone(),
        path_tuple: (1..=3).contains(&dec.len()).then(|| dec.clone()),
        path_vec: Some(dec),
        marker: marker.clone(),
        match_pattern: None,
        guard_marker: String::new(),
    }
}

impl<'a> Walk<'a> {
    /// Skip id allocation for a subtree that is not entered (ids are pre-order over the whole table).
    fn skip(&mut self, s: &Svc) {
        match s {
            Svc::Res(_) => {
                self.ids.next_res();
            }
            Svc::Scope(sc) => {
                self.ids.next_scope();
                for s in &sc.services {
                    self.skip(s);
                }
            }
        }
    }

    fn level(
        &mut self,
        services: &[Svc],
        level: usize,
        rem: &[&str],
        params: &Params,
        marker: &Option<String>,
        dflt: &Dflt,
        app_dflt: &Dflt,
        cur_scope: Option<&str>,
    ) -> (Vec<Outcome>, Kind, usize) {
        self.evals.push(vec![]);
        let depth = self.evals.len() - 1;
        for (i, svc) in services.iter().enumerate() {
            match svc {
                Svc::Res(r) => {
                    let id = self.ids.next_res();
                    let m = match_resource(r.pat, rem);
                    let g = guard_ok(r.guard, self.req);
                    self.evals[depth].push(Eval {
                        node: format!("r{id}"),
                        pattern_ok: m.is_some(),
                        guard_ok: g,
                    });
                    if let (Some(ps), true) = (m, g) {
                        self.chain.push(format!("r{id}"));
                        for s in &services[i + 1..] {
                            self.skip(s);
                        }
                        let mut all = params.clone();
                        all.extend(ps);
                        for (ri, k) in r.routes.iter().enumerate() {
                            if route_ok(*k, self.req) {
                                let n = all.len();
                                return (
                                    vec![Outcome::Handler(seen(format!("r{id}.{ri}"), &all, marker))],
                                    Kind::Route,
                                    n,
                                );
                            }
                        }
                        return (vec![Outcome::Status(405)], Kind::Res405, all.len());
                    }
                }
                Svc::Scope(sc) => {
                    let id = self.ids.next_scope();
                    let m = match_prefix(&scope_elts(sc.prefix, level), rem);
                    let g = guard_ok(sc.guard, self.req);
                    self.evals[depth].push(Eval {
                        node: format!("s{id}"),
                        pattern_ok: m.is_some(),
                        guard_ok: g,
                    });
                    if let (Some((n, ps)), true) = (m, g) {
                        self.chain.push(format!("s{id}"));
                        let mut all = params.clone();
                        all.extend(ps);
                        let marker2 =
                            if sc.data { Some(format!("s{id}")) } else { marker.clone() };
                        let dflt2 = if sc.own_default {
                            Dflt {
                                tag: Some(format!("d:s{id}")),
                                owner: Some(format!("s{id}")),
                                owner_params: all.clone(),
                                owner_marker: marker2.clone(),
                            }
                        } else if self.mode == DefaultMode::NearestEnclosing {
                            dflt.clone()
                        } else {
                            app_dflt.clone()
                        };
                        let out =
                            self.level(&sc.services, level + 1, &rem[n..], &all, &marker2, &dflt2, app_dflt, Some(&format!("s{id}")));
                        // later siblings are never consulted once captured (no backtracking)
                        return out;
                    } else {
                        for s in &sc.services {
                            self.skip(s);
                        }
                    }
                }
            }
        }
        // nothing at this level matched: the applicable default
        self.via_parent_scope = dflt.owner.is_some() && dflt.owner.as_deref() != cur_scope;
        match &dflt.tag {
            None => (vec![Outcome::Status(404)], Kind::Builtin404, params.len()),
            Some(tag) => {
                let mut outs = vec![Outcome::Handler(seen(tag.clone(), params, marker))];
                // A default registered further out than the level that falls back to it: the
                // statement does not say whether it sees the inner captures; accept both readings.
                if dflt.owner_params != *params || dflt.owner_marker != *marker {
                    for (p, m) in [
                        (&dflt.owner_params, &dflt.owner_marker),
                        (params, &dflt.owner_marker),
                        (&dflt.owner_params, marker),
                    ] {
                        let o = Outcome::Handler(seen(tag.clone(), p, m));
                        if !outs.contains(&o) {
                            outs.push(o);
                        }
                    }
                }
                (outs, Kind::OwnDefault, params.len())
            }
        }
    }
}

/// The registered oracle uses the literal reading of the statement (nearest enclosing default).
/// `APPX_DOC_DEFAULT=1` switches to the documented behaviour (diagnostic only).
pub fn default_mode() -> DefaultMode {
    static M: std::sync::OnceLock<DefaultMode> = std::sync::OnceLock::new();
    *M.get_or_init(|| {
        if std::env::var("APPX_DOC_DEFAULT").map(|v| v == "1").unwrap_or(false) {
            DefaultMode::AppOnly
        } else {
            DefaultMode::NearestEnclosing
        }
    })
}

pub fn route(t: &Table, req: &Req) -> Expected {
    route_mode(t, req, default_mode())
}

pub fn route_mode(t: &Table, req: &Req, mode: DefaultMode) -> Expected {
    let path = routing_path(&req.path);
    assert!(path.starts_with('/'), "request paths start with a slash");
    let segs: Vec<&str> = path[1..].split('/').collect();
    let marker = t.data.then(|| "app".to_string());
    let app_dflt = Dflt {
        tag: t.own_default.then(|| "d:app".to_string()),
        owner: None,
        owner_params: vec![],
        owner_marker: marker.clone(),
    };
    let mut w = Walk { req, mode, via_parent_scope: false, ids: Default::default(), chain: vec![], evals: vec![] };
    let (outcomes, kind, nparams) =
        w.level(&t.services, 1, &segs, &vec![], &marker, &app_dflt, &app_dflt, None);
    Expected {
        outcomes,
        kind,
        chain: w.chain,
        evals: w.evals,
        nparams,
        default_via_parent_scope: w.via_parent_scope,
    }
}

/// Ancestor chain (`s1`, `s2`, `r3`) of the node that owns `tag`, or `None` for `d:app` / unknown.
pub fn chain_of_tag(t: &Table, tag: &str) -> Option<Vec<String>> {
    let node = if let Some(s) = tag.strip_prefix("d:") {
        if s == "app" {
            return Some(vec![]);
        }
        s.to_string()
    } else {
        tag.split('.').next()?.to_string()
    };
    fn find(svcs: &[Svc], ids: &mut crate::real::Ids, node: &str, acc: &mut Vec<String>) -> bool {
        for s in svcs {
            match s {
                Svc::Res(_) => {
                    let id = format!("r{}", ids.next_res());
                    if id == node {
                        acc.push(id);
                        return true;
                    }
                }
                Svc::Scope(sc) => {
                    let id = format!("s{}", ids.next_scope());
                    acc.push(id.clone());
                    if id == node || find(&sc.services, ids, node, acc) {
                        return true;
                    }
                    acc.pop();
                }
            }
        }
        false
    }
    let mut acc = vec![];
    let mut ids = Default::default();
    find(&t.services, &mut ids, &node, &mut acc).then_some(acc)
}

#[cfg(test)]
mod tests {
    use super::*;

    #[test]
    fn decoding() {
        assert_eq!(routing_path("/%61/a%2Fb/%25/%2f"), "/a/a%2Fb/%25/%2f");
        assert_eq!(decode("a%2Fb%25%61", b""), "a/b%a");
        assert_eq!(decode("%", b""), "%");
        assert_eq!(decode("%4", b""), "%4");
        assert_eq!(decode("%41", b""), "A");
    }
}
