//! Route-table AST, request description, and the menus they are drawn from.
//!
//! Everything here is plain data (serde) so that a (table, request) pair can be written to a replay
//! file and re-executed without the enumerator.

use serde::{Deserialize, Serialize};

/// Resource pattern menu (DESIGN §4 C09). Parameter names are fixed per nesting level so that no
/// route ever carries the same name twice: outer scope `p`, inner scope `q`, resource `x` / `t`.
#[derive(Clone, Copy, Debug, PartialEq, Eq, Hash, PartialOrd, Ord, Serialize, Deserialize)]
pub enum RP {
    /// `""`
    Empty,
    /// `/`
    Slash,
    /// `/a`
    A,
    /// `/a/`
    ASlash,
    /// `/{x}`
    Dyn,
    /// `/a/{x}`
    ADyn,
    /// `/{x:\d+}`
    Digits,
    /// `/{t}*`
    Tail,
    /// `["/a", "/b"]`
    Multi,
    /// `["", "/b"]`: a list with an empty alternative (inside a scope it matches the bare prefix)
    MultiEmpty,
    /// `/{x}.b`: literal text (with a regex meta character) after the last dynamic segment
    DynDot,
}

pub const RP_ALL: [RP; 11] =
    [RP::Empty, RP::Slash, RP::A, RP::ASlash, RP::Dyn, RP::ADyn, RP::Digits, RP::Tail, RP::Multi, RP::MultiEmpty, RP::DynDot];

impl RP {
    /// The pattern strings handed to `web::resource`.
    pub fn patterns(self) -> Vec<&'static str> {
        match self {
            RP::Empty => vec![""],
            RP::Slash => vec!["/"],
            RP::A => vec!["/a"],
            RP::ASlash => vec!["/a/"],
            RP::Dyn => vec!["/{x}"],
            RP::ADyn => vec!["/a/{x}"],
            RP::Digits => vec![r"/{x:\d+}"],
            RP::Tail => vec!["/{t}*"],
            RP::Multi => vec!["/a", "/b"],
            RP::MultiEmpty => vec!["", "/b"],
            RP::DynDot => vec!["/{x}.b"],
        }
    }
}

/// Scope prefix menu.
#[derive(Clone, Copy, Debug, PartialEq, Eq, Hash, PartialOrd, Ord, Serialize, Deserialize)]
pub enum SP {
    /// `""`
    Empty,
    /// `/`
    Slash,
    /// `/s`
    S,
    /// `/s/`
    SSlash,
    /// `/{p}` at nesting level 1, `/{q}` at nesting level 2
    Dyn,
}

pub const SP_ALL: [SP; 5] = [SP::Empty, SP::Slash, SP::S, SP::SSlash, SP::Dyn];

impl SP {
    pub fn pattern(self, level: usize) -> &'static str {
        match (self, level) {
            (SP::Empty, _) => "",
            (SP::Slash, _) => "/",
            (SP::S, _) => "/s",
            (SP::SSlash, _) => "/s/",
            (SP::Dyn, 1) => "/{p}",
            (SP::Dyn, _) => "/{q}",
        }
    }
}

/// Guard menu (on scopes and resources).
#[derive(Clone, Copy, Debug, PartialEq, Eq, Hash, PartialOrd, Ord, Serialize, Deserialize)]
pub enum G {
    None,
    Get,
    Post,
    /// `guard::Header("x-g", "1")`
    Hdr,
    /// `guard::Host("h.test")`
    Host,
}

pub const G_ALL: [G; 5] = [G::None, G::Get, G::Post, G::Hdr, G::Host];

/// One route of a resource.
#[derive(Clone, Copy, Debug, PartialEq, Eq, Hash, PartialOrd, Ord, Serialize, Deserialize)]
pub enum RK {
    /// `web::get().to(h)`
    Get,
    /// `web::post().to(h)`
    Post,
    /// `web::route().to(h)` / `Resource::to(h)`
    Any,
    /// `web::route().guard(Header("x-g", "1")).to(h)`: a route selected by a non-method guard only
    Hdr,
}

/// Route-list menu.
pub fn rs_all() -> Vec<Vec<RK>> {
    vec![
        vec![RK::Any],
        vec![RK::Get],
        vec![RK::Post],
        vec![RK::Get, RK::Post],
        vec![RK::Get, RK::Any],
        vec![RK::Any, RK::Get],
        vec![RK::Hdr],
    ]
}

#[derive(Clone, Debug, PartialEq, Eq, Hash, Serialize, Deserialize)]
pub struct Res {
    pub pat: RP,
    pub guard: G,
    pub routes: Vec<RK>,
}

#[derive(Clone, Debug, PartialEq, Eq, Hash, Serialize, Deserialize)]
pub struct Scope {
    pub prefix: SP,
    pub guard: G,
    /// registers `app_data(Marker(<scope id>))`
    pub data: bool,
    /// registers its own (tagged) default service; otherwise inherits
    pub own_default: bool,
    pub services: Vec<Svc>,
}

#[derive(Clone, Debug, PartialEq, Eq, Hash, Serialize, Deserialize)]
pub enum Svc {
    Res(Res),
    Scope(Scope),
}

#[derive(Clone, Debug, PartialEq, Eq, Hash, Serialize, Deserialize)]
pub struct Table {
    /// registers `App::app_data(Marker("app"))`
    pub data: bool,
    /// registers a tagged `App::default_service`; otherwise the built-in 404
    pub own_default: bool,
    pub services: Vec<Svc>,
}

impl Table {
    /// number of AST nodes (for ordering counterexamples simplest-first)
    pub fn size(&self) -> u64 {
        fn sz(s: &Svc) -> u64 {
            match s {
                Svc::Res(r) => 1 + r.routes.len() as u64 + (r.guard != G::None) as u64,
                Svc::Scope(sc) => {
                    1 + (sc.guard != G::None) as u64
                        + sc.data as u64
                        + sc.own_default as u64
                        + sc.services.iter().map(sz).sum::<u64>()
                }
            }
        }
        self.data as u64 + self.own_default as u64 + self.services.iter().map(sz).sum::<u64>()
    }

    pub fn uses_guard(&self, g: G) -> bool {
        fn u(s: &Svc, g: G) -> bool {
            match s {
                Svc::Res(r) => r.guard == g || (g == G::Hdr && r.routes.contains(&RK::Hdr)),
                Svc::Scope(sc) => sc.guard == g || sc.services.iter().any(|s| u(s, g)),
            }
        }
        self.services.iter().any(|s| u(s, g))
    }

    /// Structural validity: depth <= 2 scopes, <= 3 services per level. (Parameter names cannot
    /// clash by construction, tails only occur as the last element of a resource pattern.)
    pub fn well_formed(&self) -> bool {
        fn ok(s: &Svc, level: usize) -> bool {
            match s {
                Svc::Res(r) => !r.routes.is_empty() && r.routes.len() <= 3,
                Svc::Scope(sc) => {
                    level <= 2
                        && sc.services.len() <= 3
                        && sc.services.iter().all(|s| ok(s, level + 1))
                }
            }
        }
        self.services.len() <= 3 && self.services.iter().all(|s| ok(s, 1))
    }

    /// Human-readable one-line rendering (builder-like).
    pub fn show(&self) -> String {
        fn g(g: G) -> &'static str {
            match g {
                G::None => "",
                G::Get => ".guard(Get)",
                G::Post => ".guard(Post)",
                G::Hdr => ".guard(Header(x-g,1))",
                G::Host => ".guard(Host(h.test))",
            }
        }
        fn svc(s: &Svc, level: usize, out: &mut String) {
            match s {
                Svc::Res(r) => {
                    out.push_str(&format!(".service(resource({:?}){}", r.pat.patterns(), g(r.guard)));
                    for k in &r.routes {
                        out.push_str(match k {
                            RK::Get => ".get(h)",
                            RK::Post => ".post(h)",
                            RK::Any => ".to(h)",
                            RK::Hdr => ".route(Header(x-g,1))",
                        });
                    }
                    out.push(')');
                }
                Svc::Scope(sc) => {
                    out.push_str(&format!(
                        ".service(scope({:?}){}{}{}",
                        sc.prefix.pattern(level),
                        g(sc.guard),
                        if sc.data { ".app_data(M)" } else { "" },
                        if sc.own_default { ".default_service(D)" } else { "" }
                    ));
                    for s in &sc.services {
                        svc(s, level + 1, out);
                    }
                    out.push(')');
                }
            }
        }
        let mut out = String::from("App");
        if self.data {
            out.push_str(".app_data(M)");
        }
        if self.own_default {
            out.push_str(".default_service(D)");
        }
        for s in &self.services {
            svc(s, 1, &mut out);
        }
        out
    }
}

#[derive(Clone, Debug, PartialEq, Eq, Hash, Serialize, Deserialize)]
pub struct Req {
    /// raw request target path, e.g. `/s/a%2Fb/`
    pub path: String,
    /// true = POST, false = GET
    pub post: bool,
    /// header `x-g: 1` present
    pub xg: bool,
    /// header `Host: h.test` present (otherwise no Host header at all)
    pub host: bool,
}

impl Req {
    pub fn show(&self) -> String {
        format!(
            "{} {}{}{}",
            if self.post { "POST" } else { "GET" },
            self.path,
            if self.xg { " x-g:1" } else { "" },
            if self.host { " host:h.test" } else { "" }
        )
    }
}

/// What a handler saw, or the bare status of a built-in default.
#[derive(Clone, Debug, PartialEq, Eq, Hash, Serialize, Deserialize)]
pub enum Outcome {
    Handler(Seen),
    /// built-in default response: 404 or 405 (any other status is reported verbatim)
    Status(u16),
    /// the service call panicked or returned `Err`
    Broken(String),
}

#[derive(Clone, Debug, PartialEq, Eq, Hash, Serialize, Deserialize)]
pub struct Seen {
    /// `r<id>.<route index>` for a route handler, `d:s<id>` / `d:app` for an own default service
    pub tag: String,
    /// `req.match_info()` pairs in iteration order (raw = as stored by the router)
    pub match_info: Vec<(String, String)>,
    /// `web::Path<Vec<String>>` (every captured value, percent-decoded), `None` if extraction failed
    pub path_vec: Option<Vec<String>>,
    /// `web::Path<String>` / `(String, String)` / `(String, String, String)` when 1 / 2 / 3 parameters
    /// were captured; `None` for other arities or if extraction failed
    pub path_tuple: Option<Vec<String>>,
    /// `req.app_data::<Marker>()`
    pub marker: Option<String>,
    /// `req.match_pattern()`; recorded, not part of the oracle (the statement does not mention it)
    #[serde(default)]
    pub match_pattern: Option<String>,
    /// what the (always-accepting) recording guard of the matched resource resolved
    /// `GuardContext::app_data::<Marker>()` to: "-" if no such guard ran, "none", or the marker
    #[serde(default)]
    pub guard_marker: String,
}
