//! Deterministic, exhaustive enumeration of the table sub-grammar and of the request space.
//!
//! The full product of DESIGN §4 C09 (depth <= 2, <= 3 services per level, all menus in every slot)
//! is far too big, so the explored set is the union of the *families* below. Every family is a table
//! skeleton with holes; each hole ranges over a complete menu (thorough) or a stated sub-menu
//! (quick) and the family is the full cartesian product of its holes. Nothing is sampled.
//!
//! Notation: `R(p,g,rs)` resource with pattern p, guard g, route list rs; `S(sp,g,a,d)[..]` scope with
//! prefix sp, guard g, app_data a (y/n), own default d (y/n); `CATCH = R(/{t}*, none, [any])` is a
//! catch-all placed last at app level so that a request that leaks out of a scope is seen by a
//! tagged handler; App(a,d) carries app-level data / own default.

use std::collections::HashSet;

use crate::ast::*;

pub struct Family {
    pub name: &'static str,
    pub describe: &'static str,
    pub tables: Vec<Table>,
}

fn r(p: RP, g: G, rs: &[RK]) -> Svc {
    Svc::Res(Res { pat: p, guard: g, routes: rs.to_vec() })
}

fn s(sp: SP, g: G, data: bool, own_default: bool, services: Vec<Svc>) -> Svc {
    Svc::Scope(Scope { prefix: sp, guard: g, data, own_default, services })
}

fn catch_all() -> Svc {
    r(RP::Tail, G::None, &[RK::Any])
}

const ANY: &[RK] = &[RK::Any];
const YN: [bool; 2] = [false, true];

pub struct Menus {
    /// full resource menu or the quick subset
    pub rp: Vec<RP>,
    /// small resource sub-menu for slots that are not the focus of a family
    pub rp_small: Vec<RP>,
    pub sp: Vec<SP>,
    pub sp_small: Vec<SP>,
    pub g: Vec<G>,
    pub g_small: Vec<G>,
    pub rs: Vec<Vec<RK>>,
    pub thorough: bool,
}

pub fn menus(thorough: bool) -> Menus {
    if thorough {
        Menus {
            rp: RP_ALL.to_vec(),
            rp_small: vec![RP::Empty, RP::Slash, RP::A, RP::Dyn, RP::Tail],
            sp: SP_ALL.to_vec(),
            sp_small: vec![SP::Empty, SP::S, SP::Dyn, SP::SSlash],
            g: G_ALL.to_vec(),
            g_small: vec![G::None, G::Post, G::Hdr, G::Host],
            rs: rs_all(),
            thorough,
        }
    } else {
        Menus {
            rp: RP_ALL.to_vec(),
            rp_small: vec![RP::Empty, RP::A, RP::Dyn],
            sp: SP_ALL.to_vec(),
            sp_small: vec![SP::Empty, SP::S, SP::Dyn],
            g: G_ALL.to_vec(),
            g_small: vec![G::None, G::Post, G::Host],
            rs: rs_all(),
            thorough,
        }
    }
}

pub fn families(m: &Menus) -> Vec<Family> {
    let mut fams = vec![];

    // F1: two resources at app level: registration order, overlapping patterns, a guard that
    // rejects the first of two overlapping patterns.
    {
        let mut v = vec![];
        let p2s = if m.thorough { &m.rp } else { &m.rp_small };
        for &p1 in &m.rp {
            for &g1 in &m.g {
                for &p2 in p2s {
                    v.push(Table {
                        data: false,
                        own_default: false,
                        services: vec![r(p1, g1, ANY), r(p2, G::None, ANY)],
                    });
                }
            }
        }
        fams.push(Family {
            name: "F1-flat-pair",
            describe: "App[R(p1,g1,[any]), R(p2,none,[any])], p1 in RP, g1 in G, p2 in RP (quick: RPsmall)",
            tables: v,
        });
    }

    // F2: one resource, all route lists, all guards, app default inherit/own.
    {
        let mut v = vec![];
        for &p in &[RP::A, RP::Dyn] {
            for &g in &m.g {
                for rs in &m.rs {
                    for d in YN {
                        v.push(Table {
                            data: true,
                            own_default: d,
                            services: vec![r(p, g, rs)],
                        });
                    }
                }
            }
        }
        fams.push(Family {
            name: "F2-routes",
            describe: "App(y,d)[R(p,g,rs)], p in {/a,/{x}}, g in G, rs in RS, d in {inherit,own}",
            tables: v,
        });
    }

    // F3: one scope, every prefix x guard x inner resource pattern, followed by a catch-all.
    {
        let mut v = vec![];
        for &sp in &m.sp {
            for &g in &m.g {
                for &p in &m.rp {
                    v.push(Table {
                        data: true,
                        own_default: true,
                        services: vec![s(sp, g, true, true, vec![r(p, G::None, ANY)]), catch_all()],
                    });
                }
            }
        }
        fams.push(Family {
            name: "F3-scope-prefix",
            describe: "App(y,own)[S(sp,g,y,own)[R(p,none,[any])], CATCH], sp in SP, g in G, p in RP",
            tables: v,
        });
    }

    // F4: one scope: data x default chains.
    {
        let mut v = vec![];
        for &sp in &m.sp {
            for &g in &[G::None, G::Hdr] {
                for &p in &m.rp_small {
                    for a0 in YN {
                        for a1 in YN {
                            for d0 in YN {
                                for d1 in YN {
                                    v.push(Table {
                                        data: a0,
                                        own_default: d0,
                                        services: vec![s(sp, g, a1, d1, vec![r(p, G::None, ANY)])],
                                    });
                                }
                            }
                        }
                    }
                }
            }
        }
        fams.push(Family {
            name: "F4-scope-data-default",
            describe: "App(a0,d0)[S(sp,g,a1,d1)[R(p,none,[any])]], sp in SP, g in {none,Hdr}, p in RPsmall, a0,a1,d0,d1 in {n,y}",
            tables: v,
        });
    }

    // F5: two sibling scopes (virtual hosting / guard fall-through / no backtracking), catch-all.
    {
        let mut v = vec![];
        let (sps2, ps): (&Vec<SP>, &Vec<RP>) =
            if m.thorough { (&m.sp, &m.rp_small) } else { (&m.sp_small, &m.rp_small) };
        for &sp1 in &m.sp {
            for &g1 in &m.g {
                for &sp2 in sps2 {
                    for &p1 in ps {
                        for &p2 in ps {
                            v.push(Table {
                                data: false,
                                own_default: false,
                                services: vec![
                                    s(sp1, g1, true, false, vec![r(p1, G::None, ANY)]),
                                    s(sp2, G::None, true, false, vec![r(p2, G::None, ANY)]),
                                    catch_all(),
                                ],
                            });
                        }
                    }
                }
            }
        }
        fams.push(Family {
            name: "F5-sibling-scopes",
            describe: "App[S(sp1,g1,y,inh)[R(p1)], S(sp2,none,y,inh)[R(p2)], CATCH], sp1 in SP, g1 in G, sp2 in SP (quick: SPsmall), p1,p2 in RPsmall",
            tables: v,
        });
    }

    // F6: nested scopes, prefixes x inner pattern.
    {
        let mut v = vec![];
        let p1s: &[RP] = if m.thorough { &[RP::A, RP::Dyn, RP::Empty] } else { &[RP::Dyn] };
        for &sp1 in &m.sp {
            for &sp2 in &m.sp {
                for &p2 in &m.rp {
                    for &p1 in p1s {
                        v.push(Table {
                            data: true,
                            own_default: true,
                            services: vec![
                                s(
                                    sp1,
                                    G::None,
                                    true,
                                    true,
                                    vec![
                                        s(sp2, G::None, true, true, vec![r(p2, G::None, ANY)]),
                                        r(p1, G::None, ANY),
                                    ],
                                ),
                                catch_all(),
                            ],
                        });
                    }
                }
            }
        }
        fams.push(Family {
            name: "F6-nested-prefix",
            describe: "App(y,own)[S1(sp1,none,y,own)[S2(sp2,none,y,own)[R(p2)], R(p1)], CATCH], sp1,sp2 in SP, p2 in RP, p1 in {/a,/{x},\"\"} (quick: {/{x}})",
            tables: v,
        });
    }

    // F7: nested scopes, guards on both levels.
    {
        let mut v = vec![];
        let gs: &Vec<G> = if m.thorough { &m.g } else { &m.g_small };
        for &sp1 in &m.sp_small {
            for &sp2 in &m.sp_small {
                for &g1 in gs {
                    for &g2 in gs {
                        for &p2 in &[RP::A, RP::Dyn] {
                            v.push(Table {
                                data: false,
                                own_default: false,
                                services: vec![
                                    s(
                                        sp1,
                                        g1,
                                        true,
                                        false,
                                        vec![
                                            s(sp2, g2, false, true, vec![r(p2, G::None, ANY)]),
                                            r(RP::Dyn, G::None, ANY),
                                        ],
                                    ),
                                    catch_all(),
                                ],
                            });
                        }
                    }
                }
            }
        }
        fams.push(Family {
            name: "F7-nested-guards",
            describe: "App[S1(sp1,g1,y,inh)[S2(sp2,g2,n,own)[R(p2)], R(/{x})], CATCH], sp1,sp2 in SPsmall, g1,g2 in G (quick: Gsmall), p2 in {/a,/{x}}",
            tables: v,
        });
    }

    // F8: nested scopes, data chain x default chain.
    {
        let mut v = vec![];
        let sps: &[SP] = if m.thorough { &[SP::Empty, SP::S, SP::Dyn] } else { &[SP::S, SP::Dyn] };
        for &sp1 in sps {
            for &sp2 in sps {
                for a in 0..8u8 {
                    for d in 0..8u8 {
                        v.push(Table {
                            data: a & 1 != 0,
                            own_default: d & 1 != 0,
                            services: vec![s(
                                sp1,
                                G::None,
                                a & 2 != 0,
                                d & 2 != 0,
                                vec![
                                    s(sp2, G::None, a & 4 != 0, d & 4 != 0, vec![r(RP::A, G::None, ANY)]),
                                    r(RP::A, G::Post, &[RK::Post]),
                                ],
                            )],
                        });
                    }
                }
            }
        }
        fams.push(Family {
            name: "F8-nested-data-default",
            describe: "App(a0,d0)[S1(sp1,none,a1,d1)[S2(sp2,none,a2,d2)[R(/a)], R(/a,Post,[post])]], sp1,sp2 in {\"\",/s,/{p}} (quick: {/s,/{p}}), a0..a2,d0..d2 in {n,y}",
            tables: v,
        });
    }

    // F9: three services at one level (app level and inside a scope).
    {
        let mut v = vec![];
        let ps = [RP::A, RP::Dyn, RP::Tail];
        let gs: &Vec<G> = if m.thorough { &m.g } else { &m.g_small };
        for &p1 in &ps {
            for &p2 in &ps {
                for &p3 in &ps {
                    for &g1 in gs {
                        for &g2 in gs {
                            let three = vec![r(p1, g1, ANY), r(p2, g2, ANY), r(p3, G::None, ANY)];
                            v.push(Table { data: false, own_default: false, services: three.clone() });
                            if m.thorough {
                                v.push(Table {
                                    data: false,
                                    own_default: false,
                                    services: vec![s(SP::Dyn, G::None, false, false, three)],
                                });
                            }
                        }
                    }
                }
            }
        }
        fams.push(Family {
            name: "F9-three-resources",
            describe: "App[R(p1,g1),R(p2,g2),R(p3,none)] (thorough: also App[S(/{p})[same]]), p in {/a,/{x},/{t}*}, g1,g2 in G (quick: Gsmall)",
            tables: v,
        });
    }

    // F10: a resource and a scope that overlap ("a prefix that is also a resource"), both orders.
    {
        let mut v = vec![];
        let inner: &[RP] = &[RP::Empty, RP::Slash, RP::A, RP::Dyn];
        let rss: &[&[RK]] = if m.thorough { &[ANY, &[RK::Get]] } else { &[&[RK::Get]] };
        for &p in &m.rp {
            for &g in &[G::None, G::Post] {
                for &sp in &m.sp {
                    for &pi in inner {
                        for rs in rss {
                            let res = r(p, g, rs);
                            let sc = s(sp, G::None, true, false, vec![r(pi, G::None, ANY)]);
                            v.push(Table {
                                data: false,
                                own_default: false,
                                services: vec![res.clone(), sc.clone()],
                            });
                            v.push(Table {
                                data: false,
                                own_default: false,
                                services: vec![sc, res],
                            });
                        }
                    }
                }
            }
        }
        fams.push(Family {
            name: "F10-resource-vs-scope",
            describe: "App[R(p,g,rs), S(sp,none,y,inh)[R(pi)]] and the reverse order, p in RP, g in {none,Post}, sp in SP, pi in {\"\",/,/a,/{x}}, rs in {[any],[get]} (quick: {[get]})",
            tables: v,
        });
    }

    // F11 (thorough only): two sibling scopes with the full inner pattern menu on both sides.
    if m.thorough {
        let mut v = vec![];
        for &sp1 in &m.sp {
            for &g1 in &m.g {
                for &sp2 in &m.sp {
                    for &p1 in &m.rp {
                        for &p2 in &m.rp {
                            v.push(Table {
                                data: true,
                                own_default: false,
                                services: vec![
                                    s(sp1, g1, false, true, vec![r(p1, G::None, ANY)]),
                                    s(sp2, G::None, true, false, vec![r(p2, G::None, &[RK::Get])]),
                                ],
                            });
                        }
                    }
                }
            }
        }
        fams.push(Family {
            name: "F11-sibling-scopes-full",
            describe: "App(y,inh)[S(sp1,g1,n,own)[R(p1)], S(sp2,none,y,inh)[R(p2,none,[get])]], sp1,sp2 in SP, g1 in G, p1,p2 in RP",
            tables: v,
        });
    }

    // F12: inside a scope, a resource before and after a nested scope (registration order across
    // service kinds below app level; three services at scope level).
    {
        let mut v = vec![];
        let sp1s: &[SP] = if m.thorough { &m.sp_small } else { &[SP::S, SP::Dyn] };
        let sp2s: &Vec<SP> = if m.thorough { &m.sp } else { &m.sp_small };
        let pcs: &[RP] = if m.thorough { &[RP::Dyn, RP::Tail] } else { &[RP::Tail] };
        for &sp1 in sp1s {
            for &sp2 in sp2s {
                for &pa in &m.rp_small {
                    for &ga in &[G::None, G::Post] {
                        for &pb in &m.rp_small {
                            for &pc in pcs {
                                v.push(Table {
                                    data: true,
                                    own_default: false,
                                    services: vec![s(
                                        sp1,
                                        G::None,
                                        false,
                                        true,
                                        vec![
                                            r(pa, ga, ANY),
                                            s(sp2, G::None, true, false, vec![r(pb, G::None, &[RK::Get])]),
                                            r(pc, G::None, ANY),
                                        ],
                                    )],
                                });
                            }
                        }
                    }
                }
            }
        }
        fams.push(Family {
            name: "F12-mixed-in-scope",
            describe: "App(y,inh)[S1(sp1,none,n,own)[R(pa,ga,[any]), S2(sp2,none,y,inh)[R(pb,none,[get])], R(pc,none,[any])]], sp1 in SPsmall (quick: {/s,/{p}}), sp2 in SP (quick: SPsmall), pa,pb in RPsmall, ga in {none,Post}, pc in {/{x},/{t}*} (quick: {/{t}*})",
            tables: v,
        });
    }

    // ---- thorough only: the same skeletons with (nearly) full menus in every hole
    if m.thorough {
        // T1: flat pair, all route lists on the first resource, any guard on the second
        let mut v = vec![];
        for &p1 in &m.rp {
            for &g1 in &m.g {
                for rs1 in &m.rs {
                    for &p2 in &m.rp {
                        for &g2 in &m.g {
                            v.push(Table {
                                data: false,
                                own_default: false,
                                services: vec![r(p1, g1, rs1), r(p2, g2, ANY)],
                            });
                        }
                    }
                }
            }
        }
        fams.push(Family {
            name: "T1-flat-pair-full",
            describe: "App[R(p1,g1,rs1), R(p2,g2,[any])], p1,p2 in RP, g1,g2 in G, rs1 in RS",
            tables: v,
        });

        // T4: one scope, data x default chains with full prefix/guard/pattern menus
        let mut v = vec![];
        for &sp in &m.sp {
            for &g in &m.g {
                for &p in &m.rp {
                    for bits in 0..16u8 {
                        v.push(Table {
                            data: bits & 1 != 0,
                            own_default: bits & 2 != 0,
                            services: vec![s(sp, g, bits & 4 != 0, bits & 8 != 0, vec![r(p, G::None, &[RK::Get])])],
                        });
                    }
                }
            }
        }
        fams.push(Family {
            name: "T4-scope-data-default-full",
            describe: "App(a0,d0)[S(sp,g,a1,d1)[R(p,none,[get])]], sp in SP, g in G, p in RP, a0,a1,d0,d1 in {n,y}",
            tables: v,
        });

        // T7: nested scopes, guards on both levels, all prefixes, all inner patterns
        let mut v = vec![];
        for &sp1 in &m.sp {
            for &sp2 in &m.sp {
                for &g1 in &m.g {
                    for &g2 in &m.g {
                        for &p2 in &m.rp {
                            v.push(Table {
                                data: true,
                                own_default: false,
                                services: vec![
                                    s(
                                        sp1,
                                        g1,
                                        false,
                                        true,
                                        vec![
                                            s(sp2, g2, true, false, vec![r(p2, G::None, ANY)]),
                                            r(RP::Dyn, G::None, &[RK::Get]),
                                        ],
                                    ),
                                    catch_all(),
                                ],
                            });
                        }
                    }
                }
            }
        }
        fams.push(Family {
            name: "T7-nested-guards-full",
            describe: "App(y,inh)[S1(sp1,g1,n,own)[S2(sp2,g2,y,inh)[R(p2)], R(/{x},none,[get])], CATCH], sp1,sp2 in SP, g1,g2 in G, p2 in RP",
            tables: v,
        });

        // T8: nested data/default chains over all prefixes
        let mut v = vec![];
        for &sp1 in &m.sp {
            for &sp2 in &m.sp {
                for a in 0..8u8 {
                    for d in 0..8u8 {
                        v.push(Table {
                            data: a & 1 != 0,
                            own_default: d & 1 != 0,
                            services: vec![s(
                                sp1,
                                G::None,
                                a & 2 != 0,
                                d & 2 != 0,
                                vec![
                                    s(sp2, G::None, a & 4 != 0, d & 4 != 0, vec![r(RP::Dyn, G::None, &[RK::Get])]),
                                    r(RP::Tail, G::Post, &[RK::Post]),
                                ],
                            )],
                        });
                    }
                }
            }
        }
        fams.push(Family {
            name: "T8-nested-data-default-full",
            describe: "App(a0,d0)[S1(sp1,none,a1,d1)[S2(sp2,none,a2,d2)[R(/{x},none,[get])], R(/{t}*,Post,[post])]], sp1,sp2 in SP, a0..a2,d0..d2 in {n,y}",
            tables: v,
        });

        // T9: three resources, six patterns, all guards, at app level and inside /{p} and "" scopes
        let mut v = vec![];
        let ps = [RP::Empty, RP::Slash, RP::A, RP::Dyn, RP::Digits, RP::Tail];
        for &p1 in &ps {
            for &p2 in &ps {
                for &p3 in &ps {
                    for &g1 in &m.g {
                        for &g2 in &m.g {
                            let three = vec![r(p1, g1, ANY), r(p2, g2, ANY), r(p3, G::None, &[RK::Get])];
                            v.push(Table { data: false, own_default: false, services: three.clone() });
                            v.push(Table {
                                data: false,
                                own_default: true,
                                services: vec![s(SP::Dyn, G::None, true, false, three.clone())],
                            });
                            v.push(Table {
                                data: true,
                                own_default: false,
                                services: vec![s(SP::Empty, G::None, false, true, three)],
                            });
                        }
                    }
                }
            }
        }
        fams.push(Family {
            name: "T9-three-resources-full",
            describe: "X[R(p1,g1,[any]),R(p2,g2,[any]),R(p3,none,[get])] for X in {App, App(n,own)[S(/{p},none,y,inh)[..]], App(y,inh)[S(\"\",none,n,own)[..]]}, p in {\"\",/,/a,/{x},/{x:\\d+},/{t}*}, g1,g2 in G",
            tables: v,
        });

        // T12: resource / nested scope / resource inside a scope, full menus
        let mut v = vec![];
        for &sp1 in &m.sp {
            for &sp2 in &m.sp {
                for &pa in &m.rp {
                    for &ga in &[G::None, G::Post] {
                        for &pb in &m.rp {
                            for &pc in &[RP::Dyn, RP::Tail] {
                                v.push(Table {
                                    data: false,
                                    own_default: true,
                                    services: vec![s(
                                        sp1,
                                        G::None,
                                        true,
                                        false,
                                        vec![
                                            r(pa, ga, ANY),
                                            s(sp2, G::None, false, true, vec![r(pb, G::None, &[RK::Get])]),
                                            r(pc, G::None, ANY),
                                        ],
                                    )],
                                });
                            }
                        }
                    }
                }
            }
        }
        fams.push(Family {
            name: "T12-mixed-in-scope-full",
            describe: "App(n,own)[S1(sp1,none,y,inh)[R(pa,ga,[any]), S2(sp2,none,n,own)[R(pb,none,[get])], R(pc,none,[any])]], sp1,sp2 in SP, pa,pb in RP, ga in {none,Post}, pc in {/{x},/{t}*}",
            tables: v,
        });

        // T13: two resources inside the inner scope of a nest, guard on the first
        let mut v = vec![];
        for &sp1 in &m.sp {
            for &sp2 in &m.sp {
                for &pa in &m.rp_small {
                    for &ga in &m.g {
                        for &pb in &m.rp_small {
                            v.push(Table {
                                data: false,
                                own_default: false,
                                services: vec![
                                    s(
                                        sp1,
                                        G::None,
                                        true,
                                        true,
                                        vec![
                                            s(sp2, G::None, false, false, vec![r(pa, ga, ANY), r(pb, G::None, ANY)]),
                                            r(RP::Dyn, G::None, ANY),
                                        ],
                                    ),
                                    catch_all(),
                                ],
                            });
                        }
                    }
                }
            }
        }
        fams.push(Family {
            name: "T13-nested-inner-pair",
            describe: "App[S1(sp1,none,y,own)[S2(sp2,none,n,inh)[R(pa,ga,[any]),R(pb,none,[any])], R(/{x})], CATCH], sp1,sp2 in SP, pa,pb in RPsmall, ga in G",
            tables: v,
        });
    }

    fams
}

/// All tables of all families, deduplicated, in generation order.
pub fn all_tables(fams: &[Family]) -> Vec<(usize, Table)> {
    let mut seen = HashSet::new();
    let mut out = vec![];
    for (fi, f) in fams.iter().enumerate() {
        for t in &f.tables {
            assert!(t.well_formed(), "generator produced an ill-formed table: {}", t.show());
            if seen.insert(t.clone()) {
                out.push((fi, t.clone()));
            }
        }
    }
    out
}

pub const TOKENS: [&str; 10] = ["a", "b", "s", "1", "", "a%2Fb", "%61", "%25", "1.b", "1xb"];
/// thorough adds a lower-case protected escape and the third protected escape of the router
pub const TOKENS_THOROUGH: [&str; 12] = ["a", "b", "s", "1", "", "a%2Fb", "%61", "%25", "%2f", "%2B", "1.b", "1xb"];
/// tokens for the additional 4-segment paths (needed to reach resources below two consuming scopes)
pub const TOKENS_DEEP: [&str; 3] = ["a", "s", "1"];

/// Request paths: every path of 1..=3 segments over TOKENS (thorough: TOKENS_THOROUGH), each with and without a trailing slash,
/// plus every 4-segment path over TOKENS_DEEP with and without trailing slash. Deduplicated
/// (`/a/` arises both as [a, ""] and as [a] + trailing slash), simplest first.
pub fn paths(thorough: bool) -> Vec<String> {
    let tokens: &[&str] = if thorough { &TOKENS_THOROUGH } else { &TOKENS };
    let mut out: Vec<String> = vec![];
    let mut seen = HashSet::new();
    let mut push = |p: String, out: &mut Vec<String>| {
        if seen.insert(p.clone()) {
            out.push(p);
        }
    };
    fn rec(toks: &[&str], n: usize, cur: &mut Vec<String>, f: &mut dyn FnMut(&[String])) {
        if n == 0 {
            f(cur);
            return;
        }
        for t in toks {
            cur.push(t.to_string());
            rec(toks, n - 1, cur, f);
            cur.pop();
        }
    }
    for n in 1..=3 {
        let mut f = |segs: &[String]| {
            let p = format!("/{}", segs.join("/"));
            push(p.clone(), &mut out);
            push(format!("{p}/"), &mut out);
        };
        rec(tokens, n, &mut vec![], &mut f);
    }
    let mut f = |segs: &[String]| {
        let p = format!("/{}", segs.join("/"));
        push(p.clone(), &mut out);
        push(format!("{p}/"), &mut out);
    };
    rec(&TOKENS_DEEP, 4, &mut vec![], &mut f);
    out
}

/// Requests for one table: every path x {GET, POST} x x-g {absent, "1"} x Host {absent, h.test};
/// the x-g / Host dimension is only varied when the table contains a Header / Host guard (no other
/// construct of the grammar reads these headers).
pub fn requests(t: &Table, paths: &[String]) -> Vec<Req> {
    let xgs: &[bool] = if t.uses_guard(G::Hdr) { &[false, true] } else { &[false] };
    let hosts: &[bool] = if t.uses_guard(G::Host) { &[false, true] } else { &[false] };
    let mut out = Vec::with_capacity(paths.len() * 2 * xgs.len() * hosts.len());
    for p in paths {
        for post in [false, true] {
            for &xg in xgs {
                for &host in hosts {
                    out.push(Req { path: p.clone(), post, xg, host });
                }
            }
        }
    }
    out
}
