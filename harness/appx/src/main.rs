//! appx — decides C09 (App routing picks the first registered match and exposes exactly its
//! parameters) by bounded-exhaustive enumeration of route tables x requests against an independent
//! reference router. Every table is built through the public `App` builder and driven through
//! `actix_web::test::{init_service, call_service}`.

mod ast;
mod gen;
mod real;
mod refr;

use std::collections::{BTreeMap, BTreeSet};
use std::sync::atomic::{AtomicUsize, Ordering};
use std::sync::Mutex;
use std::time::Instant;

use ast::*;
use mc_core::report::{read_replay, Evidence, Reporter, Violation};
use serde_json::json;

const PROP: &str = "C09";

fn machinery(msg: &str) -> ! {
    eprintln!("MACHINERY: {msg}");
    std::process::exit(2);
}

/// Compare modulo fields that are not part of the oracle.
fn norm(o: &Outcome) -> Outcome {
    match o {
        Outcome::Handler(s) => {
            let mut s = s.clone();
            s.match_pattern = None;
            s.guard_marker = String::new();
            Outcome::Handler(s)
        }
        o => o.clone(),
    }
}

fn kind_of(o: &Outcome) -> String {
    match o {
        Outcome::Handler(s) if s.tag.starts_with("d:") => "own-default".into(),
        Outcome::Handler(_) => "route".into(),
        Outcome::Status(404) => "builtin-404".into(),
        Outcome::Status(405) => "builtin-405".into(),
        Outcome::Status(n) => format!("status-{n}"),
        Outcome::Broken(m) if m.starts_with("panic") => "panic".into(),
        Outcome::Broken(_) => "error".into(),
    }
}

fn tag_of(o: &Outcome) -> Option<&str> {
    match o {
        Outcome::Handler(s) => Some(&s.tag),
        _ => None,
    }
}

/// `Some((clause, signature, what))` if `got` is not an acceptable outcome.
fn judge(t: &Table, req: &Req, exp: &refr::Expected, got: &Outcome) -> Option<(String, String, String)> {
    // the guard of the resource that ran resolves application data like its handler does
    if let Outcome::Handler(s) = got {
        let handler_saw = s.marker.clone().unwrap_or_else(|| "none".into());
        if s.tag.starts_with('r') && s.guard_marker != "-" && !s.guard_marker.is_empty() && s.guard_marker != handler_saw {
            return Some((
                "d".into(),
                "app_data:guard-and-handler-disagree".into(),
                format!(
                    "request {} on {}: the guard of the resource that ran resolved app_data::<Marker>() to {:?}, its handler {} to {:?}",
                    req.show(),
                    t.show(),
                    s.guard_marker,
                    s.tag,
                    handler_saw
                ),
            ));
        }
    }
    let gotn = norm(got);
    if exp.outcomes.iter().any(|e| *e == gotn) {
        return None;
    }
    let primary = &exp.outcomes[0];
    let ek = kind_of(primary);
    let gk = kind_of(&gotn);

    // --- who handled it? (clauses a / c)
    let same_handler = match (primary, &gotn) {
        (Outcome::Handler(e), Outcome::Handler(g)) => e.tag == g.tag,
        (Outcome::Status(a), Outcome::Status(b)) => a == b,
        _ => false,
    };
    if !same_handler {
        // (c): does the real router behave as if %2F / %25 had been decoded before segmenting?
        let moved = refr::decode(&req.path, b"+");
        if moved != req.path && moved.starts_with('/') {
            let alt = refr::route(t, &Req { path: moved.clone(), ..req.clone() });
            // only a tagged handler that saw exactly what the moved path would give counts (bare
            // 404/405 coincide too easily)
            let same = matches!(gotn, Outcome::Handler(_)) && alt.outcomes.iter().any(|o| *o == gotn);
            if same {
                return Some((
                    "c".into(),
                    format!("boundary-moved:exp={ek},got={gk}"),
                    format!(
                        "request {} was routed as if its path were {moved:?}: got {} instead of {}",
                        req.show(),
                        show_outcome(&gotn),
                        show_outcome(primary)
                    ),
                ));
            }
        }
        // Known root cause: `Scope::register` hands its children the *parent's* default instead of
        // its own, so a nested scope without default skips the enclosing scope's default and ends
        // at the App default / built-in 404 (what the doc of `Scope::default_service` describes).
        // Recognised only if (1) the expected default belongs to an enclosing scope reached
        // through a default-less nested scope and (2) the real outcome is exactly what the
        // documented App-only fallback yields.
        if exp.kind == refr::Kind::OwnDefault && exp.default_via_parent_scope {
            let doc = refr::route_mode(t, req, refr::DefaultMode::AppOnly);
            if doc.outcomes.iter().any(|o| *o == gotn) {
                return Some((
                    "a".into(),
                    "default:nested-scope-skips-parent-scope-default".into(),
                    format!(
                        "request {} on {}: nothing matches inside the nested scope (chain {:?}); nearest enclosing default is {} but got {}",
                        req.show(),
                        t.show(),
                        exp.chain,
                        show_outcome(primary),
                        show_outcome(&gotn)
                    ),
                ));
            }
        }
        // classify why the reference did not pick what ran
        let why = divergence(t, exp, &gotn);
        return Some((
            "a".into(),
            format!("handler:exp={ek},got={gk},why={why}"),
            format!(
                "request {} on {}: expected {} (chain {:?}), got {}",
                req.show(),
                t.show(),
                show_outcome(primary),
                exp.chain,
                show_outcome(&gotn)
            ),
        ));
    }

    // --- same handler, different view (clauses b / c / d)
    let (Outcome::Handler(e), Outcome::Handler(g)) = (primary, &gotn) else { unreachable!() };
    if e.match_info != g.match_info {
        let en: Vec<&String> = e.match_info.iter().map(|(k, _)| k).collect();
        let gn: Vec<&String> = g.match_info.iter().map(|(k, _)| k).collect();
        let mut es = en.clone();
        let mut gs = gn.clone();
        es.sort();
        gs.sort();
        let how = if en == gn {
            "value"
        } else if es == gs {
            "order"
        } else if gs.len() > es.len() {
            "extra-param"
        } else if gs.len() < es.len() {
            "missing-param"
        } else {
            "other-param"
        };
        // a value that differs only by protected-escape decoding is a (c) matter
        let decoded_protected = how == "value"
            && e.match_info.iter().zip(&g.match_info).any(|((_, ev), (_, gv))| {
                ev != gv && (ev.contains("%2F") || ev.contains("%25")) && refr::decode(ev, b"") == refr::decode(gv, b"")
            });
        let clause = if decoded_protected { "c" } else { "b" };
        return Some((
            clause.into(),
            format!("match_info:{how}:{ek}"),
            format!(
                "request {} on {}: handler {} saw match_info {:?}, expected {:?}",
                req.show(),
                t.show(),
                g.tag,
                g.match_info,
                e.match_info
            ),
        ));
    }
    if e.path_vec != g.path_vec || e.path_tuple != g.path_tuple {
        let which = if e.path_tuple != g.path_tuple { "tuple" } else { "vec" };
        let failed = (e.path_tuple != g.path_tuple && g.path_tuple.is_none())
            || (e.path_vec != g.path_vec && g.path_vec.is_none());
        return Some((
            "b".into(),
            format!("web-path:{which}:{}:{ek}", if failed { "extraction-failed" } else { "value" }),
            format!(
                "request {} on {}: handler {} extracted web::Path vec={:?} tuple={:?}, expected vec={:?} tuple={:?} (match_info {:?})",
                req.show(),
                t.show(),
                g.tag,
                g.path_vec,
                g.path_tuple,
                e.path_vec,
                e.path_tuple,
                g.match_info
            ),
        ));
    }
    if e.marker != g.marker {
        let lvl = |m: &Option<String>| match m.as_deref() {
            None => "none".to_string(),
            Some("app") => "app".to_string(),
            Some(sid) => {
                // position of that scope on the expected chain: depth 1 / 2, or off-chain
                match exp.chain.iter().position(|c| c == sid) {
                    Some(i) => format!("scope-depth{}", i + 1),
                    None => "off-chain-scope".to_string(),
                }
            }
        };
        return Some((
            "d".into(),
            format!("app_data:exp={},got={}:{ek}", lvl(&e.marker), lvl(&g.marker)),
            format!(
                "request {} on {}: handler {} resolved app_data::<Marker>() to {:?}, innermost registration on its route is {:?}",
                req.show(),
                t.show(),
                g.tag,
                g.marker,
                e.marker
            ),
        ));
    }
    Some(("a".into(), "unclassified".into(), format!("{} vs {}", show_outcome(&gotn), show_outcome(primary))))
}

/// Why did the reference not choose the node that actually ran?
fn divergence(t: &Table, exp: &refr::Expected, got: &Outcome) -> String {
    let Some(tag) = tag_of(got) else {
        // a built-in response (or breakage) instead of the expected one
        return match (exp.kind.clone(), got) {
            (refr::Kind::Route, Outcome::Status(405)) => "no-route-accepted".into(),
            (refr::Kind::Res405, Outcome::Status(404)) => "resource-default-is-404".into(),
            (refr::Kind::Builtin404, Outcome::Status(405)) => "405-without-matched-resource".into(),
            (refr::Kind::Route, Outcome::Status(404)) => "matching-service-skipped".into(),
            (refr::Kind::OwnDefault, Outcome::Status(_)) => "own-default-not-used".into(),
            _ => "other".into(),
        };
    };
    let Some(gchain) = refr::chain_of_tag(t, tag) else { return "unknown-tag".into() };
    let is_default = tag.starts_with("d:");
    // first level where the two chains part
    let mut i = 0;
    while i < exp.chain.len() && i < gchain.len() && exp.chain[i] == gchain[i] {
        i += 1;
    }
    if i == gchain.len() {
        // got node is an ancestor-or-self of the expected chain
        if is_default {
            return match exp.kind {
                // same request, a default registered at another level answered
                refr::Kind::OwnDefault | refr::Kind::Builtin404 => "other-default-owner".into(),
                _ if i == exp.chain.len() => "default-instead-of-service".into(),
                _ => "default-although-inner-service-matches".into(),
            };
        }
        if i == exp.chain.len() {
            return "other-route-of-same-resource".into();
        }
        return "other".into();
    }
    // got chain enters node gchain[i] that the reference did not enter at level i
    let g = &gchain[i];
    let kindname = if g.starts_with('s') { "scope" } else { "resource" };
    if let Some(ev) = exp.evals.get(i).and_then(|l| l.iter().find(|e| &e.node == g)) {
        let why = match (ev.pattern_ok, ev.guard_ok) {
            (true, false) => "guard-rejected",
            (false, true) => "pattern-mismatch",
            (false, false) => "pattern-mismatch+guard-rejected",
            (true, true) => "inconsistent",
        };
        format!("{why}-{kindname}-ran")
    } else if i < exp.chain.len() {
        format!("earlier-matching-service-skipped-for-later-{kindname}")
    } else {
        format!("escaped-to-unrelated-{kindname}")
    }
}

fn show_outcome(o: &Outcome) -> String {
    match o {
        Outcome::Handler(s) => format!(
            "handler {} [match_info {:?}, Path {:?}, marker {:?}]",
            s.tag, s.match_info, s.path_vec, s.marker
        ),
        Outcome::Status(n) => format!("built-in {n}"),
        Outcome::Broken(m) => format!("BROKEN({m})"),
    }
}

/// Non-triviality rule for `distinct_nontrivial`.
fn nontrivial(exp: &refr::Expected) -> bool {
    let nested = exp.chain.iter().filter(|c| c.starts_with('s')).count() >= 1;
    match exp.kind {
        refr::Kind::Route => nested && exp.nparams >= 1,
        // default fallback exercised after at least one service captured the request
        refr::Kind::Res405 => true,
        refr::Kind::OwnDefault | refr::Kind::Builtin404 => !exp.chain.is_empty(),
    }
}

/// Outcome class: handler identity + parameter names + marker (no captured values).
fn class_of(got: &Outcome) -> String {
    match got {
        Outcome::Handler(s) => format!(
            "{}|{}|{}",
            s.tag,
            s.match_info.iter().map(|(k, _)| k.as_str()).collect::<Vec<_>>().join(","),
            s.marker.as_deref().unwrap_or("-")
        ),
        Outcome::Status(n) => format!("status{n}"),
        Outcome::Broken(_) => "broken".into(),
    }
}

#[derive(Default)]
struct Totals {
    evaluations: u64,
    tables: u64,
    nontrivial_evals: u64,
    distinct_nontrivial: u64,
    distinct_classes: u64,
    by_kind: BTreeMap<String, u64>,
    pct_evals: u64,
    violations: Vec<Violation>,
    violating_cases: u64,
    samples: Vec<serde_json::Value>,
    nondeterministic: Vec<String>,
}

struct TableResult {
    evaluations: u64,
    nontrivial_evals: u64,
    distinct_nontrivial: u64,
    distinct_classes: u64,
    by_kind: BTreeMap<String, u64>,
    pct_evals: u64,
    violations: BTreeMap<(String, String), Violation>,
    violating_cases: u64,
    sample: Option<serde_json::Value>,
    nondeterministic: Option<String>,
}

async fn run_table(ti: usize, t: &Table, paths: &[String], recheck: bool, want_sample: bool) -> TableResult {
    let app = real::init(t).await;
    let reqs = gen::requests(t, paths);
    let size = t.size();
    let mut res = TableResult {
        evaluations: 0,
        nontrivial_evals: 0,
        distinct_nontrivial: 0,
        distinct_classes: 0,
        by_kind: BTreeMap::new(),
        pct_evals: 0,
        violations: BTreeMap::new(),
        violating_cases: 0,
        sample: None,
        nondeterministic: None,
    };
    let mut classes: BTreeSet<String> = BTreeSet::new();
    let mut nt_classes: BTreeSet<String> = BTreeSet::new();
    let mut best_score = 0usize;
    for (ri, req) in reqs.iter().enumerate() {
        let exp = refr::route(t, req);
        let got = real::call(&app, req).await;
        res.evaluations += 1;
        if req.path.contains('%') {
            res.pct_evals += 1;
        }
        *res.by_kind.entry(kind_of(&got)).or_default() += 1;
        let class = class_of(&got);
        let nt = nontrivial(&exp);
        if nt {
            res.nontrivial_evals += 1;
            nt_classes.insert(class.clone());
        }
        if want_sample {
            // keep the most telling case of this table: non-trivial, many parameters, escapes
            let score = (nt as usize) * 100 + exp.nparams * 10 + req.path.contains('%') as usize * 5
                + matches!(got, Outcome::Handler(_)) as usize;
            if score > best_score || res.sample.is_none() {
                best_score = score;
                res.sample = Some(json!({
                    "table": t.show(),
                    "request": req.show(),
                    "observed": got,
                    "reference_chain": exp.chain,
                    "nontrivial": nt,
                }));
            }
        }
        classes.insert(class);
        let verdict = judge(t, req, &exp, &got);
        let mut history_dependent = false;
        if recheck || verdict.is_some() {
            // determinism: same case, same observation
            let again = real::call(&app, req).await;
            if again != got {
                // either the real application is not deterministic, or what it answers depends
                // on the requests this instance served before: a fresh instance decides
                let fresh_app = real::init(t).await;
                let fresh = real::call(&fresh_app, req).await;
                let fresh2 = real::call(&real::init(t).await, req).await;
                if fresh != fresh2 {
                    res.nondeterministic = Some(format!(
                        "table {} request {}: {:?} then {:?} (fresh instances: {:?} / {:?})",
                        t.show(),
                        req.show(),
                        got,
                        again,
                        fresh,
                        fresh2
                    ));
                } else {
                    history_dependent = true;
                    let odd = if got != fresh { &got } else { &again };
                    let field = diff_field(odd, &fresh);
                    let history: Vec<&Req> = reqs[..=ri].iter().collect();
                    res.violating_cases += 1;
                    let weight = (size.min(0xffff) << 48) | ((ri as u64) & 0xffff);
                    let key = ("e".to_string(), format!("history-dependent:{field}"));
                    let v = Violation {
                        property: PROP.into(),
                        clause: key.0.clone(),
                        signature: key.1.clone(),
                        what: format!(
                            "table {} request {}: as request #{ri} (or its immediate repetition) on an instance that had served the earlier requests of the enumeration it is observed as {}, on a fresh instance as {} — routing / data resolution must be determined by the request and the table alone",
                            t.show(),
                            req.show(),
                            show_outcome(odd),
                            show_outcome(&fresh)
                        ),
                        replay: json!({ "table": t, "request": req, "history": history, "table_shown": t.show() }),
                        weight,
                    };
                    match res.violations.get(&key) {
                        Some(old) if old.weight <= weight => {}
                        _ => {
                            res.violations.insert(key, v);
                        }
                    }
                }
            }
        }
        // (a verdict on an observation that depends on the instance's history is reported as such
        // above, with the history in its replay file)
        if let Some((clause, signature, what)) = verdict.filter(|_| !history_dependent) {
            res.violating_cases += 1;
            let weight = (size.min(0xffff) << 48) | ((req.path.len() as u64).min(0xff) << 40) | ((ti as u64 & 0xff_ffff) << 16) | (ri as u64 & 0xffff);
            let v = Violation {
                property: PROP.into(),
                clause: clause.clone(),
                signature: signature.clone(),
                what,
                replay: json!({ "table": t, "request": req, "table_shown": t.show() }),
                weight,
            };
            match res.violations.get(&(clause.clone(), signature.clone())) {
                Some(old) if old.weight <= weight => {}
                _ => {
                    res.violations.insert((clause, signature), v);
                }
            }
        }
    }
    res.distinct_classes = classes.len() as u64;
    res.distinct_nontrivial = nt_classes.len() as u64;
    res
}

/// Which observed component differs (signature of a history-dependent observation).
fn diff_field(a: &Outcome, b: &Outcome) -> String {
    match (a, b) {
        (Outcome::Handler(x), Outcome::Handler(y)) => {
            let mut f = vec![];
            if x.tag != y.tag {
                f.push("handler");
            }
            if x.match_info != y.match_info || x.path_vec != y.path_vec || x.path_tuple != y.path_tuple {
                f.push("params");
            }
            if x.marker != y.marker {
                f.push("app-data");
            }
            if f.is_empty() {
                f.push("other");
            }
            f.join("+")
        }
        _ => format!("{}-vs-{}", kind_of(a), kind_of(b)),
    }
}

/// Replay of a history-dependent finding: the recorded requests in order on one instance, the
/// last one twice, against the same request on a fresh instance.
fn replay_history(table: &Table, req: &Req, history: &[Req]) -> i32 {
    let (last, again, fresh) = actix_rt::System::new().block_on(async {
        let app = real::init(table).await;
        let mut last = None;
        for r in history {
            last = Some(real::call(&app, r).await);
        }
        let again = real::call(&app, req).await;
        let fresh = real::call(&real::init(table).await, req).await;
        (last, again, fresh)
    });
    println!("after {} earlier requests: {}", history.len().saturating_sub(1), last.as_ref().map(show_outcome).unwrap_or_default());
    println!("repeated:               {}", show_outcome(&again));
    println!("on a fresh instance:    {}", show_outcome(&fresh));
    let odd = [last.clone(), Some(again.clone())].into_iter().flatten().find(|o| *o != fresh);
    match odd {
        Some(o) => {
            println!("STILL FAILS clause=e signature=history-dependent:{}", diff_field(&o, &fresh));
            1
        }
        None => {
            println!("passes");
            0
        }
    }
}

fn replay(file: &str) -> i32 {
    let v = read_replay(file);
    let body = v.get("replay").cloned().unwrap_or(v.clone());
    let table: Table = match serde_json::from_value(body["table"].clone()) {
        Ok(t) => t,
        Err(e) => machinery(&format!("replay file has no table: {e}")),
    };
    let req: Req = match serde_json::from_value(body["request"].clone()) {
        Ok(r) => r,
        Err(e) => machinery(&format!("replay file has no request: {e}")),
    };
    if !table.well_formed() {
        machinery("replay table is outside the grammar");
    }
    println!("table:    {}", table.show());
    println!("request:  {}", req.show());
    if let Some(h) = body.get("history").filter(|h| h.is_array()) {
        let history: Vec<Req> = match serde_json::from_value(h.clone()) {
            Ok(x) => x,
            Err(e) => machinery(&format!("replay file has a malformed history: {e}")),
        };
        return replay_history(&table, &req, &history);
    }
    println!("routing path (after re-quoting): {}", refr::routing_path(&req.path));
    let exp = refr::route(&table, &req);
    let (got, again) = actix_rt::System::new().block_on(async {
        let app = real::init(&table).await;
        let a = real::call(&app, &req).await;
        let b = real::call(&app, &req).await;
        (a, b)
    });
    println!("reference: {}", show_outcome(&exp.outcomes[0]));
    for alt in &exp.outcomes[1..] {
        println!("   (also acceptable: {})", show_outcome(alt));
    }
    println!("reference chain: {:?}", exp.chain);
    println!("real:      {}", show_outcome(&got));
    if let Outcome::Handler(s) = &got {
        println!("real match_pattern (not judged): {:?}", s.match_pattern);
        println!("real web::Path tuple: {:?}", s.path_tuple);
    }
    if got != again {
        machinery("replay is not deterministic");
    }
    match judge(&table, &req, &exp, &got) {
        Some((clause, signature, what)) => {
            println!("STILL FAILS clause={clause} signature={signature}");
            println!("  {what}");
            1
        }
        None => {
            println!("passes");
            0
        }
    }
}

fn main() {
    let args = mc_core::cli::parse();
    if args.property != PROP {
        machinery(&format!("appx serves C09 only, not {}", args.property));
    }
    if let Some(f) = &args.replay {
        std::process::exit(replay(f));
    }
    let thorough = args.tier == "thorough";
    let t0 = Instant::now();

    // keep expected handler panics (caught and reported as outcomes) from flooding stderr
    std::panic::set_hook(Box::new(|info| {
        let msg = info.to_string();
        if msg.contains("MACHINERY") {
            eprintln!("{msg}");
        }
    }));

    let menus = gen::menus(thorough);
    let fams = gen::families(&menus);
    let tables = gen::all_tables(&fams);
    let paths = gen::paths(thorough);
    let n = tables.len();

    // VERIF_SEED only permutes the processing order
    let seed: u64 = std::env::var("VERIF_SEED").ok().and_then(|s| s.parse().ok()).unwrap_or(0);
    let mut order: Vec<usize> = (0..n).collect();
    if seed != 0 {
        let mut x = seed | 1;
        for i in (1..n).rev() {
            x ^= x << 13;
            x ^= x >> 7;
            x ^= x << 17;
            order.swap(i, (x % (i as u64 + 1)) as usize);
        }
    }

    let wall_cap = args.wall_s.unwrap_or(if thorough { 1500 } else { 55 });
    let next = AtomicUsize::new(0);
    let totals = Mutex::new(Totals::default());
    let fam_counts: Mutex<BTreeMap<usize, (u64, u64)>> = Mutex::new(BTreeMap::new());
    let capped = std::sync::atomic::AtomicBool::new(false);
    let threads = mc_core::cli::threads();
    // written-out samples: first, middle and last table of every family
    let sample_tables: BTreeSet<usize> = {
        let mut ranges: BTreeMap<usize, (usize, usize)> = BTreeMap::new();
        for (i, (fi, _)) in tables.iter().enumerate() {
            let e = ranges.entry(*fi).or_insert((i, i));
            e.1 = i;
        }
        ranges.values().flat_map(|&(a, b)| [a, (a + b) / 2, b]).collect()
    };

    std::thread::scope(|sc| {
        for _ in 0..threads {
            sc.spawn(|| {
                let r = std::panic::catch_unwind(|| {
                    actix_rt::System::new().block_on(async {
                        loop {
                            let k = next.fetch_add(1, Ordering::Relaxed);
                            if k >= n {
                                break;
                            }
                            if t0.elapsed().as_secs() >= wall_cap {
                                capped.store(true, Ordering::Relaxed);
                                break;
                            }
                            let ti = order[k];
                            let (fi, t) = &tables[ti];
                            // determinism re-check on a fixed subset of tables
                            let recheck = ti % 97 == 0;
                            let r = run_table(ti, t, &paths, recheck, sample_tables.contains(&ti)).await;
                            let mut tot = totals.lock().unwrap();
                            tot.tables += 1;
                            tot.evaluations += r.evaluations;
                            tot.nontrivial_evals += r.nontrivial_evals;
                            tot.distinct_nontrivial += r.distinct_nontrivial;
                            tot.distinct_classes += r.distinct_classes;
                            tot.pct_evals += r.pct_evals;
                            tot.violating_cases += r.violating_cases;
                            for (k, v) in r.by_kind {
                                *tot.by_kind.entry(k).or_default() += v;
                            }
                            tot.violations.extend(r.violations.into_values());
                            if let Some(s) = r.sample {
                                tot.samples.push(json!({"table_index": ti, "case": s}));
                            }
                            if let Some(nd) = r.nondeterministic {
                                tot.nondeterministic.push(nd);
                            }
                            drop(tot);
                            let mut fc = fam_counts.lock().unwrap();
                            let e = fc.entry(*fi).or_default();
                            e.0 += 1;
                            e.1 += r.evaluations;
                        }
                    })
                });
                if let Err(p) = r {
                    let msg = p
                        .downcast_ref::<String>()
                        .cloned()
                        .or_else(|| p.downcast_ref::<&str>().map(|s| s.to_string()))
                        .unwrap_or_else(|| "panic".into());
                    // a panic outside a request (registration / service initialisation) means the
                    // generator produced a table the builder rejects: machinery problem
                    eprintln!("MACHINERY: worker panicked outside a request: {msg}");
                    std::process::exit(2);
                }
            });
        }
    });

    let mut tot = totals.into_inner().unwrap();
    if !tot.nondeterministic.is_empty() {
        tot.nondeterministic.sort();
        machinery(&format!("nondeterministic observation: {}", tot.nondeterministic[0]));
    }
    let capped = capped.load(Ordering::Relaxed);
    let wall = t0.elapsed().as_secs_f64();

    let mut rep = Reporter::new(PROP);
    // deterministic merge: weights are unique per (table, request)
    tot.violations.sort_by_key(|v| v.weight);
    rep.total_violating_cases = 0;
    for v in tot.violations.drain(..) {
        rep.add(v);
    }
    tot.samples.sort_by_key(|s| s["table_index"].as_u64());

    let fam_counts = fam_counts.into_inner().unwrap();
    let fam_json: Vec<_> = fams
        .iter()
        .enumerate()
        .map(|(i, f)| {
            let (tb, ev) = fam_counts.get(&i).copied().unwrap_or((0, 0));
            json!({"family": f.name, "grammar": f.describe, "generated": f.tables.len(), "new_tables_run": tb, "evaluations": ev})
        })
        .collect();

    let mut ev = Evidence::new(PROP, &args.tier, "exploration");
    ev.set("evaluations", tot.evaluations)
        .set("distinct_nontrivial", tot.distinct_nontrivial)
        .set(
            "rule",
            "evaluation = one (route table, request) pair run through the real App and the reference router. \
             Tables: union of the families listed under 'families' (each the full cartesian product of its holes, deduplicated). \
             Requests per table: every path of 1..3 segments over {a,b,s,1,'',a%2Fb,%61,%25} (thorough adds %2f and %2B) and every 4-segment path over {a,s,1}, \
             each with and without trailing slash, x {GET,POST} x x-g {absent,1} x Host {absent,h.test} (header dimensions only varied when the table has such a guard). \
             distinct_nontrivial = number of distinct (table, outcome class) pairs, outcome class = handler tag + captured parameter names + resolved marker (captured values ignored), \
             counted only when non-trivial: the route handler that ran lies inside >= 1 scope and saw >= 1 path parameter, \
             or a default was exercised after a service had captured the request (405 of a matched resource, own/inherited default of a captured scope).",
        )
        .set("samples", tot.samples.clone())
        .set("exhaustive", !capped)
        .set("capped", capped)
        .set("tables", tot.tables)
        .set("tables_in_grammar", n as u64)
        .set("paths_per_table", paths.len() as u64)
        .set("nontrivial_evaluations", tot.nontrivial_evals)
        .set("distinct_outcome_classes", tot.distinct_classes)
        .set("evaluations_with_percent_escape", tot.pct_evals)
        .set("observed_kinds", json!(tot.by_kind))
        .set("families", fam_json)
        .set("violating_cases", tot.violating_cases)
        .set("violation_signatures", rep.summaries())
        .set("threads", threads as u64);
    ev.assume("reference router implements the documented behaviour listed at the top of appx/src/refr.rs")
        .assume("a scope without own default falls back to the nearest enclosing default (literal reading of the statement); the doc of Scope::default_service says 'the default service of the parent App' and the code does that: recorded as known finding default:nested-scope-skips-parent-scope-default; APPX_DOC_DEFAULT=1 switches the reference to the documented behaviour (diagnostic only)")
        .assume("an own default registered further out than the scope that falls back to it may see either the inner or the outer captures/app_data (both accepted)")
        .assume("req.match_pattern() is recorded but not judged (not part of the statement)")
        .assume("x-g / Host request headers are only varied for tables that contain a Header / Host guard");
    ev.wall_s = wall;
    ev.violations = rep.unknown_count() as i64;
    ev.write();

    println!(
        "appx C09 tier={} tables={}/{} evaluations={} nontrivial_evals={} distinct_nontrivial={} violating_cases={} signatures={} (known {}) capped={} wall={:.1}s",
        args.tier,
        tot.tables,
        n,
        tot.evaluations,
        tot.nontrivial_evals,
        tot.distinct_nontrivial,
        tot.violating_cases,
        rep.distinct(),
        rep.known_count(),
        capped,
        wall
    );
    let code = rep.finish();
    std::process::exit(code);
}
