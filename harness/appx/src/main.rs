fn main() {
    eprintln!("MACHINERY: engine appx is not built yet");
    std::process::exit(2);
}
