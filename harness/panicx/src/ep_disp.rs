//! Entry point 8: a real HTTP/1 server connection (`HttpService::build().h1(service)` ->
//! `h1::Dispatcher`) over `mc_core::io::ScriptIo`, default socket answers only (a `Chooser` with an
//! empty prefix), paused clock. Covers the dispatcher's own error paths (400 / 431 / 408 responses,
//! payload errors handed to the handler) for a small set of hostile heads.

use crate::core::*;
use actix_http::body::BoxBody;
use actix_http::{HttpService, Request, Response, StatusCode};
use actix_service::{fn_service, Service, ServiceFactory};
use futures_core::Stream;
use mc_core::io::{IoOpts, IoState, ScriptIo};
use mc_core::wake::WakeCounter;
use mc_core::Chooser;
use std::cell::RefCell;
use std::mem::ManuallyDrop;
use std::future::Future;
use std::pin::Pin;
use std::rc::Rc;
use std::sync::Arc;
use std::task::{Context, Poll};
use std::time::Duration;

type ConnFut = Pin<Box<dyn Future<Output = Result<(), String>>>>;

struct State {
    rt: tokio::runtime::Runtime,
    local: tokio::task::LocalSet,
    connect: Box<dyn Fn(ScriptIo) -> ConnFut>,
    uses: u32,
}

thread_local! {
    static ST: RefCell<Option<ManuallyDrop<State>>> = const { RefCell::new(None) };
}

async fn handle(mut req: Request) -> Result<Response<BoxBody>, actix_http::Error> {
    let mut pl = req.take_payload();
    let mut n = 0usize;
    loop {
        match std::future::poll_fn(|cx| Pin::new(&mut pl).poll_next(cx)).await {
            Some(Ok(b)) => n += b.len(),
            Some(Err(e)) => return Err(e.into()),
            None => break,
        }
    }
    Ok(Response::build(StatusCode::OK).body(format!("len={n}")).map_into_boxed_body())
}

fn make() -> State {
    let rt = tokio::runtime::Builder::new_current_thread()
        .enable_time()
        .start_paused(true)
        .build()
        .unwrap_or_else(|e| mc_core::machinery(format!("runtime: {e}")));
    let local = tokio::task::LocalSet::new();
    let connect: Box<dyn Fn(ScriptIo) -> ConnFut> = local.block_on(&rt, async {
        let factory = HttpService::build().h1(fn_service(handle));
        let svc = match factory.new_service(()).await {
            Ok(s) => Rc::new(s),
            Err(_) => mc_core::machinery("cannot build the h1 service"),
        };
        for _ in 0..4 {
            tokio::task::yield_now().await;
        }
        let f: Box<dyn Fn(ScriptIo) -> ConnFut> = Box::new(move |io: ScriptIo| {
            let fut = svc.call((io, None));
            Box::pin(async move { fut.await.map_err(|e| e.to_string()) })
        });
        f
    });
    State { rt, local, connect, uses: 0 }
}

const TICK_MS: u64 = 500;
const HORIZON_MS: u64 = 12_000;
const SPIN_BOUND: u64 = 5_000;

async fn drive(connect: &dyn Fn(ScriptIo) -> ConnFut, input: &[u8], mode: Mode) -> Out {
    let chooser = Rc::new(RefCell::new(Chooser::new(vec![])));
    let opts = IoOpts { read_alts: false, read_faults: false, write_alts: false, flush_alts: false, shutdown_alts: false, every_offset: false, buffered: false };
    let io = Rc::new(RefCell::new(IoState::new(chooser, opts)));
    let pieces: Vec<Vec<u8>> = mode.pieces(input).into_iter().filter(|p| !p.is_empty()).map(|p| p.to_vec()).collect();
    let mut next_piece = 0usize;
    if let Some(p) = pieces.first() {
        io.borrow_mut().arrive(p);
        next_piece = 1;
    }
    let mut conn = connect(ScriptIo::new(io.clone()));
    let mut wk = WakeCounter::new();
    let waker = wk.waker();
    let mut first = true;
    let mut done: Option<Result<(), String>> = None;
    let mut fin = false;
    let mut now_ms = 0u64;
    let mut polls_since_progress = 0u64;
    let mut total_polls = 0u64;
    loop {
        if first || wk.is_woken() {
            first = false;
            wk.take();
            let before = {
                let i = io.borrow();
                (i.out.len(), i.rpos, i.shutdown_calls)
            };
            let mut cx = Context::from_waker(&waker);
            total_polls += 1;
            if let Poll::Ready(r) = conn.as_mut().poll(&mut cx) {
                done = Some(r);
                break;
            }
            let after = {
                let i = io.borrow();
                (i.out.len(), i.rpos, i.shutdown_calls)
            };
            if before == after {
                polls_since_progress += 1;
                if polls_since_progress > SPIN_BOUND {
                    return Out::Bad {
                        sig: "unbounded-loop:h1::Dispatcher".into(),
                        what: format!("the connection future woke itself {polls_since_progress} times without reading, writing or finishing (t={now_ms}ms)"),
                    };
                }
            } else {
                polls_since_progress = 0;
            }
            // let spawned tasks (date service etc.) run
            tokio::task::yield_now().await;
            continue;
        }
        // quiescent: the environment moves
        polls_since_progress = 0;
        if next_piece < pieces.len() {
            io.borrow_mut().arrive(&pieces[next_piece]);
            next_piece += 1;
        } else if !fin {
            fin = true;
            io.borrow_mut().peer_fin();
        } else if io.borrow().write_waker.is_some() {
            io.borrow_mut().fire_writable();
        } else if now_ms < HORIZON_MS {
            tokio::time::advance(Duration::from_millis(TICK_MS)).await;
            for _ in 0..4 {
                tokio::task::yield_now().await;
            }
            now_ms += TICK_MS;
        } else {
            break;
        }
    }
    drop(conn);
    let out = io.borrow().out.clone();
    // status codes of the responses written
    let mut statuses: Vec<String> = Vec::new();
    let mut i = 0;
    while i + 12 <= out.len() {
        if (i == 0 || out[i - 1] == b'\n') && out[i..].starts_with(b"HTTP/1.") && out[i + 8] == b' ' {
            statuses.push(String::from_utf8_lossy(&out[i + 9..i + 12]).into_owned());
        }
        i += 1;
    }
    statuses.truncate(3);
    let end = match done {
        Some(Ok(())) => "closed-ok".to_string(),
        Some(Err(e)) => {
            let cut = e.find([':', '(', ' ']).unwrap_or(e.len());
            format!("closed-err({})", &e[..cut])
        }
        None => "open-at-horizon".into(),
    };
    std::hint::black_box(total_polls);
    class(format!("responses=[{}] {end}", statuses.join(",")))
}

fn exec(input: &[u8], mode: Mode) -> Out {
    // taken out of the slot while in use: a panic drops it and the next case builds a fresh one
    let mut st = ST.with(|c| c.borrow_mut().take()).map(ManuallyDrop::into_inner).filter(|s| s.uses < 512).unwrap_or_else(make);
    st.uses += 1;
    let out = st.local.block_on(&st.rt, drive(st.connect.as_ref(), input, mode));
    // (never dropped from the thread-local destructor: tokio's own thread-locals may be gone by then)
    ST.with(|c| *c.borrow_mut() = Some(ManuallyDrop::new(st)));
    out
}

pub fn group() -> Group {
    let exec: ExecFn = Arc::new(exec);
    let mk = |name: &str, prefix: &[u8], suffix: &[u8], alphabet: Vec<Vec<u8>>, max: [usize; 2]| Target {
        name: format!("dispatcher:{name}"),
        prefix: prefix.to_vec(),
        suffix: suffix.to_vec(),
        alphabet,
        max_tokens: max,
        seeds: vec![],
        double: false,
        delivery: Delivery::WholeBytes1,
        exec: exec.clone(),
    };
    let big = vec![b'a'; 70_000];
    let mut targets = vec![
        mk(
            "request-line",
            b"",
            b"",
            toks(&[b"GET", b" ", b"/", b"HTTP/1.1", b"HTTP/1.0", b"\r\n", b"\n", b"a:b", b":", b"\0", b"\x80", b"%", b"*", b"\r\n\r\n"]),
            [3, 4],
        ),
        mk(
            "header-section",
            b"POST / HTTP/1.1\r\n",
            b"\r\n\r\n5\r\nhello\r\n0\r\n\r\n",
            toks(&[
                b"a", b":", b" ", b"\r\n", b"Content-Length", b"Transfer-Encoding", b"chunked", b"0", b"5", b",", b"\0", b"\x80", b"Connection",
                b"upgrade", b"Expect", b"100-continue", b"close", b"18446744073709551616",
            ]),
            [3, 4],
        ),
        mk(
            "chunked-body",
            b"POST / HTTP/1.1\r\nTransfer-Encoding: chunked\r\n\r\n",
            b"",
            toks(&[b"0", b"5", b"f", b"ffffffffffffffff", b"10000000000000000", b";", b"\r", b"\n", b"\r\n", b"x", b"hello", b"\0", b"-"]),
            [3, 4],
        ),
        // head larger than the read buffer limit: 431 path
        Target {
            name: "dispatcher:oversize".into(),
            prefix: b"GET /".to_vec(),
            suffix: vec![],
            alphabet: vec![big.clone(), b" HTTP/1.1\r\n".to_vec(), b"X: ".to_vec(), b"\r\n".to_vec(), b"\r\n\r\n".to_vec()],
            max_tokens: [3, 4],
            seeds: vec![],
            double: false,
            delivery: Delivery::Whole,
            exec: exec.clone(),
        },
    ];
    for (name, prefix, suffix) in [
        ("long:header-name", b"GET / HTTP/1.1\r\n".as_ref(), b": x\r\n\r\n".as_ref()),
        ("long:uri", b"GET /", b" HTTP/1.1\r\n\r\n"),
    ] {
        let mut t = mk(name, prefix, suffix, crate::ep_h1::long_alphabet(), [2, 2]);
        t.delivery = Delivery::Whole;
        targets.push(t);
    }
    targets.push(Target {
        name: "dispatcher:seed".into(),
        prefix: vec![],
        suffix: vec![],
        alphabet: vec![],
        max_tokens: [0, 0],
        seeds: crate::ep_h1::server_seeds(),
        double: true,
        delivery: Delivery::WholeBytes1,
        exec,
    });
    Group { name: "dispatcher", targets, setup: None, teardown: None }
}
