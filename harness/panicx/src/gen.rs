//! Enumerations by index (no sampling): token strings in shortlex order, and the single mutations
//! of a seed message (position x operator, plus numeric-field replacements).

#[derive(Clone, Copy, Debug, PartialEq, Eq)]
pub enum FieldKind {
    /// ASCII decimal number (Content-Length value, Range numbers, max-age ...)
    Dec,
    /// ASCII hexadecimal number (chunk size)
    Hex,
    /// 2 raw big-endian bytes (ws 16-bit length)
    Be16,
    /// 8 raw big-endian bytes (ws 64-bit length)
    Be64,
    /// 1 raw byte whose low 7 bits are a length (ws second header byte); bit 7 is preserved
    Len7,
    /// a token whose *length* matters (multipart boundary parameter value)
    Text,
}

#[derive(Clone, Copy, Debug, PartialEq, Eq)]
pub struct Field {
    pub start: usize,
    pub end: usize,
    pub kind: FieldKind,
}

#[derive(Clone, Debug)]
pub struct Seed {
    pub name: &'static str,
    pub bytes: Vec<u8>,
    pub fields: Vec<Field>,
}

/// Building blocks of a seed: plain bytes or a marked numeric field.
pub enum P<'a> {
    B(&'a [u8]),
    Dec(&'a [u8]),
    Hex(&'a [u8]),
    Be16(&'a [u8]),
    Be64(&'a [u8]),
    Len7(&'a [u8]),
    Text(&'a [u8]),
}

pub fn seed(name: &'static str, parts: &[P<'_>]) -> Seed {
    let mut bytes = Vec::new();
    let mut fields = Vec::new();
    for p in parts {
        let (b, k) = match p {
            P::B(b) => (*b, None),
            P::Dec(b) => (*b, Some(FieldKind::Dec)),
            P::Hex(b) => (*b, Some(FieldKind::Hex)),
            P::Be16(b) => (*b, Some(FieldKind::Be16)),
            P::Be64(b) => (*b, Some(FieldKind::Be64)),
            P::Len7(b) => (*b, Some(FieldKind::Len7)),
            P::Text(b) => (*b, Some(FieldKind::Text)),
        };
        if let Some(kind) = k {
            fields.push(Field { start: bytes.len(), end: bytes.len() + b.len(), kind });
        }
        bytes.extend_from_slice(b);
    }
    Seed { name, bytes, fields }
}

pub fn plain(name: &'static str, b: &[u8]) -> Seed {
    Seed { name, bytes: b.to_vec(), fields: vec![] }
}

// ------------------------------------------------------------------------------------------------
// token strings

/// Number of strings of at most `max` tokens over `a` tokens.
pub fn shortlex_count(a: usize, max: usize) -> u64 {
    let mut n = 0u64;
    let mut p = 1u64;
    for _ in 0..=max {
        n += p;
        p = p.saturating_mul(a as u64);
    }
    n
}

/// The idx-th string in shortlex order (shorter first); returns (bytes, number of tokens).
pub fn shortlex_nth(alphabet: &[Vec<u8>], mut idx: u64) -> (Vec<u8>, usize) {
    let a = alphabet.len() as u64;
    let mut k = 0usize;
    let mut p = 1u64;
    while idx >= p {
        idx -= p;
        p *= a;
        k += 1;
    }
    let mut digits = vec![0usize; k];
    for d in digits.iter_mut().rev() {
        *d = (idx % a) as usize;
        idx /= a;
    }
    let mut out = Vec::new();
    for d in digits {
        out.extend_from_slice(&alphabet[d]);
    }
    (out, k)
}

// ------------------------------------------------------------------------------------------------
// mutations

pub const SPECIAL: [u8; 10] = [0x00, 0x0a, 0x0d, 0x20, 0x22, 0x25, 0x2d, 0x3b, 0x80, 0xff];

const DEC_REPL: [&[u8]; 9] = [
    b"0",
    b"65536",
    b"4294967296",
    b"9223372036854775808",
    b"18446744073709551615",
    b"18446744073709551616",
    b"99999999999999999999",
    b"00000000000000000001",
    b"",
];
const HEX_REPL: [&[u8]; 9] = [
    b"0",
    b"10000",
    b"FFFFFFFF",
    b"8000000000000000",
    b"ffffffffffffffff",
    b"10000000000000000",
    b"fffffffffffffffffffff",
    b"00000000000000000001",
    b"",
];
const BE16_REPL: [[u8; 2]; 6] = [[0, 0], [0, 1], [0, 125], [0, 126], [0x80, 0], [0xff, 0xff]];
const BE64_REPL: [u64; 9] = [0, 1, 125, 65536, 1 << 32, 1 << 40, (1 << 63) - 1, 1 << 63, u64::MAX];
const LEN7_REPL: [u8; 5] = [0, 1, 125, 126, 127];
const TEXT_LENS: [usize; 6] = [0, 1, 69, 70, 71, 1000];

fn field_repl_count(k: FieldKind) -> u64 {
    match k {
        // + two sign variants of the original text
        FieldKind::Dec => DEC_REPL.len() as u64 + 2,
        FieldKind::Hex => HEX_REPL.len() as u64 + 2,
        FieldKind::Be16 => BE16_REPL.len() as u64,
        FieldKind::Be64 => BE64_REPL.len() as u64,
        FieldKind::Len7 => LEN7_REPL.len() as u64,
        FieldKind::Text => TEXT_LENS.len() as u64,
    }
}

fn field_repl(orig: &[u8], k: FieldKind, j: usize) -> Vec<u8> {
    let signed = |list: &[&[u8]], j: usize| -> Vec<u8> {
        if j < list.len() {
            list[j].to_vec()
        } else {
            let mut v = vec![if j == list.len() { b'+' } else { b'-' }];
            v.extend_from_slice(orig);
            v
        }
    };
    match k {
        FieldKind::Dec => signed(&DEC_REPL, j),
        FieldKind::Hex => signed(&HEX_REPL, j),
        FieldKind::Be16 => BE16_REPL[j].to_vec(),
        FieldKind::Be64 => BE64_REPL[j].to_be_bytes().to_vec(),
        FieldKind::Len7 => vec![(orig.first().copied().unwrap_or(0) & 0x80) | LEN7_REPL[j]],
        FieldKind::Text => vec![b'a'; TEXT_LENS[j]],
    }
}

pub fn mut_count(bytes: &[u8], fields: &[Field]) -> u64 {
    let n = bytes.len() as u64;
    8 * n + n + n + SPECIAL.len() as u64 * (n + 1) + n + fields.iter().map(|f| field_repl_count(f.kind)).sum::<u64>()
}

pub struct Mutant {
    pub bytes: Vec<u8>,
    /// fields that survive the mutation, at their new offsets
    pub fields: Vec<Field>,
    /// operator class (for input-shape classes)
    pub op: &'static str,
}

/// Shift the fields for an edit that replaced `[at, at + removed)` by `added` bytes.
fn shift(fields: &[Field], at: usize, removed: usize, added: usize, keep: Option<usize>) -> Vec<Field> {
    let mut out = Vec::new();
    for (i, f) in fields.iter().enumerate() {
        if Some(i) == keep {
            out.push(Field { start: f.start, end: f.start + added, kind: f.kind });
        } else if f.end <= at {
            out.push(*f);
        } else if f.start >= at + removed {
            out.push(Field { start: f.start - removed + added, end: f.end - removed + added, kind: f.kind });
        }
        // a field touched by the edit is dropped
    }
    out
}

/// The idx-th single mutation of `bytes` (idx < mut_count).
pub fn mutate(bytes: &[u8], fields: &[Field], mut idx: u64) -> Mutant {
    let n = bytes.len() as u64;
    // bit flips
    if idx < 8 * n {
        let (pos, bit) = ((idx / 8) as usize, (idx % 8) as u32);
        let mut b = bytes.to_vec();
        b[pos] ^= 1 << bit;
        return Mutant { bytes: b, fields: shift(fields, pos, 1, 1, None), op: "flip" };
    }
    idx -= 8 * n;
    if idx < n {
        let pos = idx as usize;
        let mut b = bytes.to_vec();
        b.remove(pos);
        return Mutant { bytes: b, fields: shift(fields, pos, 1, 0, None), op: "del" };
    }
    idx -= n;
    if idx < n {
        let pos = idx as usize;
        let mut b = bytes.to_vec();
        b.insert(pos, bytes[pos]);
        // inserting a copy in front of `pos`: a field containing pos is treated as touched
        return Mutant { bytes: b, fields: shift(fields, pos, 1, 2, None), op: "dup" };
    }
    idx -= n;
    let ins = SPECIAL.len() as u64 * (n + 1);
    if idx < ins {
        let (pos, which) = ((idx / SPECIAL.len() as u64) as usize, (idx % SPECIAL.len() as u64) as usize);
        let mut b = bytes.to_vec();
        b.insert(pos, SPECIAL[which]);
        // fields strictly containing pos are dropped; those starting at pos shift
        let mut fs = Vec::new();
        for f in fields {
            if f.end <= pos {
                fs.push(*f);
            } else if f.start >= pos {
                fs.push(Field { start: f.start + 1, end: f.end + 1, kind: f.kind });
            }
        }
        return Mutant { bytes: b, fields: fs, op: "ins" };
    }
    idx -= ins;
    if idx < n {
        let pos = idx as usize;
        let fs = fields.iter().filter(|f| f.end <= pos).copied().collect();
        return Mutant { bytes: bytes[..pos].to_vec(), fields: fs, op: "trunc" };
    }
    idx -= n;
    for (fi, f) in fields.iter().enumerate() {
        let c = field_repl_count(f.kind);
        if idx < c {
            let repl = field_repl(&bytes[f.start..f.end], f.kind, idx as usize);
            let mut b = Vec::with_capacity(bytes.len() + repl.len());
            b.extend_from_slice(&bytes[..f.start]);
            b.extend_from_slice(&repl);
            b.extend_from_slice(&bytes[f.end..]);
            let fs = shift(fields, f.start, f.end - f.start, repl.len(), Some(fi));
            return Mutant { bytes: b, fields: fs, op: "num" };
        }
        idx -= c;
    }
    mc_core::machinery(format!("mutation index out of range ({} bytes, {} fields)", bytes.len(), fields.len()))
}
