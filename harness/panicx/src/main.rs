//! panicx — decides property C19 ("no peer-controlled input makes the library panic, overflow, slice
//! out of bounds or loop without bound") by bounded-exhaustive enumeration of hostile inputs into
//! every peer-facing parser of the real code. No sampling: every input set is a fully enumerated
//! finite set (token strings in shortlex order, every single / double mutation of a seed corpus),
//! each input delivered whole and fragmented. One sweep per entry point runs in a subprocess of this
//! binary under an address-space cap, so an abort or allocation failure is a reported violation of
//! that sweep instead of the end of the run. See DESIGN.md §4 C19 and ENGINE_GUIDE.md.

mod core;
mod ep_awc;
mod ep_disp;
mod ep_files;
mod ep_h1;
mod ep_hdr;
mod ep_mp;
mod ep_url;
mod ep_ws;
mod gen;
mod hutil;

use crate::core::*;
use mc_core::report::{read_replay, Evidence, Reporter, Violation};
use serde_json::{json, Value};
use std::collections::BTreeMap;
use std::io::Write as _;
use std::os::unix::process::{CommandExt as _, ExitStatusExt as _};
use std::process::{Command, Stdio};
use std::time::{Duration, Instant};

/// (name, relative share of the thorough wall budget)
const GROUPS: [(&str, u32); 9] = [
    ("h1-server", 25),
    ("h1-client", 25),
    ("ws", 15),
    ("multipart", 8),
    ("url", 3),
    ("headers", 6),
    ("files", 4),
    ("dispatcher", 7),
    ("awc", 7),
];

fn build_group(name: &str) -> Option<Group> {
    Some(match name {
        "h1-server" => ep_h1::server_group(),
        "h1-client" => ep_h1::client_group(),
        "ws" => ep_ws::group(),
        "multipart" => ep_mp::group(),
        "url" => ep_url::group(),
        "headers" => ep_hdr::group(),
        "files" => ep_files::group(),
        "dispatcher" => ep_disp::group(),
        "awc" => ep_awc::group(),
        _ => return None,
    })
}

const AS_CAP_BYTES: u64 = 8 << 30;

fn machinery(msg: impl AsRef<str>) -> ! {
    eprintln!("MACHINERY: {}", msg.as_ref());
    std::process::exit(2)
}

fn child_command(args: &[String]) -> Command {
    let exe = std::env::current_exe().unwrap_or_else(|e| machinery(format!("current_exe: {e}")));
    let mut c = Command::new(exe);
    c.args(args);
    unsafe {
        c.pre_exec(|| {
            let lim = libc::rlimit { rlim_cur: AS_CAP_BYTES, rlim_max: AS_CAP_BYTES };
            libc::setrlimit(libc::RLIMIT_AS, &lim);
            // no core files from deliberate aborts
            let z = libc::rlimit { rlim_cur: 0, rlim_max: 0 };
            libc::setrlimit(libc::RLIMIT_CORE, &z);
            Ok(())
        });
    }
    c
}

fn wait_with_deadline(child: &mut std::process::Child, deadline: Instant) -> Option<std::process::ExitStatus> {
    loop {
        match child.try_wait() {
            Ok(Some(st)) => return Some(st),
            Ok(None) => {
                if Instant::now() > deadline {
                    let _ = child.kill();
                    let _ = child.wait();
                    return None;
                }
                std::thread::sleep(Duration::from_millis(20));
            }
            Err(e) => machinery(format!("wait: {e}")),
        }
    }
}

fn status_text(st: &std::process::ExitStatus) -> String {
    match (st.code(), st.signal()) {
        (Some(c), _) => format!("exit code {c}"),
        (None, Some(s)) => format!("signal {s}"),
        _ => "unknown status".into(),
    }
}

// ------------------------------------------------------------------------------------------------
// child: one sweep

fn sweep_main(group_name: &str, tier: &str, result_path: &str, progress_path: &str, budget_s: u64) -> ! {
    install_panic_hook(false);
    let Some(group) = build_group(group_name) else { machinery(format!("unknown entry point {group_name}")) };
    if let Some(f) = group.setup {
        f();
    }
    let seed: u64 = std::env::var("VERIF_SEED").ok().and_then(|s| s.parse().ok()).unwrap_or(0);
    let rp = result_path.to_string();
    let teardown = group.teardown;
    let cfg = SweepCfg {
        thorough: tier == "thorough",
        threads: mc_core::cli::threads(),
        seed,
        deadline: Instant::now() + Duration::from_secs(budget_s),
        progress_path: Some(progress_path.to_string()),
        on_hang: Box::new(move |res: SweepResult| {
            let _ = std::fs::write(&rp, serde_json::to_string(&res).unwrap());
            if let Some(f) = teardown {
                f();
            }
            // the stuck worker cannot be stopped: leave the process
            std::process::exit(3);
        }),
    };
    let res = sweep(&group, cfg);
    if let Some(f) = group.teardown {
        f();
    }
    if let Err(e) = std::fs::write(result_path, serde_json::to_string(&res).unwrap()) {
        machinery(format!("cannot write {result_path}: {e}"));
    }
    std::process::exit(0)
}

/// Re-execute one case named by its coordinates; prints the input before running it.
fn probe_main(group_name: &str, tier: &str, unit: usize, idx: u64, inner: u64, mode: u64) -> ! {
    install_panic_hook(true);
    let Some(group) = build_group(group_name) else { machinery("unknown entry point") };
    if let Some(f) = group.setup {
        f();
    }
    let units = plan(&group, tier == "thorough");
    let Some((ti, input)) = input_at(&group, &units, unit, idx, inner) else { machinery("probe coordinates out of range") };
    let t = &group.targets[ti];
    println!("INPUT {} {}", t.name, hex(&input));
    let _ = std::io::stdout().flush();
    let r = run_case(t, &input, Mode::from_code(mode));
    if let Some(f) = group.teardown {
        f();
    }
    match r {
        Ran::Viol { sig, .. } => println!("VIOL {sig}"),
        _ => println!("DONE"),
    }
    std::process::exit(0)
}

// ------------------------------------------------------------------------------------------------
// replay

fn replay_inner(file: &str) -> ! {
    install_panic_hook(true);
    let doc = read_replay(file);
    let rp = if doc.get("replay").is_some() { doc["replay"].clone() } else { doc.clone() };
    let gname = rp["entry_point"].as_str().unwrap_or("");
    let tname = rp["target"].as_str().unwrap_or("");
    let Some(input) = rp["input_hex"].as_str().and_then(unhex) else { machinery("replay: input_hex missing or malformed") };
    let Some(mode) = rp["mode"].as_str().and_then(Mode::parse) else { machinery("replay: mode missing or malformed") };
    let Some(group) = build_group(gname) else { machinery(format!("replay: unknown entry point {gname:?}")) };
    if let Some(f) = group.setup {
        f();
    }
    let Some(t) = group.targets.iter().find(|t| t.name == tname) else { machinery(format!("replay: unknown target {tname:?}")) };
    println!("entry point: {gname}   target: {tname}   delivery: {}", mode.label());
    println!("input ({} bytes): {}", input.len(), mc_core::show_short(&input, 400));
    let _ = std::io::stdout().flush();
    let (tx, rx) = std::sync::mpsc::channel();
    std::thread::scope(|s| {
        s.spawn(|| {
            let r = run_case(t, &input, mode);
            let _ = tx.send(r);
        });
        let code = match rx.recv_timeout(Duration::from_secs(CASE_TIMEOUT_S)) {
            Ok(Ran::Class(c)) => {
                println!("outcome: {c}");
                println!("REPLAY: no panic, terminated");
                0
            }
            Ok(Ran::Skip) => {
                println!("REPLAY: the input is refused before it reaches this parser (undeliverable)");
                0
            }
            Ok(Ran::Viol { sig, what }) => {
                println!("REPLAY: clause={} signature={sig}", clause_of(&sig));
                println!("  {what}");
                1
            }
            Ok(Ran::Harness(m)) => {
                eprintln!("MACHINERY: {m}");
                2
            }
            Err(_) => {
                println!("REPLAY: clause=terminates signature=unbounded-loop:{tname}");
                println!("  the case did not return within {CASE_TIMEOUT_S} s");
                1
            }
        };
        if let Some(f) = group.teardown {
            f();
        }
        std::process::exit(code)
    })
}

fn replay_main(file: &str) -> i32 {
    let tmp = tempfile::Builder::new().prefix("panicx-").tempdir().unwrap_or_else(|e| machinery(format!("tempdir: {e}")));
    std::env::set_var("PANICX_TMP", tmp.path());
    let mut c = child_command(&["C19".into(), "--replay-inner".into(), file.into()]);
    let st = c.status().unwrap_or_else(|e| machinery(format!("cannot start the replay process: {e}")));
    match st.code() {
        Some(c) => c,
        None => {
            println!("REPLAY: clause=no-abort signature=abort");
            println!("  the process executing the case died with {}", status_text(&st));
            1
        }
    }
}

// ------------------------------------------------------------------------------------------------
// parent

struct GroupRun {
    name: &'static str,
    res: Option<SweepResult>,
    note: String,
    extra_violations: Vec<Violation>,
}

fn abort_violation(group: &str, tier: &str, progress_path: &str, status: &str) -> Vec<Violation> {
    // which of the cases in flight reproduces the death on its own?
    let inflight = read_progress_file(progress_path);
    let mut confirmed: Option<(String, String, Mode, String)> = None;
    let mut candidates = Vec::new();
    for (unit, idx, inner, mode) in inflight.iter().copied() {
        let mut c = child_command(&[
            "C19".into(),
            "--probe".into(),
            group.into(),
            tier.into(),
            unit.to_string(),
            idx.to_string(),
            inner.to_string(),
            mode.code().to_string(),
        ]);
        c.stdout(Stdio::piped()).stderr(Stdio::null());
        let Ok(mut ch) = c.spawn() else { continue };
        let st = wait_with_deadline(&mut ch, Instant::now() + Duration::from_secs(CASE_TIMEOUT_S + 10));
        let mut out = String::new();
        if let Some(mut o) = ch.stdout.take() {
            use std::io::Read as _;
            let _ = o.read_to_string(&mut out);
        }
        let mut it = out.lines().next().unwrap_or("").split(' ');
        let (_, target, hexs) = (it.next(), it.next().unwrap_or("").to_string(), it.next().unwrap_or("").to_string());
        candidates.push(json!({"target": target, "input_hex": hexs, "mode": mode.label()}));
        let died = match &st {
            None => Some("no return (killed after the time cap)".to_string()),
            Some(s) if s.code().is_none() => Some(status_text(s)),
            _ => None,
        };
        if let (Some(d), None) = (died, &confirmed) {
            confirmed = Some((target, hexs, mode, d));
        }
    }
    let (what, replay, weight) = match confirmed {
        Some((target, hexs, mode, d)) => (
            format!("sweep process of entry point {group} died ({status}); re-executed alone, target {target} on input {:?} ({}) dies again: {d}", mc_core::show_short(&unhex(&hexs).unwrap_or_default(), 120), mode.label()),
            json!({"entry_point": group, "target": target, "input_hex": hexs, "mode": mode.label()}),
            (hexs.len() / 2) as u64,
        ),
        None => (
            format!("sweep process of entry point {group} died ({status}); none of the {} cases in flight reproduces it alone", candidates.len()),
            json!({"entry_point": group, "target": candidates.first().map(|c| c["target"].clone()).unwrap_or(Value::Null), "input_hex": candidates.first().map(|c| c["input_hex"].clone()).unwrap_or(json!("")), "mode": candidates.first().map(|c| c["mode"].clone()).unwrap_or(json!("whole")), "in_flight": candidates}),
            u64::MAX / 2,
        ),
    };
    vec![Violation { property: PROP.into(), clause: "no-abort".into(), signature: format!("abort:{group}"), what, replay, weight }]
}

fn run_group(name: &'static str, tier: &str, tmp: &std::path::Path, budget_s: u64) -> GroupRun {
    let result_path = tmp.join(format!("{name}.result.json"));
    let progress_path = tmp.join(format!("{name}.progress"));
    let (rp, pp) = (result_path.to_string_lossy().to_string(), progress_path.to_string_lossy().to_string());
    let mut c = child_command(&["C19".into(), "--sweep".into(), name.into(), tier.into(), rp.clone(), pp.clone(), budget_s.to_string()]);
    c.stdout(Stdio::null());
    let mut child = c.spawn().unwrap_or_else(|e| machinery(format!("cannot start the sweep process for {name}: {e}")));
    // cooperative cap inside the child; hard cap a little later
    let hard = Instant::now() + Duration::from_secs(budget_s + CASE_TIMEOUT_S + 30);
    let st = wait_with_deadline(&mut child, hard);
    let read_result = || -> Option<SweepResult> { std::fs::read_to_string(&rp).ok().and_then(|s| serde_json::from_str(&s).ok()) };
    let mut run = GroupRun { name, res: None, note: String::new(), extra_violations: vec![] };
    match st {
        Some(s) if s.code() == Some(0) => {
            run.res = read_result();
            if run.res.is_none() {
                machinery(format!("sweep {name} exited 0 without a result file"));
            }
        }
        Some(s) if s.code() == Some(3) => {
            // watchdog: a case did not return
            run.res = read_result();
            let hang = run.res.as_ref().and_then(|r| r.hang.clone()).unwrap_or(Value::Null);
            let target = hang["target"].as_str().unwrap_or("?").to_string();
            let input = hang["input_hex"].as_str().and_then(unhex).unwrap_or_default();
            // the watchdog is a wall-clock one: confirm the hang by running the case alone in a
            // fresh process before it becomes a verdict (a stalled machine is not a subject defect)
            let replay_json = json!({"property": PROP, "clause": "terminates", "replay": {"entry_point": name, "target": target, "input_hex": hex(&input), "mode": hang["mode"]}});
            let replay_path = tmp.join(format!("{name}.hang-confirm.json"));
            let _ = std::fs::write(&replay_path, replay_json.to_string());
            let mut cc = child_command(&["C19".into(), tier.into(), "--replay".into(), replay_path.to_string_lossy().to_string()]);
            cc.stdout(Stdio::null()).stderr(Stdio::null());
            let confirmed = match cc.spawn() {
                Ok(mut ch) => match wait_with_deadline(&mut ch, Instant::now() + Duration::from_secs(CASE_TIMEOUT_S + 15)) {
                    Some(st) => st.code() != Some(0),
                    None => true,
                },
                Err(_) => true,
            };
            if !confirmed {
                run.note = format!("the watchdog fired on a case of {target} that returns at once when run alone (machine stall, not a subject defect); the sweep of this entry point was abandoned there, its coverage is incomplete in this run");
                eprintln!("NOTE: {}", run.note);
                return run;
            }
            run.note = format!("a case of {target} did not return within {CASE_TIMEOUT_S} s; the sweep was abandoned there");
            run.extra_violations.push(Violation {
                property: PROP.into(),
                clause: "terminates".into(),
                signature: format!("unbounded-loop:{target}"),
                what: format!("{target} on input {:?} ({}) did not return within {CASE_TIMEOUT_S} s", mc_core::show_short(&input, 120), hang["mode"].as_str().unwrap_or("?")),
                replay: json!({"entry_point": name, "target": target, "input_hex": hex(&input), "mode": hang["mode"]}),
                weight: input.len() as u64,
            });
        }
        Some(s) if s.code() == Some(2) => machinery(format!("sweep process of {name} reported a machinery problem")),
        Some(s) => {
            let status = status_text(&s);
            run.note = format!("sweep process died: {status}");
            run.extra_violations = abort_violation(name, tier, &pp, &status);
        }
        None => {
            run.note = "sweep process exceeded its hard time cap and was killed".into();
            run.extra_violations = abort_violation(name, tier, &pp, "killed at the hard time cap");
        }
    }
    run
}

fn main() {
    let raw: Vec<String> = std::env::args().collect();
    // hidden sub-commands of the re-executed binary
    if raw.len() >= 3 && raw[2] == "--sweep" {
        if raw.len() != 8 {
            machinery("usage: --sweep <entry point> <tier> <result file> <progress file> <budget s>");
        }
        sweep_main(&raw[3], &raw[4], &raw[5], &raw[6], raw[7].parse().unwrap_or(600));
    }
    if raw.len() >= 3 && raw[2] == "--probe" {
        if raw.len() != 9 {
            machinery("usage: --probe <entry point> <tier> <unit> <idx> <inner> <mode>");
        }
        let p = |i: usize| raw[i].parse::<u64>().unwrap_or_else(|_| machinery("probe: bad number"));
        probe_main(&raw[3], &raw[4], p(5) as usize, p(6), p(7), p(8));
    }
    if raw.len() >= 4 && raw[2] == "--replay-inner" {
        replay_inner(&raw[3]);
    }

    let args = mc_core::cli::parse();
    if args.property != PROP {
        machinery(format!("panicx serves C19 only (got {})", args.property));
    }
    if let Some(f) = &args.replay {
        std::process::exit(replay_main(f));
    }
    let thorough = args.tier == "thorough";
    let start = Instant::now();
    let wall_cap = args.wall_s.unwrap_or(if thorough { 24 * 60 } else { 5 * 60 });
    let only: Option<Vec<String>> = std::env::var("PANICX_ONLY").ok().map(|s| s.split(',').map(str::to_string).collect());
    let tmp = tempfile::Builder::new().prefix("panicx-").tempdir().unwrap_or_else(|e| machinery(format!("tempdir: {e}")));
    // sweep processes put their scratch files (test files of the files entry point) below it
    std::env::set_var("PANICX_TMP", tmp.path());

    let mut runs: Vec<GroupRun> = Vec::new();
    let mut weight_left: u32 = GROUPS.iter().map(|g| g.1).sum();
    for (name, w) in GROUPS {
        let remaining = wall_cap.saturating_sub(start.elapsed().as_secs());
        let budget = (remaining * w as u64 / weight_left.max(1) as u64).max(5);
        weight_left -= w;
        if let Some(o) = &only {
            if !o.iter().any(|x| x == name) {
                continue;
            }
        }
        let t0 = Instant::now();
        let run = run_group(name, &args.tier, tmp.path(), budget);
        eprintln!(
            "  sweep {name}: {} evaluations, {} non-trivial classes, complete={} in {:.1}s{}{}",
            run.res.as_ref().map(|r| r.evaluations).unwrap_or(0),
            run.res.as_ref().map(|r| r.nontrivial.len()).unwrap_or(0),
            run.res.as_ref().map(|r| r.complete).unwrap_or(false),
            t0.elapsed().as_secs_f64(),
            if run.note.is_empty() { "" } else { " — " },
            run.note
        );
        runs.push(run);
    }
    let _ = tmp.close();

    // aggregate
    let mut rep = Reporter::new(PROP);
    let mut evaluations = 0u64;
    let mut skipped = 0u64;
    let mut nontrivial = 0u64;
    let mut nontrivial_cases = 0u64;
    let mut violating_cases = 0u64;
    let mut samples: Vec<Value> = Vec::new();
    let mut per_ep = BTreeMap::new();
    let mut exhaustive = only.is_none();
    let mut capped = false;
    let mut targets_total = 0usize;
    for run in &runs {
        let mut ep = json!({"note": run.note});
        match &run.res {
            Some(r) => {
                if let Some(m) = &r.machinery {
                    machinery(format!("sweep {}: {m}", run.name));
                }
                evaluations += r.evaluations;
                skipped += r.skipped_undeliverable;
                nontrivial += r.nontrivial.len() as u64;
                nontrivial_cases += r.nontrivial_cases;
                violating_cases += r.violating_cases;
                exhaustive &= r.complete;
                capped |= r.capped;
                targets_total += r.evals_by_target.len();
                rep.add_all(r.violations.iter().cloned());
                // a few actual inputs per entry point: the first sample of distinct targets
                let mut seen = std::collections::BTreeSet::new();
                for s in &r.samples {
                    if seen.len() < 4 && seen.insert(s.target.clone()) {
                        samples.push(json!({"entry_point": run.name, "target": s.target, "input": s.input, "delivery": s.mode, "outcome": s.outcome}));
                    }
                }
                let mut by_target = serde_json::Map::new();
                for (t, n) in &r.evals_by_target {
                    let oc = r.outcomes.get(t).cloned().unwrap_or_default();
                    let mut top: Vec<(&String, &u64)> = oc.iter().collect();
                    top.sort_by(|a, b| b.1.cmp(a.1).then(a.0.cmp(b.0)));
                    let top: serde_json::Map<String, Value> = top.into_iter().take(8).map(|(k, v)| (k.clone(), json!(v))).collect();
                    by_target.insert(t.clone(), json!({"evaluations": n, "outcome_classes": oc.len(), "most_frequent_outcomes": top}));
                }
                ep["evaluations"] = json!(r.evaluations);
                ep["distinct_nontrivial"] = json!(r.nontrivial.len());
                ep["nontrivial_cases"] = json!(r.nontrivial_cases);
                ep["skipped_undeliverable"] = json!(r.skipped_undeliverable);
                ep["units"] = json!(format!("{}/{}", r.units_done, r.units_total));
                ep["complete"] = json!(r.complete);
                ep["capped"] = json!(r.capped);
                ep["wall_s"] = json!((r.wall_s * 10.0).round() / 10.0);
                ep["violating_cases"] = json!(r.violating_cases);
                ep["targets"] = Value::Object(by_target);
            }
            None => {
                exhaustive = false;
                ep["complete"] = json!(false);
            }
        }
        if !run.extra_violations.is_empty() {
            exhaustive = false;
        }
        rep.add_all(run.extra_violations.iter().cloned());
        per_ep.insert(run.name.to_string(), ep);
    }
    let wall = start.elapsed().as_secs_f64();

    let mut ev = Evidence::new(PROP, &args.tier, "exploration");
    ev.set("evaluations", evaluations)
        .set("distinct_nontrivial", nontrivial)
        .set(
            "rule",
            "No sampling. Per target (a parser behind one of the 9 entry points, optionally inside a fixed valid template) the engine runs (i) EVERY string of at most L tokens over that parser's token alphabet (L per target: 4 in quick, 5 in thorough for the main targets, one less for the replicated ones; see per_entry_point) and (ii) for every seed message EVERY single mutation — position x {flip each of 8 bits, delete, duplicate, insert each of 00 0a 0d 20 22 25 2d 3b 80 ff, truncate here} plus every marked numeric field (Content-Length, chunk size, ws length forms, Range numbers, boundary length) replaced by 0, 65536, 2^32, 2^63, 2^64-1, 2^64, 20 digits, leading +/-, empty — and in thorough EVERY double mutation (a second single mutation of each single mutant) for the targets marked double. Each input is delivered whole and, for streamed parsers, as 1-byte fragments and (short inputs) at every single cut. evaluations = executions (input x delivery) that reached the parser; inputs the HTTP/1 decoder refuses before a typed parser sees them are counted in skipped_undeliverable, not here. distinct_nontrivial = number of distinct (target, outcome class, input-shape class, delivery kind) tuples among NON-TRIVIAL executions, counted with a hash set; outcome class = how far the parser got and how it ended (items decoded, Ok variant, which Err variant, response status); input-shape class = number of tokens, or (seed, mutation operator[s]); an execution is non-trivial when its outcome class differs from the outcome of the target's empty token string (the parser got past its first token).",
        )
        .set("samples", Value::Array(samples))
        .set("exhaustive", exhaustive)
        .set("capped", capped)
        .set("nontrivial_executions", nontrivial_cases)
        .set("skipped_undeliverable", skipped)
        .set("targets", targets_total as u64)
        .set("entry_points", runs.len() as u64)
        .set("per_entry_point", json!(per_ep))
        .set("violating_cases", violating_cases)
        .set("violations", json!(rep.summaries()))
        .set("threads", mc_core::cli::threads() as u64)
        .set("case_timeout_s", CASE_TIMEOUT_S)
        .set("address_space_cap_bytes", AS_CAP_BYTES);
    ev.assume("ws::Codec / ws::Parser are swept under max_size in {0, 1, 125, 126, 65536, 16 MiB}; a server configured with a practically unlimited max_size (e.g. usize::MAX) is outside the enumerated configurations")
        .assume("the statement's 'random bytes' are replaced by bounded-exhaustive token strings and mutations: a coverage statement for the bound, not a claim about all byte strings")
        .assume("header values reach typed parsers only through the real HTTP/1 request decoder (a value it refuses cannot be delivered by a peer); FromStr parsers are called only with what HeaderValue::to_str admits")
        .assume("multipart: a parked Pending after the source ended is property C15's subject and is an outcome class here; only a busy loop beyond the poll bound or a panic is a C19 violation")
        .assume("debug assertions and overflow checks are on: a failed debug_assert or an arithmetic overflow is a panic");
    ev.wall_s = wall;
    ev.violations = rep.unknown_count() as i64;
    ev.write();

    println!(
        "panicx C19 tier={} evaluations={} distinct_nontrivial={} targets={} skipped_undeliverable={} violating_cases={} exhaustive={} capped={} wall={:.1}s",
        args.tier, evaluations, nontrivial, targets_total, skipped, violating_cases, exhaustive, capped, wall
    );
    for run in &runs {
        if let Some(r) = &run.res {
            println!("  {}: {} evaluations, {} classes, units {}/{}, {:.1}s{}", run.name, r.evaluations, r.nontrivial.len(), r.units_done, r.units_total, r.wall_s, if r.complete { "" } else { " (INCOMPLETE)" });
        } else {
            println!("  {}: no result ({})", run.name, run.note);
        }
    }
    std::process::exit(rep.finish());
}
