fn main() {
    eprintln!("MACHINERY: engine panicx is not built yet");
    std::process::exit(2);
}
