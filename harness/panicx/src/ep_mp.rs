//! Entry point 4: `actix_multipart::Multipart` over a scripted, finite in-memory stream. The
//! consumer is polled by hand with a counting waker; the poll bound is the "unbounded loop" oracle.
//! A *parked* Pending once the source is exhausted (no wake-up requested) is the subject of C15 and
//! is recorded as an outcome class here, not as a violation.

use crate::core::*;
use crate::gen::{plain, seed, Seed, P};
use actix_multipart::Multipart;
use actix_web::error::PayloadError;
use actix_web::http::header::{HeaderMap, HeaderValue, CONTENT_TYPE};
use bytes::Bytes;
use futures_core::Stream;
use mc_core::wake::WakeCounter;
use std::cell::Cell;
use std::collections::VecDeque;
use std::pin::Pin;
use std::rc::Rc;
use std::sync::Arc;
use std::task::{Context, Poll};

/// Upper end of the poll bound. A terminating run needs about one poll per field and per chunk (the
/// scripted source never answers Pending), so the bound per case is 1000 + 64 x body length, at most
/// this value.
pub const POLL_BOUND: u64 = 200_000;

struct Src {
    chunks: VecDeque<Bytes>,
    exhausted: Rc<Cell<bool>>,
    pulls: Rc<Cell<u64>>,
}

impl Stream for Src {
    type Item = Result<Bytes, PayloadError>;
    fn poll_next(mut self: Pin<&mut Self>, _cx: &mut Context<'_>) -> Poll<Option<Self::Item>> {
        self.pulls.set(self.pulls.get() + 1);
        match self.chunks.pop_front() {
            Some(b) => Poll::Ready(Some(Ok(b))),
            None => {
                self.exhausted.set(true);
                Poll::Ready(None)
            }
        }
    }
}

fn err_kind(e: &dyn std::fmt::Debug) -> String {
    let d = format!("{e:?}");
    let cut = d.find(['(', '{', ' ', '"']).unwrap_or(d.len());
    d[..cut].to_string()
}

/// `read_fields`: read every field to its end; otherwise drop each field at once.
fn run(content_type: &[u8], body: &[u8], mode: Mode, read_fields: bool) -> Out {
    let Ok(hv) = HeaderValue::from_bytes(content_type) else { return Out::Skip };
    let mut headers = HeaderMap::new();
    headers.insert(CONTENT_TYPE, hv);
    let exhausted = Rc::new(Cell::new(false));
    let pulls = Rc::new(Cell::new(0u64));
    let chunks: VecDeque<Bytes> = mode.pieces(body).into_iter().filter(|p| !p.is_empty()).map(Bytes::copy_from_slice).collect();
    let src = Src { chunks, exhausted: exhausted.clone(), pulls: pulls.clone() };
    let mut mp = Multipart::new(&headers, src);
    let mut wk = WakeCounter::new();
    let waker = wk.waker();
    let mut cx = Context::from_waker(&waker);
    let mut polls = 0u64;
    let poll_bound = POLL_BOUND.min(1000 + 64 * body.len() as u64);
    let (mut fields, mut chunks_out, mut bytes_out) = (0u32, 0u64, 0usize);
    let mut touched = 0usize;
    let busy = |polls: u64, where_: &str| Out::Bad {
        sig: format!("unbounded-loop:multipart:{where_}"),
        what: format!("{polls} polls of a {}-byte body did not finish ({where_})", body.len()),
    };
    let end: String = 'outer: loop {
        polls += 1;
        if polls > poll_bound {
            return busy(polls, "Multipart::poll_next");
        }
        match Pin::new(&mut mp).poll_next(&mut cx) {
            Poll::Pending => {
                if wk.take() {
                    continue;
                }
                break if exhausted.get() { "parked-after-eof".into() } else { "parked".into() };
            }
            Poll::Ready(None) => break "end".into(),
            Poll::Ready(Some(Err(e))) => break format!("Err({})", err_kind(&e)),
            Poll::Ready(Some(Ok(mut field))) => {
                fields += 1;
                touched += field.name().map(str::len).unwrap_or(0);
                touched += field.headers().len();
                touched += field.content_type().map(|m| m.as_ref().len()).unwrap_or(0);
                touched += field.content_disposition().map(|cd| cd.parameters.len()).unwrap_or(0);
                if !read_fields {
                    drop(field);
                    continue;
                }
                loop {
                    polls += 1;
                    if polls > poll_bound {
                        return busy(polls, "Field::poll_next");
                    }
                    match Pin::new(&mut field).poll_next(&mut cx) {
                        Poll::Pending => {
                            if wk.take() {
                                continue;
                            }
                            break 'outer if exhausted.get() { "field-parked-after-eof".into() } else { "field-parked".into() };
                        }
                        Poll::Ready(None) => break,
                        Poll::Ready(Some(Ok(b))) => {
                            chunks_out += 1;
                            bytes_out += b.len();
                        }
                        Poll::Ready(Some(Err(e))) => break 'outer format!("FieldErr({})", err_kind(&e)),
                    }
                }
            }
        }
    };
    std::hint::black_box((touched, bytes_out, pulls.get()));
    class(format!("fields={} chunks={} {end}", fields.min(3), chunks_out.min(2)))
}

const CT: &[u8] = b"multipart/form-data; boundary=abc";
const BODY: &[u8] = b"--abc\r\nContent-Disposition: form-data; name=\"a\"\r\n\r\nvalue\r\n--abc--\r\n";

fn body_seeds() -> Vec<Seed> {
    vec![
        seed(
            "two-fields",
            &[
                P::B(b"preamble\r\n--abc\r\nContent-Disposition: form-data; name=\"a\"\r\nContent-Length: "),
                P::Dec(b"5"),
                P::B(b"\r\n\r\nhello\r\n--abc\r\nContent-Disposition: form-data; name=\"f\"; filename=\"x.txt\"\r\nContent-Type: text/plain\r\n\r\nfile\r\ndata\r\n--abc--\r\nepilogue"),
            ],
        ),
        plain("empty-field", b"--abc\r\nContent-Disposition: form-data; name=\"e\"\r\n\r\n\r\n--abc--\r\n"),
        plain("mixed", b"--abc\r\nContent-Type: multipart/mixed; boundary=in\r\n\r\n--in\r\n\r\nx\r\n--in--\r\n--abc--\r\n"),
    ]
}

pub fn group() -> Group {
    let mut targets = Vec::new();
    for read_fields in [true, false] {
        let how = if read_fields { "read" } else { "drop" };
        let exec: ExecFn = Arc::new(move |inp: &[u8], m: Mode| run(CT, inp, m, read_fields));
        targets.push(Target {
            name: format!("multipart:{how}:body"),
            prefix: vec![],
            suffix: vec![],
            alphabet: toks(&[
                b"--abc", b"--", b"\r\n", b"\n", b"\r", b"Content-Disposition: form-data; name=\"a\"", b"Content-Type: text/plain",
                b"Content-Length: 5", b"Content-Length: 18446744073709551616", b"x", b"--abc--", b"-", b"abc", b":", b"\0", b"\x80",
            ]),
            max_tokens: if read_fields { [4, 5] } else { [3, 4] },
            seeds: body_seeds(),
            double: read_fields,
            delivery: Delivery::WholeBytes1,
            exec,
        });
        // after a first boundary: the header block and the field body
        let exec: ExecFn = Arc::new(move |inp: &[u8], m: Mode| run(CT, inp, m, read_fields));
        targets.push(Target {
            name: format!("multipart:{how}:after-boundary"),
            prefix: b"--abc\r\n".to_vec(),
            suffix: vec![],
            alphabet: toks(&[
                b"Content-Disposition", b":", b" ", b"form-data", b";", b"name=", b"\"", b"a", b"\r\n", b"\r\n\r\n", b"--abc", b"--abc--", b"\n",
                b"Content-Length", b"5", b"\x80", b"\0", b"filename*=utf-8''%",
            ]),
            max_tokens: if read_fields { [4, 5] } else { [3, 4] },
            seeds: vec![],
            double: false,
            delivery: Delivery::WholeBytes1,
            exec,
        });
    }
    // hostile Content-Type / boundary parameter with a fixed body
    let exec: ExecFn = Arc::new(move |inp: &[u8], m: Mode| run(inp, BODY, m, true));
    targets.push(Target {
        name: "multipart:content-type:boundary-param".into(),
        prefix: b"multipart/form-data; boundary=".to_vec(),
        suffix: vec![],
        alphabet: toks(&[
            b"abc", b"a", b"\"", b"\\", b";", b"=", b" ", b",", b"-", b"--", b"\x80", b"boundary=", b"%", b"(", b"/", b"\t", b"*",
            b"aaaaaaaaaaaaaaaaaaaaaaaaaaaaaaaaaaaaaaaaaaaaaaaaaaaaaaaaaaaaaaaaaaaaaaaaaaa",
        ]),
        max_tokens: [3, 4],
        seeds: vec![seed("ct", &[P::B(b"multipart/form-data; charset=utf-8; boundary=\""), P::Text(b"abc"), P::B(b"\"")])],
        double: true,
        delivery: Delivery::WholeBytes1,
        exec: exec.clone(),
    });
    targets.push(Target {
        name: "multipart:content-type:raw".into(),
        prefix: vec![],
        suffix: vec![],
        alphabet: toks(&[
            b"multipart/", b"form-data", b"mixed", b";", b" ", b"boundary", b"=", b"\"", b"abc", b"\\", b",", b"/", b"*", b"charset=utf-8",
            b"\x80", b"\t",
        ]),
        max_tokens: [4, 5],
        seeds: vec![],
        double: false,
        delivery: Delivery::Whole,
        exec,
    });
    // a body whose delimiter really is the hostile boundary: "--" + b + CRLF ... built from the value
    let exec: ExecFn = Arc::new(move |inp: &[u8], m: Mode| {
        let mut ct = b"multipart/form-data; boundary=".to_vec();
        ct.extend_from_slice(inp);
        let mut body = b"--".to_vec();
        body.extend_from_slice(inp);
        body.extend_from_slice(b"\r\nContent-Disposition: form-data; name=\"a\"\r\n\r\nvalue\r\n--");
        body.extend_from_slice(inp);
        body.extend_from_slice(b"--\r\n");
        run(&ct, &body, m, true)
    });
    targets.push(Target {
        name: "multipart:matching-boundary".into(),
        prefix: vec![],
        suffix: vec![],
        alphabet: toks(&[b"a", b"-", b"--", b"\"", b" ", b"'", b"(", b")", b"+", b"_", b",", b"/", b":", b"=", b"?", b"\r", b"\n", b"\x80"]),
        max_tokens: [3, 4],
        seeds: vec![],
        double: false,
        delivery: Delivery::WholeBytes1,
        exec,
    });
    Group { name: "multipart", targets, setup: None, teardown: None }
}
