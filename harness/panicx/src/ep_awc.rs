//! Entry point 9: hostile response bytes read by a real `awc::Client` over an in-memory connector
//! (the seam `Connector::connector(service)` with `mc_core::io::ScriptIo` sockets). The scripted
//! server answers each request head with the input bytes (whole or byte by byte) and then closes.
//! Kept small: the response *decoder* is swept in depth by the h1-client entry point; this one
//! covers what sits above it (connection handling, redirects, cookies, decompression, body reader).

use crate::core::*;
use crate::gen::{plain, seed, Seed, P};
use actix_tls::connect::{ConnectError as TcpConnectError, ConnectInfo, Connection as TcpConnection};
use mc_core::io::{IoOpts, IoState, ScriptIo};
use mc_core::Chooser;
use std::cell::RefCell;
use std::mem::ManuallyDrop;
use std::pin::Pin;
use std::task::{Context, Poll};
use std::rc::Rc;
use std::sync::Arc;
use std::time::Duration;

/// `Connector::connector` wants a `Debug` stream.
struct DbgIo(ScriptIo);

impl std::fmt::Debug for DbgIo {
    fn fmt(&self, f: &mut std::fmt::Formatter<'_>) -> std::fmt::Result {
        f.write_str("ScriptIo")
    }
}

impl tokio::io::AsyncRead for DbgIo {
    fn poll_read(mut self: Pin<&mut Self>, cx: &mut Context<'_>, buf: &mut tokio::io::ReadBuf<'_>) -> Poll<std::io::Result<()>> {
        Pin::new(&mut self.0).poll_read(cx, buf)
    }
}

impl tokio::io::AsyncWrite for DbgIo {
    fn poll_write(mut self: Pin<&mut Self>, cx: &mut Context<'_>, buf: &[u8]) -> Poll<std::io::Result<usize>> {
        Pin::new(&mut self.0).poll_write(cx, buf)
    }
    fn poll_flush(mut self: Pin<&mut Self>, cx: &mut Context<'_>) -> Poll<std::io::Result<()>> {
        Pin::new(&mut self.0).poll_flush(cx)
    }
    fn poll_shutdown(mut self: Pin<&mut Self>, cx: &mut Context<'_>) -> Poll<std::io::Result<()>> {
        Pin::new(&mut self.0).poll_shutdown(cx)
    }
}

impl actix_rt::net::ActixStream for DbgIo {
    fn poll_read_ready(&self, cx: &mut Context<'_>) -> Poll<std::io::Result<actix_rt::net::Ready>> {
        self.0.poll_read_ready(cx)
    }
    fn poll_write_ready(&self, cx: &mut Context<'_>) -> Poll<std::io::Result<actix_rt::net::Ready>> {
        self.0.poll_write_ready(cx)
    }
}

struct State {
    rt: tokio::runtime::Runtime,
    local: tokio::task::LocalSet,
    uses: u32,
}

thread_local! {
    static ST: RefCell<Option<ManuallyDrop<State>>> = const { RefCell::new(None) };
}

fn make() -> State {
    let rt = tokio::runtime::Builder::new_current_thread()
        .enable_time()
        .start_paused(true)
        .build()
        .unwrap_or_else(|e| mc_core::machinery(format!("runtime: {e}")));
    State { rt, local: tokio::task::LocalSet::new(), uses: 0 }
}

const HOUR: Duration = Duration::from_secs(3600);

async fn settle() {
    // paused clock: completes only when every other task is idle
    tokio::time::sleep(Duration::from_millis(1)).await;
}

struct ConnRec {
    st: Rc<RefCell<IoState>>,
    answered: bool,
    next_piece: usize,
    fin: bool,
}

fn err_kind(d: String) -> String {
    let cut = d.find(['{', '"', '\'', '(']).unwrap_or(d.len());
    let mut s = d[..cut].trim().to_string();
    s.truncate(40);
    s
}

async fn consume(client: awc::Client) -> String {
    let res = client.get("http://srv.test/r").send().await;
    let mut resp = match res {
        Err(e) => return format!("SendErr({})", err_kind(format!("{e:?}"))),
        Ok(r) => r,
    };
    let status = resp.status().as_u16();
    // accessors that parse response headers on demand
    let mut acc = 0u32;
    acc |= resp.headers().len().min(1) as u32;
    acc |= (awc::http::header::HeaderMap::len(resp.headers()) > 3) as u32;
    {
        use actix_http::HttpMessage as _;
        acc |= (resp.mime_type().is_ok() as u32) << 1;
        acc |= (resp.encoding().is_ok() as u32) << 2;
        acc |= (resp.cookies().map(|c| !c.is_empty()).unwrap_or(false) as u32) << 3;
        acc |= (matches!(resp.chunked(), Ok(true)) as u32) << 4;
    }
    let body = match resp.body().limit(1 << 20).await {
        Ok(b) => format!("Ok({})", b.len().min(99)),
        Err(e) => format!("Err({})", err_kind(format!("{e:?}"))),
    };
    format!("status={status} acc={acc:02x} body={body}")
}

async fn drive(input: &[u8], mode: Mode) -> Out {
    let conns: Rc<RefCell<Vec<ConnRec>>> = Rc::new(RefCell::new(Vec::new()));
    let opts = IoOpts { read_alts: false, read_faults: false, write_alts: false, flush_alts: false, shutdown_alts: false, every_offset: false, buffered: false };
    let svc = {
        let conns = conns.clone();
        actix_service::fn_service(move |info: ConnectInfo<awc::http::Uri>| {
            let chooser = Rc::new(RefCell::new(Chooser::new(vec![])));
            let st = Rc::new(RefCell::new(IoState::new(chooser, opts.clone())));
            conns.borrow_mut().push(ConnRec { st: st.clone(), answered: false, next_piece: 0, fin: false });
            let io = DbgIo(ScriptIo::new(st));
            let uri = info.request().clone();
            async move { Ok::<_, TcpConnectError>(TcpConnection::new(uri, io)) }
        })
    };
    let connector = awc::Connector::new().connector(svc).timeout(HOUR).conn_keep_alive(HOUR).conn_lifetime(HOUR);
    let client = awc::Client::builder().connector(connector).timeout(HOUR).finish();
    let handle = tokio::task::spawn_local(consume(client.clone()));
    let pieces: Vec<Vec<u8>> = mode.pieces(input).into_iter().filter(|p| !p.is_empty()).map(|p| p.to_vec()).collect();
    // every redirect hop is answered with the same bytes; awc follows at most 10
    let max_steps = (pieces.len() + 4) * 14 + 40;
    let mut finished = false;
    for _ in 0..max_steps {
        settle().await;
        if handle.is_finished() {
            finished = true;
            break;
        }
        let mut cs = conns.borrow_mut();
        for c in cs.iter_mut() {
            let mut st = c.st.borrow_mut();
            if !c.answered {
                if st.out.windows(4).any(|w| w == b"\r\n\r\n") {
                    c.answered = true;
                } else {
                    continue;
                }
            }
            if c.next_piece < pieces.len() {
                st.arrive(&pieces[c.next_piece]);
                c.next_piece += 1;
            } else if !c.fin {
                c.fin = true;
                st.peer_fin();
            }
        }
    }
    let out = if finished {
        match handle.await {
            Ok(s) => class(s),
            Err(e) if e.is_panic() => std::panic::resume_unwind(e.into_panic()),
            Err(_) => class("cancelled"),
        }
    } else {
        handle.abort();
        class("client-still-waiting")
    };
    drop(client);
    settle().await;
    out
}

fn exec(input: &[u8], mode: Mode) -> Out {
    let mut st = ST.with(|c| c.borrow_mut().take()).map(ManuallyDrop::into_inner).filter(|s| s.uses < 256).unwrap_or_else(make);
    st.uses += 1;
    let out = st.local.block_on(&st.rt, drive(input, mode));
    // (never dropped from the thread-local destructor: tokio's own thread-locals may be gone by then)
    ST.with(|c| *c.borrow_mut() = Some(ManuallyDrop::new(st)));
    out
}

fn gzip(data: &[u8]) -> Vec<u8> {
    use std::io::Write as _;
    let mut e = flate2::write::GzEncoder::new(Vec::new(), flate2::Compression::default());
    let _ = e.write_all(data);
    e.finish().unwrap_or_default()
}

fn seeds() -> Vec<Seed> {
    let gz = gzip(b"hello hello hello hello");
    let gzlen = gz.len().to_string();
    let mut v = crate::ep_h1::client_seeds();
    v.push(seed(
        "redirect",
        &[P::B(b"HTTP/1.1 302 Found\r\nLocation: http://srv.test/next?x=1\r\nSet-Cookie: a=b; Max-Age="), P::Dec(b"3600"), P::B(b"; Path=/\r\nContent-Length: "), P::Dec(b"0"), P::B(b"\r\n\r\n")],
    ));
    v.push(seed(
        "gzip",
        &[P::B(b"HTTP/1.1 200 OK\r\nContent-Type: text/plain; charset=utf-8\r\nContent-Encoding: gzip\r\nContent-Length: "), P::Dec(gzlen.as_bytes()), P::B(b"\r\n\r\n"), P::B(&gz)],
    ));
    v.push(plain("cookies", b"HTTP/1.1 200 OK\r\nSet-Cookie: sid=\"a b\"; Expires=Wed, 21 Oct 2015 07:28:00 GMT; Secure\r\nSet-Cookie: x=%E2%82%AC\r\nContent-Length: 0\r\n\r\n"))
    ;
    v
}

pub fn group() -> Group {
    let exec: ExecFn = Arc::new(exec);
    let mk = |name: &str, prefix: &[u8], suffix: &[u8], alphabet: Vec<Vec<u8>>, max: [usize; 2]| Target {
        name: format!("awc:{name}"),
        prefix: prefix.to_vec(),
        suffix: suffix.to_vec(),
        alphabet,
        max_tokens: max,
        seeds: vec![],
        double: false,
        delivery: Delivery::WholeBytes1,
        exec: exec.clone(),
    };
    let mut targets = vec![
        mk(
            "status-line",
            b"",
            b"",
            toks(&[b"HTTP/1.1", b"HTTP/1.0", b" ", b"200", b"302", b"100", b"999", b"\r\n", b"\n", b"a:b", b"\0", b"\x80", b"\r\n\r\n", b"x"]),
            [3, 3],
        ),
        mk(
            "location",
            b"HTTP/1.1 302 Found\r\nLocation:",
            b"\r\nContent-Length: 0\r\n\r\n",
            toks(&[b"/", b"//", b"http:", b"https:", b"srv.test", b":", b"@", b"?", b"#", b"%", b" ", b"\x80", b"[", b"]", b"..", b"a", b"\t", b"65536"]),
            [3, 4],
        ),
        mk(
            "set-cookie",
            b"HTTP/1.1 200 OK\r\nContent-Length: 0\r\nSet-Cookie:",
            b"\r\n\r\n",
            toks(&[
                b"a", b"=", b";", b" ", b"\"", b"%", b"Max-Age=", b"Expires=", b"18446744073709551616", b"-1", b"Wed, 21 Oct 2015 07:28:00 GMT",
                b"\x80", b",", b"Path=", b"/", b"%e2%82",
            ]),
            [3, 4],
        ),
        mk(
            "content-encoding",
            b"HTTP/1.1 200 OK\r\nContent-Length: 5\r\nContent-Encoding:",
            b"\r\n\r\n\x1f\x8b\x08\x00\x00",
            toks(&[b"gzip", b"br", b"zstd", b"deflate", b"identity", b",", b" ", b"x", b"\x80", b";", b"q=0", b"GZIP"]),
            [3, 3],
        ),
    ];
    let mut t = mk("long:header-name", b"HTTP/1.1 200 OK\r\nContent-Length: 0\r\n", b": x\r\n\r\n", crate::ep_h1::long_alphabet(), [2, 2]);
    t.delivery = Delivery::Whole;
    targets.push(t);
    targets.push(Target {
        name: "awc:seed".into(),
        prefix: vec![],
        suffix: vec![],
        alphabet: vec![],
        max_tokens: [0, 0],
        seeds: seeds(),
        double: false,
        delivery: Delivery::WholeBytes1,
        exec,
    });
    // thorough: every double mutation of two short responses
    let exec2 = targets[0].exec.clone();
    targets.push(Target {
        name: "awc:seed:short".into(),
        prefix: vec![],
        suffix: vec![],
        alphabet: vec![],
        max_tokens: [0, 0],
        seeds: vec![
            seed("cl", &[P::B(b"HTTP/1.1 200 OK\r\nContent-Length: "), P::Dec(b"2"), P::B(b"\r\n\r\nok")]),
            seed("redirect", &[P::B(b"HTTP/1.1 302 Found\r\nLocation: /n?x=1\r\nContent-Length: "), P::Dec(b"0"), P::B(b"\r\n\r\n")]),
        ],
        double: true,
        delivery: Delivery::WholeBytes1,
        exec: exec2,
    });
    Group { name: "awc", targets, setup: None, teardown: None }
}
