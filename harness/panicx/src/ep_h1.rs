//! Entry points 1 and 2: the HTTP/1 server request decoder (`h1::Codec`) and the client response
//! decoder (`h1::ClientCodec` + `ClientPayloadCodec`), driven as tokio `Decoder`s exactly like
//! `Framed` drives them: append bytes, decode until `Ok(None)` / `Err`.

use crate::core::*;
use crate::gen::{plain, seed, Seed, P};
use actix_http::body::BodySize;
use actix_http::h1::{self, ClientCodec, ClientPayloadCodec, Message, MessageType};
use actix_http::{HttpMessage as _, Method, RequestHead, RequestHeadType};
use bytes::BytesMut;
use std::sync::Arc;
use tokio_util::codec::{Decoder, Encoder};

fn err_kind(e: &dyn std::fmt::Debug) -> String {
    let d = format!("{e:?}");
    let cut = d.find(['(', '{', ' ', '"']).unwrap_or(d.len());
    d[..cut].to_string()
}

// ------------------------------------------------------------------------------------------------
// server

fn server_exec(input: &[u8], mode: Mode) -> Out {
    let mut codec = h1::Codec::new(crate::hutil::service_config());
    let mut buf = BytesMut::new();
    let (mut heads, mut chunks, mut eofs) = (0u32, 0u32, 0u32);
    let mut touched = 0usize;
    let mut err: Option<String> = None;
    let bound = input.len() * 4 + 64;
    let mut calls = 0usize;
    'feed: for piece in mode.pieces(input) {
        buf.extend_from_slice(piece);
        loop {
            calls += 1;
            if calls > bound {
                return Out::Bad {
                    sig: "unbounded-loop:h1::Codec::decode".into(),
                    what: format!("decode kept returning items: {calls} calls for {} input bytes", input.len()),
                };
            }
            match codec.decode(&mut buf) {
                Ok(Some(Message::Item(req))) => {
                    heads += 1;
                    // what a dispatcher and a handler look at
                    touched += req.headers().len();
                    touched += req.path().len() + req.uri().query().map(str::len).unwrap_or(0);
                    touched += req.head().upgrade() as usize;
                    touched += req.chunked().is_ok() as usize;
                    touched += req.head().connection_type() as usize;
                    touched += codec.message_type() as usize + codec.upgrade() as usize + codec.keep_alive() as usize;
                }
                Ok(Some(Message::Chunk(Some(b)))) => {
                    chunks += 1;
                    touched += b.len();
                }
                Ok(Some(Message::Chunk(None))) => eofs += 1,
                Ok(None) => break,
                Err(e) => {
                    err = Some(err_kind(&e));
                    break 'feed;
                }
            }
        }
    }
    std::hint::black_box(touched);
    let end = match err {
        Some(e) => format!("Err({e})"),
        None if buf.is_empty() => "drained".into(),
        None => "need-more".into(),
    };
    class(format!("heads={} chunks={} eof={} {end}", heads.min(3), chunks.min(3), eofs.min(3)))
}

fn body_alphabet() -> Vec<Vec<u8>> {
    toks(&[
        b"0", b"1", b"5", b"a", b"F", b"ffffffffffffffff", b"10000000000000000", b"8000000000000000", b";", b"=", b"\"", b"\r", b"\n",
        b"\r\n", b"x", b" ", b"\t", b"hello", b"\0", b"-", b"+", b"\x80",
    ])
}

fn deep_body_alphabet() -> Vec<Vec<u8>> {
    toks(&[b"0", b"5", b"f", b"ffffffffffffffff", b";", b"\r", b"\n", b"x", b"hello", b"\""])
}

fn cl_alphabet() -> Vec<Vec<u8>> {
    toks(&[
        b"0", b"1", b"5", b"65536", b"9223372036854775808", b"18446744073709551615", b"18446744073709551616", b"-", b"+", b" ", b"\t",
        b",", b"\r\n ", b"\r\nContent-Length:", b"x", b".", b"e", b"\x80",
    ])
}

fn te_alphabet() -> Vec<Vec<u8>> {
    toks(&[
        b"chunked", b"identity", b"gzip", b",", b" ", b"\t", b";", b"q=", b"0", b"CHUNKED", b"\r\nTransfer-Encoding:",
        b"\r\nContent-Length:", b"5", b"x", b"\"", b"\x80",
    ])
}

fn header_alphabet() -> Vec<Vec<u8>> {
    toks(&[
        b"a", b":", b" ", b"\t", b"\r\n", b"\n", b"\r", b"Content-Length", b"Transfer-Encoding", b"chunked", b"0", b"5", b",", b"\0",
        b"\x80", b"Connection", b"upgrade", b"Expect", b"100-continue", b"close",
    ])
}

/// Tokens for field-length limits: runs of 65 535 / 65 536 / 70 000 token characters (the `http`
/// crate caps header names and URIs at u16 lengths; the read buffer cap is 131 072) plus a few
/// separators. Delivered whole only (a 1-byte delivery of 70 kB is quadratic).
pub fn long_alphabet() -> Vec<Vec<u8>> {
    vec![vec![b'a'; 65_535], vec![b'a'; 65_536], vec![b'a'; 70_000], b"a".to_vec(), b"-".to_vec(), b":".to_vec(), b" ".to_vec(), b"\r\n".to_vec()]
}

pub fn server_seeds() -> Vec<Seed> {
    vec![
        plain("get", b"GET /a/b?x=1 HTTP/1.1\r\nHost: h\r\n\r\n"),
        seed("post-cl", &[P::B(b"POST /p HTTP/1.1\r\nHost: h\r\nContent-Length: "), P::Dec(b"5"), P::B(b"\r\n\r\nhelloGET / HTTP/1.1\r\n\r\n")]),
        seed(
            "post-chunked",
            &[
                P::B(b"POST /c HTTP/1.1\r\nTransfer-Encoding: chunked\r\nTrailer: X-T\r\n\r\n"),
                P::Hex(b"5"),
                P::B(b";ext=\"v\"\r\nhello\r\n"),
                P::Hex(b"A"),
                P::B(b"\r\n0123456789\r\n"),
                P::Hex(b"0"),
                P::B(b"\r\nX-T: 1\r\n\r\n"),
            ],
        ),
        plain("expect", b"PUT /e HTTP/1.1\r\nExpect: 100-continue\r\nContent-Length: 2\r\n\r\nok"),
        plain("upgrade", b"GET /ws HTTP/1.1\r\nConnection: Upgrade\r\nUpgrade: websocket\r\nSec-WebSocket-Version: 13\r\nSec-WebSocket-Key: AAAA\r\n\r\n\x81\x00"),
        plain("connect", b"CONNECT h:443 HTTP/1.1\r\nHost: h:443\r\n\r\nraw"),
        plain("http10", b"GET http://h/abs%20path HTTP/1.0\r\nConnection: keep-alive\r\nX-Fold: a\r\n b\r\n\r\n"),
    ]
}

pub fn server_group() -> Group {
    let exec: ExecFn = Arc::new(server_exec);
    let mk = |name: &str, prefix: &[u8], suffix: &[u8], alphabet: Vec<Vec<u8>>, max: [usize; 2]| Target {
        name: format!("h1-server:{name}"),
        prefix: prefix.to_vec(),
        suffix: suffix.to_vec(),
        alphabet,
        max_tokens: max,
        seeds: vec![],
        double: false,
        delivery: Delivery::Framed,
        exec: exec.clone(),
    };
    let mut targets = vec![
        mk(
            "request-line",
            b"",
            b"",
            toks(&[
                b"GET", b"POST", b" ", b"/", b"*", b"HTTP/1.1", b"HTTP/1.0", b"HTTP/2.0", b"\r\n", b"\n", b"\r", b"a:b", b":", b"\t", b"\0",
                b"\x80", b"%", b"?",
            ]),
            [4, 5],
        ),
        mk(
            "uri",
            b"GET ",
            b" HTTP/1.1\r\n\r\n",
            toks(&[
                b"/", b"a", b"%", b"2", b"F", b"f", b"?", b"#", b"=", b"&", b":", b"@", b"//", b"http://", b"[", b"]", b"\x80", b"\xc3", b" ",
                b"\0", b"*", b"..",
            ]),
            [4, 5],
        ),
        mk("header-section", b"GET / HTTP/1.1\r\n", b"\r\n\r\n", header_alphabet(), [4, 5]),
        mk("content-length", b"POST / HTTP/1.1\r\nContent-Length:", b"\r\n\r\nhello", cl_alphabet(), [4, 5]),
        mk("transfer-encoding", b"POST / HTTP/1.1\r\nTransfer-Encoding:", b"\r\n\r\n5\r\nhello\r\n0\r\n\r\n", te_alphabet(), [4, 5]),
        mk("chunked-body", b"POST / HTTP/1.1\r\nTransfer-Encoding: chunked\r\n\r\n", b"", body_alphabet(), [4, 5]),
        // longer strings over the core of the chunk grammar
        mk("chunked-body:deep", b"POST / HTTP/1.1\r\nTransfer-Encoding: chunked\r\n\r\n", b"", deep_body_alphabet(), [4, 7]),
    ];
    for (name, prefix, suffix) in [
        ("long:method", b"".as_ref(), b" / HTTP/1.1\r\n\r\n".as_ref()),
        ("long:uri", b"GET /", b" HTTP/1.1\r\n\r\n"),
        ("long:header-name", b"GET / HTTP/1.1\r\n", b": x\r\n\r\n"),
        ("long:header-value", b"GET / HTTP/1.1\r\nX: ", b"\r\n\r\n"),
        ("long:chunk-extension", b"POST / HTTP/1.1\r\nTransfer-Encoding: chunked\r\n\r\n5;", b"\r\nhello\r\n0\r\n\r\n"),
        ("long:trailer-name", b"POST / HTTP/1.1\r\nTransfer-Encoding: chunked\r\n\r\n0\r\n", b": x\r\n\r\n"),
    ] {
        let mut t = mk(name, prefix, suffix, long_alphabet(), [2, 3]);
        t.delivery = Delivery::Whole;
        targets.push(t);
    }
    // header-count limit (MAX_HEADERS = 96)
    let many = |n: usize| -> Vec<u8> { b"a: b\r\n".repeat(n) };
    let mut t = mk("long:many-headers", b"GET / HTTP/1.1\r\n", b"\r\n", vec![many(95), many(96), many(97), many(1), b"x\r\n".to_vec(), b"Content-Length: 0\r\n".to_vec()], [3, 3]);
    t.delivery = Delivery::Whole;
    targets.push(t);
    targets.push(Target {
        name: "h1-server:seed".into(),
        prefix: vec![],
        suffix: vec![],
        alphabet: vec![],
        max_tokens: [0, 0],
        seeds: server_seeds(),
        double: true,
        delivery: Delivery::Framed,
        exec,
    });
    Group { name: "h1-server", targets, setup: None, teardown: None }
}

// ------------------------------------------------------------------------------------------------
// client

fn encode_request(codec: &mut ClientCodec, head_method: bool) {
    let mut head = RequestHead::default();
    if head_method {
        head.method = Method::HEAD;
    }
    let mut out = BytesMut::new();
    if let Err(e) = codec.encode(Message::Item((RequestHeadType::Owned(head), BodySize::None)), &mut out) {
        mc_core::machinery(format!("ClientCodec refused to encode a plain request: {e}"));
    }
}

enum Cl {
    Head(ClientCodec),
    Body(ClientPayloadCodec),
}

fn client_exec(head_method: bool, input: &[u8], mode: Mode) -> Out {
    let mut codec = ClientCodec::new(crate::hutil::service_config());
    encode_request(&mut codec, head_method);
    let mut st = Cl::Head(codec);
    let mut buf = BytesMut::new();
    let (mut heads, mut chunks, mut eofs) = (0u32, 0u32, 0u32);
    let mut touched = 0usize;
    let mut err: Option<String> = None;
    let bound = input.len() * 4 + 64;
    let mut calls = 0usize;
    let pieces = mode.pieces(input);
    let npieces = pieces.len();
    'feed: for (pi, piece) in pieces.into_iter().enumerate() {
        buf.extend_from_slice(piece);
        let last = pi + 1 == npieces;
        loop {
            calls += 1;
            if calls > bound {
                return Out::Bad {
                    sig: "unbounded-loop:h1::ClientCodec::decode".into(),
                    what: format!("decode kept returning items: {calls} calls for {} input bytes", input.len()),
                };
            }
            st = match st {
                Cl::Head(mut c) => match c.decode(&mut buf) {
                    Ok(Some(head)) => {
                        heads += 1;
                        touched += head.headers().len() + head.status.as_u16() as usize + c.keep_alive() as usize + c.upgrade() as usize;
                        if heads >= 4 {
                            break 'feed;
                        }
                        match c.message_type() {
                            // the exchange is over; the connection would carry the next request
                            // (awc builds a fresh codec for every request it sends)
                            MessageType::None => {
                                let mut c = ClientCodec::new(crate::hutil::service_config());
                                encode_request(&mut c, head_method);
                                Cl::Head(c)
                            }
                            _ => Cl::Body(c.into_payload_codec()),
                        }
                    }
                    Ok(None) => {
                        st = Cl::Head(c);
                        break;
                    }
                    Err(e) => {
                        err = Some(format!("head:{}", err_kind(&e)));
                        break 'feed;
                    }
                },
                Cl::Body(mut p) => {
                    // the last bytes are followed by the peer's FIN: Framed calls decode_eof then
                    let at_eof = last && buf.is_empty();
                    let r = if at_eof { p.decode_eof(&mut buf) } else { p.decode(&mut buf) };
                    match r {
                        Ok(Some(Some(b))) => {
                            chunks += 1;
                            touched += b.len();
                            Cl::Body(p)
                        }
                        Ok(Some(None)) => {
                            eofs += 1;
                            touched += p.keep_alive() as usize;
                            touched += p.into_message_codec().keep_alive() as usize;
                            let mut c = ClientCodec::new(crate::hutil::service_config());
                            encode_request(&mut c, head_method);
                            Cl::Head(c)
                        }
                        Ok(None) => {
                            if last && !at_eof {
                                // no more input: deliver the FIN
                                match p.decode_eof(&mut buf) {
                                    Ok(Some(Some(_))) => chunks += 1,
                                    Ok(Some(None)) => eofs += 1,
                                    Ok(None) => {}
                                    Err(e) => err = Some(format!("body-eof:{}", err_kind(&e))),
                                }
                                break 'feed;
                            }
                            st = Cl::Body(p);
                            break;
                        }
                        Err(e) => {
                            err = Some(format!("body:{}", err_kind(&e)));
                            break 'feed;
                        }
                    }
                }
            };
        }
    }
    std::hint::black_box(touched);
    let end = match err {
        Some(e) => format!("Err({e})"),
        None if buf.is_empty() => "drained".into(),
        None => "need-more".into(),
    };
    class(format!("heads={} chunks={} eof={} {end}", heads.min(3), chunks.min(3), eofs.min(3)))
}

pub fn client_seeds() -> Vec<Seed> {
    vec![
        seed("cl", &[P::B(b"HTTP/1.1 200 OK\r\nContent-Length: "), P::Dec(b"5"), P::B(b"\r\nX-A: b\r\n\r\nhello")]),
        seed(
            "chunked",
            &[
                P::B(b"HTTP/1.1 200 OK\r\nTransfer-Encoding: chunked\r\n\r\n"),
                P::Hex(b"5"),
                P::B(b";e=1\r\nhello\r\n"),
                P::Hex(b"0"),
                P::B(b"\r\nX-T: 1\r\n\r\n"),
            ],
        ),
        plain("no-content", b"HTTP/1.1 204 No Content\r\nConnection: keep-alive\r\n\r\nHTTP/1.1 304 Not Modified\r\nContent-Length: 9\r\n\r\n"),
        plain("close-delimited", b"HTTP/1.0 200 OK\r\nConnection: close\r\n\r\nbody until close"),
        plain("continue", b"HTTP/1.1 100 Continue\r\n\r\nHTTP/1.1 200 OK\r\nContent-Length: 2\r\n\r\nok"),
        plain("switching", b"HTTP/1.1 101 Switching Protocols\r\nConnection: upgrade\r\nUpgrade: websocket\r\n\r\n\x81\x02hi"),
    ]
}

pub fn client_group() -> Group {
    let mut targets = Vec::new();
    for head_method in [false, true] {
        let exec: ExecFn = Arc::new(move |i: &[u8], m: Mode| client_exec(head_method, i, m));
        let who = if head_method { "head" } else { "get" };
        let mk = |name: &str, prefix: &[u8], suffix: &[u8], alphabet: Vec<Vec<u8>>, max: [usize; 2]| Target {
            name: format!("h1-client:{who}:{name}"),
            prefix: prefix.to_vec(),
            suffix: suffix.to_vec(),
            alphabet,
            max_tokens: max,
            seeds: vec![],
            double: false,
            delivery: Delivery::Framed,
            exec: exec.clone(),
        };
        // the HEAD variant skips body decoding, so only the head templates are repeated for it
        let short = if head_method { [3, 4] } else { [4, 5] };
        targets.push(mk(
            "status-line",
            b"",
            b"",
            toks(&[
                b"HTTP/1.1", b"HTTP/1.0", b" ", b"200", b"204", b"304", b"100", b"101", b"999", b"OK", b"\r\n", b"\n", b"\r", b"a:b", b"\0",
                b"\x80", b"0", b"-1",
            ]),
            short,
        ));
        targets.push(mk("header-section", b"HTTP/1.1 200 OK\r\n", b"\r\n\r\nhello", header_alphabet(), short));
        targets.push(mk("content-length", b"HTTP/1.1 200 OK\r\nContent-Length:", b"\r\n\r\nhello", cl_alphabet(), short));
        if !head_method {
            targets.push(mk("transfer-encoding", b"HTTP/1.1 200 OK\r\nTransfer-Encoding:", b"\r\n\r\n5\r\nhello\r\n0\r\n\r\n", te_alphabet(), [4, 5]));
            targets.push(mk("chunked-body", b"HTTP/1.1 200 OK\r\nTransfer-Encoding: chunked\r\n\r\n", b"", body_alphabet(), [4, 5]));
            targets.push(mk("chunked-body:deep", b"HTTP/1.1 200 OK\r\nTransfer-Encoding: chunked\r\n\r\n", b"", deep_body_alphabet(), [4, 7]));
        }
        if !head_method {
            for (name, prefix, suffix) in [
                ("long:reason", b"HTTP/1.1 200 ".as_ref(), b"\r\nContent-Length: 0\r\n\r\n".as_ref()),
                ("long:header-name", b"HTTP/1.1 200 OK\r\nContent-Length: 0\r\n", b": x\r\n\r\n"),
                ("long:header-value", b"HTTP/1.1 200 OK\r\nContent-Length: 0\r\nX: ", b"\r\n\r\n"),
                ("long:chunk-extension", b"HTTP/1.1 200 OK\r\nTransfer-Encoding: chunked\r\n\r\n5;", b"\r\nhello\r\n0\r\n\r\n"),
            ] {
                let mut t = mk(name, prefix, suffix, long_alphabet(), [2, 3]);
                t.delivery = Delivery::Whole;
                targets.push(t);
            }
        }
        targets.push(Target {
            name: format!("h1-client:{who}:seed"),
            prefix: vec![],
            suffix: vec![],
            alphabet: vec![],
            max_tokens: [0, 0],
            seeds: client_seeds(),
            double: !head_method,
            delivery: Delivery::Framed,
            exec,
        });
    }
    Group { name: "h1-client", targets, setup: None, teardown: None }
}
