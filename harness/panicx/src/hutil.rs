//! Delivering a hostile header value the way a peer does: as a line of an HTTP/1 request head that
//! the real `h1::Codec` decodes. A value the decoder refuses never reaches a typed parser, so such
//! cases are "undeliverable" (skipped and counted), not evaluated.

use actix_http::h1::{self, Message};
use actix_http::{HttpMessage as _, Request, ServiceConfig};
use bytes::BytesMut;
use std::cell::RefCell;
use std::mem::ManuallyDrop;
use tokio_util::codec::Decoder;

thread_local! {
    static CFG: RefCell<Option<ManuallyDrop<(tokio::runtime::Runtime, tokio::task::LocalSet, ServiceConfig)>>> = const { RefCell::new(None) };
}

/// `ServiceConfig::default()` starts the date service with `spawn_local`, so it is built once per
/// worker thread inside a `LocalSet` that is kept alive; codecs get clones of it (as the real
/// service hands one shared config to every connection).
pub fn service_config() -> ServiceConfig {
    CFG.with(|c| {
        let mut c = c.borrow_mut();
        if c.is_none() {
            let rt = tokio::runtime::Builder::new_current_thread().enable_time().start_paused(true).build().unwrap_or_else(|e| mc_core::machinery(format!("runtime: {e}")));
            let local = tokio::task::LocalSet::new();
            let cfg = local.block_on(&rt, async { ServiceConfig::default() });
            // never dropped: a tokio LocalSet must not be dropped from a thread-local destructor
            *c = Some(ManuallyDrop::new((rt, local, cfg)));
        }
        c.as_ref().map(|x| x.2.clone()).unwrap()
    })
}

pub fn deliver(method: &str, lines: &[(&str, &[u8])]) -> Option<Request> {
    let mut buf = BytesMut::with_capacity(64 + lines.iter().map(|l| l.0.len() + l.1.len() + 4).sum::<usize>());
    buf.extend_from_slice(method.as_bytes());
    buf.extend_from_slice(b" /p?q=1 HTTP/1.1\r\n");
    for (n, v) in lines {
        buf.extend_from_slice(n.as_bytes());
        buf.extend_from_slice(b": ");
        buf.extend_from_slice(v);
        buf.extend_from_slice(b"\r\n");
    }
    buf.extend_from_slice(b"\r\n");
    let mut codec = h1::Codec::new(service_config());
    match codec.decode(&mut buf) {
        Ok(Some(Message::Item(req))) => Some(req),
        _ => None,
    }
}

thread_local! {
    static SR: RefCell<Option<ManuallyDrop<actix_web::dev::ServiceRequest>>> = const { RefCell::new(None) };
}

/// The same head as an `HttpRequest` (for the APIs that live on it: cookies, connection info,
/// NamedFile). One request object per worker thread is reused, the way a worker's request pool
/// reuses them: `TestRequest::to_http_request()` per case would leak every request (a request
/// dropped by the test helper parks itself in the pool of the app state it alone keeps alive).
pub fn with_http_request<R>(req: &Request, f: impl FnOnce(&actix_web::HttpRequest) -> R) -> R {
    let mut sr = SR
        .with(|c| c.borrow_mut().take())
        .map(ManuallyDrop::into_inner)
        .unwrap_or_else(|| actix_web::test::TestRequest::default().to_srv_request());
    {
        let head = sr.head_mut();
        head.method = req.method().clone();
        head.version = req.version();
        head.uri = req.uri().clone();
        head.headers.clear();
        // HeaderMap iteration order over names is per-process random; values of one name stay
        // ordered, which is all the parsers depend on
        for (n, v) in req.headers().iter() {
            head.headers.append(n.clone(), v.clone());
        }
    }
    // per-request caches (ConnectionInfo, parsed cookies) live in the extensions
    sr.request().extensions_mut().clear();
    let r = f(sr.request());
    SR.with(|c| *c.borrow_mut() = Some(ManuallyDrop::new(sr)));
    r
}
