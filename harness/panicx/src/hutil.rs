//! Delivering a hostile header value the way a peer does: as a line of an HTTP/1 request head that
//! the real `h1::Codec` decodes. A value the decoder refuses never reaches a typed parser, so such
//! cases are "undeliverable" (skipped and counted), not evaluated.

use actix_http::h1::{self, Message};
use actix_http::{HttpMessage as _, Request, ServiceConfig};
use bytes::BytesMut;
use tokio_util::codec::Decoder;

pub fn deliver(method: &str, lines: &[(&str, &[u8])]) -> Option<Request> {
    let mut buf = BytesMut::with_capacity(64 + lines.iter().map(|l| l.0.len() + l.1.len() + 4).sum::<usize>());
    buf.extend_from_slice(method.as_bytes());
    buf.extend_from_slice(b" /p?q=1 HTTP/1.1\r\n");
    for (n, v) in lines {
        buf.extend_from_slice(n.as_bytes());
        buf.extend_from_slice(b": ");
        buf.extend_from_slice(v);
        buf.extend_from_slice(b"\r\n");
    }
    buf.extend_from_slice(b"\r\n");
    let mut codec = h1::Codec::new(ServiceConfig::default());
    match codec.decode(&mut buf) {
        Ok(Some(Message::Item(req))) => Some(req),
        _ => None,
    }
}

/// The same head as an `HttpRequest` (for the APIs that live on it: cookies, connection info).
pub fn to_http_request(req: &Request) -> actix_web::HttpRequest {
    let mut tr = actix_web::test::TestRequest::default().method(req.method().clone()).version(req.version());
    // HeaderMap iteration order over names is per-process random; values of one name stay ordered,
    // which is all the parsers depend on
    for (n, v) in req.headers().iter() {
        tr = tr.append_header((n.clone(), v.clone()));
    }
    tr.to_http_request()
}
