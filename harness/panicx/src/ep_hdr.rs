//! Entry point 6: every typed header the framework parses (`Header::parse` for each `Header` impl
//! exported from `actix_web::http::header`), the `FromStr` parsers behind them, and the request
//! accessors that parse a header on demand (cookies, content type, charset, chunked).
//! The value travels through the real HTTP/1 decoder first (see `hutil::deliver`).

use crate::core::*;
use crate::gen::{plain, seed, Seed, P};
use crate::hutil::{deliver, with_http_request};
use actix_http::{HttpMessage as _, Request};
use actix_web::http::header::{self as h, Header};
use std::str::FromStr;
use std::sync::Arc;

/// "Ok:<first identifier of the Debug form>:<number of list separators, capped>"
fn ok_shape(d: &str) -> String {
    let ident: String = d.chars().take_while(|c| c.is_ascii_alphanumeric() || *c == '_').collect();
    let commas = d.matches("), ").count().min(2);
    format!("Ok:{ident}:n{commas}")
}

fn parse_as<H: Header + std::fmt::Debug>(req: &Request) -> Out {
    match H::parse(req) {
        Ok(v) => class(ok_shape(&format!("{v:?}"))),
        Err(_) => class("Err"),
    }
}

type ParseFn = fn(&Request) -> Out;

fn fromstr_all(s: &str) -> u32 {
    let mut ok = 0u32;
    let mut bit = 0;
    let mut rec = |b: bool| {
        ok |= (b as u32) << bit;
        bit += 1;
    };
    rec(h::HttpDate::from_str(s).is_ok());
    rec(h::EntityTag::from_str(s).is_ok());
    rec(h::Charset::from_str(s).is_ok());
    rec(h::ContentEncoding::from_str(s).is_ok());
    rec(h::Encoding::from_str(s).is_ok());
    rec(h::LanguageTag::from_str(s).is_ok());
    rec(mime::Mime::from_str(s).is_ok());
    rec(h::QualityItem::<mime::Mime>::from_str(s).is_ok());
    rec(h::QualityItem::<h::Charset>::from_str(s).is_ok());
    rec(h::QualityItem::<h::Encoding>::from_str(s).is_ok());
    rec(h::QualityItem::<h::LanguageTag>::from_str(s).is_ok());
    rec(h::QualityItem::<h::Preference<h::Encoding>>::from_str(s).is_ok());
    rec(h::Preference::<h::LanguageTag>::from_str(s).is_ok());
    rec(h::Range::from_str(s).is_ok());
    rec(h::ByteRangeSpec::from_str(s).is_ok());
    rec(h::ContentRangeSpec::from_str(s).is_ok());
    rec(h::CacheDirective::from_str(s).is_ok());
    rec(h::parse_extended_value(s).is_ok());
    rec(actix_http::Method::from_str(s).is_ok());
    rec(!matches!(h::DispositionType::from(s), h::DispositionType::Ext(_)));
    ok
}

fn hdr_exec(method: &'static str, name: &'static str, f: ParseFn, input: &[u8]) -> Out {
    let Some(req) = deliver(method, &[(name, input)]) else { return Out::Skip };
    f(&req)
}

fn fromstr_exec(input: &[u8]) -> Out {
    // x-any: a header without framing meaning; only what HeaderValue::to_str admits reaches FromStr
    let Some(req) = deliver("GET", &[("x-any", input)]) else { return Out::Skip };
    let Some(v) = req.headers().get("x-any") else { return class("absent") };
    let Ok(s) = v.to_str() else { return class("not-visible-ascii") };
    let ok = fromstr_all(s);
    let _ = h::ContentDisposition::from_raw(v);
    class(format!("ok={}", ok.count_ones().min(4)))
}

fn accessors_exec(name: &'static str, input: &[u8]) -> Out {
    let method = if name == "transfer-encoding" || name == "content-length" { "POST" } else { "GET" };
    let Some(req) = deliver(method, &[(name, input)]) else { return Out::Skip };
    let mut c = 0u32;
    c |= (!req.content_type().is_empty()) as u32;
    c |= (req.mime_type().is_ok() as u32) << 1;
    c |= (req.encoding().is_ok() as u32) << 2;
    c |= (matches!(req.chunked(), Ok(true)) as u32) << 3;
    c |= (req.head().upgrade() as u32) << 4;
    c |= (req.head().connection_type() as u32) << 5;
    c |= with_http_request(&req, |hr| {
        let mut c = 0u32;
        c |= (hr.cookies().map(|c| c.len().min(3)).unwrap_or(7) as u32) << 8;
        c |= (hr.cookie("a").is_some() as u32) << 12;
        c |= (hr.get_header::<h::ContentType>().is_some() as u32) << 13;
        c
    });
    class(format!("acc={c:04x}"))
}

/// The buffering body extractors read `Content-Length`, `Content-Type` and `Content-Encoding` of
/// the peer's head before (and while) they collect the body: run each of them on the delivered
/// head with an empty body.
fn extractors_exec(name: &'static str, input: &[u8]) -> Out {
    use actix_web::FromRequest as _;
    use futures_util::FutureExt as _;
    let lines: Vec<(&str, &[u8])> = if name == "content-type" {
        vec![(name, input), ("content-length", b"0")]
    } else {
        vec![(name, input)]
    };
    let Some(req) = deliver("POST", &lines) else { return Out::Skip };
    let c = with_http_request(&req, |hr| {
        let mut c = 0u32;
        let mut pl = actix_web::dev::Payload::None;
        c |= matches!(actix_web::web::Bytes::from_request(hr, &mut pl).now_or_never(), Some(Ok(_))) as u32;
        let mut pl = actix_web::dev::Payload::None;
        c |= (matches!(String::from_request(hr, &mut pl).now_or_never(), Some(Ok(_))) as u32) << 1;
        let mut pl = actix_web::dev::Payload::None;
        c |= (matches!(actix_web::web::Json::<serde_json::Value>::from_request(hr, &mut pl).now_or_never(), Some(Ok(_))) as u32) << 2;
        let mut pl = actix_web::dev::Payload::None;
        c |= (matches!(actix_web::web::Form::<std::collections::HashMap<String, String>>::from_request(hr, &mut pl).now_or_never(), Some(Ok(_))) as u32) << 3;
        let mut pl = actix_web::dev::Payload::None;
        c |= (matches!(actix_multipart::Multipart::from_request(hr, &mut pl).now_or_never(), Some(Ok(_))) as u32) << 4;
        let mut pl = actix_web::dev::Payload::None;
        c |= (matches!(actix_web::web::Payload::from_request(hr, &mut pl).now_or_never(), Some(Ok(_))) as u32) << 5;
        c
    });
    class(format!("extract={c:02x}"))
}

const LEN: &[&[u8]] = &[
    b"0", b"1", b"5", b"65536", b"4294967296", b"9223372036854775807", b"9223372036854775808", b"18446744073709551615", b"18446744073709551616",
    b"+", b"-", b" ", b",", b"x", b"\t", b"00000000000000000000",
];

struct Spec {
    label: &'static str,
    name: &'static str,
    method: &'static str,
    f: ParseFn,
    alphabet: &'static [&'static [u8]],
    seeds: Vec<Seed>,
    max: [usize; 2],
}

const QUAL: &[&[u8]] = &[
    b"text/html", b"*/*", b"*", b"gzip", b"br", b"identity", b"en-US", b"utf-8", b",", b";", b"q=", b"Q=", b"0", b"1", b"0.5", b"1.001",
    b"0.0001", b" ", b"=", b"/", b"\"", b"\x80",
];
const ETAG: &[&[u8]] = &[b"W/", b"\"", b"*", b",", b"a", b" ", b"\\", b"W", b"/", b"\x80", b"\"\"", b"W/\"a\"", b"\t", b"w/", b";", b"\x7f"];
const DATE: &[&[u8]] = &[
    b"Sun", b",", b" ", b"06", b"Nov", b"1994", b"08:49:37", b"GMT", b"Sunday", b"06-Nov-94", b"9999", b"0", b"99:99:99", b"-", b":", b"\x80",
    b"Feb", b"30", b"31", b"UTC", b"+0000", b"18446744073709551616",
];
const IFRANGE: &[&[u8]] = &[
    b"W/", b"\"", b"*", b",", b"a", b" ", b"\\", b"Sun, 06 Nov 1994 08:49:37 GMT", b"Sun", b"06", b"Nov", b"1994", b"GMT", b"\x80", b"\"\"", b"\t",
];
const RANGE: &[&[u8]] = &[
    b"bytes=", b"bytes", b"=", b"-", b",", b"0", b"1", b"9", b"18446744073709551615", b"18446744073709551616", b"9223372036854775808", b" ",
    b"\t", b"x", b"\x80", b"+", b"items=",
];
const CRANGE: &[&[u8]] = &[
    b"bytes", b" ", b"0", b"-", b"9", b"/", b"*", b"10", b"18446744073709551615", b"18446744073709551616", b"items", b"=", b",", b"\x80",
    b"x", b"\t",
];
const CLEN: &[&[u8]] = &[
    b"0", b"1", b"65536", b"9223372036854775808", b"18446744073709551615", b"18446744073709551616", b"+", b"-", b" ", b",", b"\t", b"x", b".",
    b"e", b"\x80", b"0x",
];
const MIME: &[&[u8]] = &[
    b"text", b"/", b"plain", b"*", b";", b" ", b"charset", b"=", b"utf-8", b"\"", b"\\", b"+", b"xml", b",", b"\x80", b"\t", b".", b"boundary",
    b"latin1", b"multipart",
];
const CDISP: &[&[u8]] = &[
    b"attachment", b"form-data", b"inline", b";", b" ", b"=", b"\"", b"\\", b"filename", b"filename*", b"name", b"*", b"UTF-8''", b"utf-8'en'",
    b"%", b"c2", b"a3", b"x", b"'", b"\x80", b"\xc3\xa9", b",",
];
const LANG: &[&[u8]] = &[
    b"en", b"-", b"US", b",", b";", b"q=", b"0.5", b"*", b"x", b"i", b"1", b"_", b" ", b"\x80", b"aaaaaaaaa", b"Latn", b"zh", b"a", b"de-1996",
];
const ALLOW: &[&[u8]] = &[b"GET", b"POST", b"PATCH", b",", b" ", b"\t", b"*", b"get", b"\x80", b"(", b"\"", b"a", b";", b"=", b"/", b"\x7f"];
const CACHE: &[&[u8]] = &[
    b"no-cache", b"max-age", b"=", b"0", b"1", b"18446744073709551616", b"4294967296", b"4294967295", b"-1", b",", b";", b" ", b"\"", b"private",
    b"s-maxage", b"x", b"\x80", b"max-stale", b"min-fresh", b"\t",
];
const COOKIE: &[&[u8]] = &[
    b"a", b"=", b";", b" ", b"\"", b"%", b"2", b"5", b"\x80", b",", b"b=c", b"__Host-", b"\t", b"%zz", b"%e2%82", b"\\", b"==", b"; ",
];
const CONN: &[&[u8]] = &[
    b"upgrade", b"Upgrade", b"keep-alive", b"close", b",", b" ", b"\t", b"websocket", b"h2c", b"chunked", b"identity", b"\x80", b";", b"=", b"x",
    b"CLOSE",
];

fn specs() -> Vec<Spec> {
    let date = || vec![plain("imf", b"Sun, 06 Nov 1994 08:49:37 GMT"), plain("rfc850", b"Sunday, 06-Nov-94 08:49:37 GMT"), plain("asctime", b"Sun Nov  6 08:49:37 1994")];
    let etags = || vec![plain("list", b"\"xyzzy\", W/\"r2d2xxxx\", \"c3piozzzz\""), plain("any", b"*")];
    vec![
        Spec { label: "Accept", name: "accept", method: "GET", f: parse_as::<h::Accept>, alphabet: QUAL, seeds: vec![plain("v", b"text/html, application/xhtml+xml;q=0.9, */*;q=0.8")], max: [4, 5] },
        Spec { label: "AcceptCharset", name: "accept-charset", method: "GET", f: parse_as::<h::AcceptCharset>, alphabet: QUAL, seeds: vec![plain("v", b"iso-8859-5, unicode-1-1;q=0.8, *;q=0.1")], max: [4, 5] },
        Spec { label: "AcceptEncoding", name: "accept-encoding", method: "GET", f: parse_as::<h::AcceptEncoding>, alphabet: QUAL, seeds: vec![plain("v", b"gzip;q=1.0, identity; q=0.5, *;q=0")], max: [4, 5] },
        Spec { label: "AcceptLanguage", name: "accept-language", method: "GET", f: parse_as::<h::AcceptLanguage>, alphabet: LANG, seeds: vec![plain("v", b"da, en-gb;q=0.8, en;q=0.7, zh-Hant-CN-x-private")], max: [4, 5] },
        Spec { label: "Allow", name: "allow", method: "GET", f: parse_as::<h::Allow>, alphabet: ALLOW, seeds: vec![plain("v", b"GET, HEAD, PUT")], max: [4, 6] },
        Spec {
            label: "CacheControl",
            name: "cache-control",
            method: "GET",
            f: parse_as::<h::CacheControl>,
            alphabet: CACHE,
            seeds: vec![seed("v", &[P::B(b"private, max-age="), P::Dec(b"600"), P::B(b", community=\"UCI\", min-fresh="), P::Dec(b"1")])],
            max: [4, 5],
        },
        Spec {
            label: "ContentDisposition",
            name: "content-disposition",
            method: "GET",
            f: parse_as::<h::ContentDisposition>,
            alphabet: CDISP,
            seeds: vec![
                plain("ext", b"attachment; filename*=UTF-8'en'%e2%82%ac%20rates; x*=iso-8859-1''%A3"),
                plain("quoted", b"form-data; name=\"field\"; filename=\"a \\\"b\\\" c.txt\"; size=3"),
            ],
            max: [4, 5],
        },
        Spec { label: "ContentLanguage", name: "content-language", method: "GET", f: parse_as::<h::ContentLanguage>, alphabet: LANG, seeds: vec![plain("v", b"mi, en-US;q=0.5")], max: [4, 5] },
        Spec { label: "ContentLength", name: "content-length", method: "POST", f: parse_as::<h::ContentLength>, alphabet: CLEN, seeds: vec![seed("v", &[P::Dec(b"42")])], max: [4, 6] },
        Spec {
            label: "ContentRange",
            name: "content-range",
            method: "GET",
            f: parse_as::<h::ContentRange>,
            alphabet: CRANGE,
            seeds: vec![seed("v", &[P::B(b"bytes "), P::Dec(b"0"), P::B(b"-"), P::Dec(b"499"), P::B(b"/"), P::Dec(b"1234")]), plain("star", b"bytes */1234")],
            max: [4, 6],
        },
        Spec { label: "ContentType", name: "content-type", method: "GET", f: parse_as::<h::ContentType>, alphabet: MIME, seeds: vec![plain("v", b"multipart/form-data; charset=\"utf-8\"; boundary=x+y")], max: [4, 5] },
        Spec { label: "Date", name: "date", method: "GET", f: parse_as::<h::Date>, alphabet: DATE, seeds: date(), max: [4, 5] },
        Spec { label: "Expires", name: "expires", method: "GET", f: parse_as::<h::Expires>, alphabet: DATE, seeds: date(), max: [3, 4] },
        Spec { label: "IfModifiedSince", name: "if-modified-since", method: "GET", f: parse_as::<h::IfModifiedSince>, alphabet: DATE, seeds: date(), max: [3, 4] },
        Spec { label: "IfUnmodifiedSince", name: "if-unmodified-since", method: "GET", f: parse_as::<h::IfUnmodifiedSince>, alphabet: DATE, seeds: date(), max: [3, 4] },
        Spec { label: "LastModified", name: "last-modified", method: "GET", f: parse_as::<h::LastModified>, alphabet: DATE, seeds: date(), max: [3, 4] },
        Spec { label: "ETag", name: "etag", method: "GET", f: parse_as::<h::ETag>, alphabet: ETAG, seeds: vec![plain("weak", b"W/\"xyzzy\""), plain("strong", b"\"a b\"")], max: [4, 6] },
        Spec { label: "IfMatch", name: "if-match", method: "GET", f: parse_as::<h::IfMatch>, alphabet: ETAG, seeds: etags(), max: [4, 6] },
        Spec { label: "IfNoneMatch", name: "if-none-match", method: "GET", f: parse_as::<h::IfNoneMatch>, alphabet: ETAG, seeds: etags(), max: [4, 6] },
        Spec { label: "IfRange", name: "if-range", method: "GET", f: parse_as::<h::IfRange>, alphabet: IFRANGE, seeds: vec![plain("etag", b"W/\"xyzzy\""), plain("date", b"Sat, 29 Oct 1994 19:43:31 GMT")], max: [4, 6] },
        Spec {
            label: "Range",
            name: "range",
            method: "GET",
            f: parse_as::<h::Range>,
            alphabet: RANGE,
            seeds: vec![
                seed("v", &[P::B(b"bytes="), P::Dec(b"0"), P::B(b"-"), P::Dec(b"499"), P::B(b", -"), P::Dec(b"500"), P::B(b","), P::Dec(b"9500"), P::B(b"-")]),
                plain("other", b"items=1-3"),
            ],
            max: [4, 6],
        },
    ]
}

pub fn group() -> Group {
    let mut targets = Vec::new();
    for s in specs() {
        let (method, name, f) = (s.method, s.name, s.f);
        let exec: ExecFn = Arc::new(move |i: &[u8], _m: Mode| hdr_exec(method, name, f, i));
        let mut alphabet = toks(s.alphabet);
        // a repeated field line
        alphabet.push(format!("\r\n{name}: ").into_bytes());
        targets.push(Target {
            name: format!("hdr:{}", s.label),
            prefix: vec![],
            suffix: vec![],
            alphabet,
            max_tokens: s.max,
            seeds: s.seeds,
            double: true,
            delivery: Delivery::Whole,
            exec,
        });
    }
    // FromStr parsers on the same alphabets (one family per target)
    for (fam, alpha, max) in [
        ("quality", QUAL, [4, 5]),
        ("etag", ETAG, [3, 4]),
        ("date", DATE, [3, 4]),
        ("range", RANGE, [3, 4]),
        ("content-range", CRANGE, [3, 4]),
        ("mime", MIME, [4, 5]),
        ("disposition", CDISP, [4, 5]),
        ("language", LANG, [3, 4]),
        ("cache", CACHE, [3, 4]),
    ] {
        let exec: ExecFn = Arc::new(|i: &[u8], _m: Mode| fromstr_exec(i));
        targets.push(Target {
            name: format!("fromstr:{fam}"),
            prefix: vec![],
            suffix: vec![],
            alphabet: toks(alpha),
            max_tokens: max,
            seeds: vec![],
            double: false,
            delivery: Delivery::Whole,
            exec,
        });
    }
    // request accessors that parse on demand
    for (name, alpha, seeds) in [
        ("cookie", COOKIE, vec![plain("v", b"a=1; b=\"q v\"; c=%E2%82%AC; __Host-s=x==")]),
        ("content-type", MIME, vec![plain("v", b"text/plain; charset=latin1")]),
        ("transfer-encoding", CONN, vec![]),
        ("connection", CONN, vec![plain("v", b"keep-alive, Upgrade")]),
        ("upgrade", CONN, vec![]),
    ] {
        let exec: ExecFn = Arc::new(move |i: &[u8], _m: Mode| accessors_exec(name, i));
        let mut alphabet = toks(alpha);
        alphabet.push(format!("\r\n{name}: ").into_bytes());
        targets.push(Target {
            name: format!("req-accessors:{name}"),
            prefix: vec![],
            suffix: vec![],
            alphabet,
            max_tokens: [3, 4],
            seeds,
            double: true,
            delivery: Delivery::Whole,
            exec,
        });
    }
    // buffering body extractors driven by the peer's length / type / coding headers
    for (name, alpha) in [("content-length", LEN), ("content-type", MIME), ("content-encoding", QUAL)] {
        let exec: ExecFn = Arc::new(move |i: &[u8], _m: Mode| extractors_exec(name, i));
        targets.push(Target {
            name: format!("extractors:{name}"),
            prefix: vec![],
            suffix: vec![],
            alphabet: toks(alpha),
            max_tokens: [3, 4],
            seeds: vec![],
            double: false,
            delivery: Delivery::Whole,
            exec,
        });
    }
    Group { name: "headers", targets, setup: None, teardown: None }
}
