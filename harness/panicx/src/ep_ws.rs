//! Entry point 3: WebSocket frame decoding (`ws::Codec` in server and client role under several
//! `max_size` settings, and `ws::Parser::parse` directly) and the server handshake check on
//! requests with hostile header values.

use crate::core::*;
use crate::gen::{plain, seed, Seed, P};
use actix_http::ws::{self, Codec, Frame, Parser};
use bytes::BytesMut;
use std::sync::Arc;
use tokio_util::codec::Decoder;

fn frame_exec(server: bool, max_size: usize, input: &[u8], mode: Mode) -> Out {
    let mut codec = Codec::new().max_size(max_size);
    if !server {
        codec = codec.client_mode();
    }
    let mut buf = BytesMut::new();
    let mut frames = 0u32;
    let mut kinds = 0u32;
    let mut touched = 0usize;
    let mut err: Option<String> = None;
    let bound = input.len() * 2 + 16;
    let mut calls = 0usize;
    'feed: for piece in mode.pieces(input) {
        buf.extend_from_slice(piece);
        loop {
            calls += 1;
            if calls > bound {
                return Out::Bad {
                    sig: "unbounded-loop:ws::Codec::decode".into(),
                    what: format!("decode kept returning frames: {calls} calls for {} input bytes", input.len()),
                };
            }
            match codec.decode(&mut buf) {
                Ok(Some(f)) => {
                    frames += 1;
                    let k = match &f {
                        Frame::Text(b) => {
                            touched += b.len();
                            0
                        }
                        Frame::Binary(b) => {
                            touched += b.len();
                            1
                        }
                        Frame::Continuation(_) => 2,
                        Frame::Ping(b) => {
                            touched += b.len();
                            3
                        }
                        Frame::Pong(b) => {
                            touched += b.len();
                            4
                        }
                        Frame::Close(r) => {
                            touched += r.as_ref().map(|r| r.description.as_ref().map(String::len).unwrap_or(0)).unwrap_or(0);
                            5
                        }
                    };
                    kinds |= 1 << k;
                }
                Ok(None) => break,
                Err(e) => {
                    let d = format!("{e:?}");
                    let cut = d.find(['(', '{', ' ']).unwrap_or(d.len());
                    err = Some(d[..cut].to_string());
                    break 'feed;
                }
            }
        }
    }
    std::hint::black_box(touched);
    // the raw parser on the same bytes, in one piece (its own public entry point)
    if mode == Mode::Whole {
        let mut b2 = BytesMut::from(input);
        let mut n = 0usize;
        while let Ok(Some((_fin, _op, data))) = Parser::parse(&mut b2, server, max_size) {
            if let Some(d) = data.as_ref() {
                let _ = Parser::parse_close_payload(d);
            }
            n += 1;
            if n > bound {
                return Out::Bad { sig: "unbounded-loop:ws::Parser::parse".into(), what: format!("parse kept returning frames: {n} calls") };
            }
        }
    }
    let end = match err {
        Some(e) => format!("Err({e})"),
        None if buf.is_empty() => "drained".into(),
        None => "need-more".into(),
    };
    class(format!("frames={} kinds={kinds:02x} {end}", frames.min(3)))
}

fn ws_alphabet() -> Vec<Vec<u8>> {
    toks(&[
        b"\x81", b"\x82", b"\x80", b"\x88", b"\x89", b"\x8a", b"\x01", b"\x00", b"\x0f", b"\x7e", b"\x7f", b"\xfe", b"\xff", b"\x7d", b"\x05",
        b"\x85", b"\x00\x00\x00\x00", b"hello", b"\x03\xe8", b"\xff\xff\xff\xff\xff\xff\xff\xff", b"\x80\x00\x00\x00\x00\x00\x00\x00",
        b"\x00\x00\x01\x00\x00\x00\x00\x00",
    ])
}

fn payload(n: usize) -> Vec<u8> {
    (0..n).map(|i| b'a' + (i % 26) as u8).collect()
}

fn ws_seeds(server: bool) -> Vec<Seed> {
    // frames as the peer of that role sends them: masked towards a server, unmasked towards a client
    let m: u8 = if server { 0x80 } else { 0 };
    let key: &[u8] = if server { b"\x01\x02\x03\x04" } else { b"" };
    let p130 = payload(130);
    let p200 = payload(200);
    vec![
        seed("text5", &[P::B(b"\x81"), P::Len7(&[m | 5]), P::B(key), P::B(b"hello")]),
        seed("bin126", &[P::B(b"\x82"), P::Len7(&[m | 126]), P::Be16(&[0, 130]), P::B(key), P::B(&p130)]),
        seed("bin127", &[P::B(b"\x82"), P::Len7(&[m | 127]), P::Be64(&200u64.to_be_bytes()), P::B(key), P::B(&p200)]),
        seed("close", &[P::B(b"\x88"), P::Len7(&[m | 5]), P::B(key), P::B(b"\x03\xe8bye")]),
        seed(
            "fragments+ping",
            &[
                P::B(b"\x01"),
                P::Len7(&[m | 2]),
                P::B(key),
                P::B(b"he"),
                P::B(b"\x89"),
                P::Len7(&[m]),
                P::B(key),
                P::B(b"\x80"),
                P::Len7(&[m | 3]),
                P::B(key),
                P::B(b"llo"),
            ],
        ),
    ]
}

const MAX_SIZES: [usize; 6] = [0, 1, 125, 126, 65_536, 1 << 24];

pub fn group() -> Group {
    let mut targets = Vec::new();
    for server in [true, false] {
        for (i, &mx) in MAX_SIZES.iter().enumerate() {
            let exec: ExecFn = Arc::new(move |inp: &[u8], m: Mode| frame_exec(server, mx, inp, m));
            let role = if server { "server" } else { "client" };
            // the full token enumeration under the default limit and the two extremes; the other
            // limits get one token less
            let main = mx == 65_536 || mx == 0 || mx == 125;
            targets.push(Target {
                name: format!("ws:{role}:max{mx}"),
                prefix: vec![],
                suffix: vec![],
                alphabet: ws_alphabet(),
                max_tokens: if mx == 65_536 { [4, 5] } else if main { [3, 5] } else { [3, 4] },
                seeds: ws_seeds(server),
                double: i == 4,
                delivery: Delivery::Framed,
                exec,
            });
        }
    }
    // longer strings over the core of the frame grammar, default limit
    for server in [true, false] {
        let exec: ExecFn = Arc::new(move |inp: &[u8], m: Mode| frame_exec(server, 65_536, inp, m));
        targets.push(Target {
            name: format!("ws:{}:max65536:deep", if server { "server" } else { "client" }),
            prefix: vec![],
            suffix: vec![],
            alphabet: toks(&[b"\x81", b"\x82", b"\x88", b"\x00", b"\x7e", b"\x7f", b"\x85", b"\x05", b"hello", b"\xff\xff\xff\xff\xff\xff\xff\xff"]),
            max_tokens: [4, 7],
            seeds: vec![],
            double: false,
            delivery: Delivery::Framed,
            exec,
        });
    }
    // handshake: one hostile header value, the other headers valid
    for (slot, name) in ["upgrade", "connection", "sec-websocket-version", "sec-websocket-key", "sec-websocket-protocol"].iter().enumerate() {
        let exec: ExecFn = Arc::new(move |inp: &[u8], _m: Mode| handshake_exec(slot, inp));
        targets.push(Target {
            name: format!("ws:handshake:{name}"),
            prefix: vec![],
            suffix: vec![],
            alphabet: toks(&[
                b"websocket", b"Upgrade", b"upgrade", b"13", b"8", b"7", b",", b" ", b"\t", b"keep-alive", b"\x80", b"\xff", b"=", b";",
                b"dGhlIHNhbXBsZSBub25jZQ==", b"a", b"\"", b"WebSocket",
            ]),
            max_tokens: [3, 4],
            seeds: vec![plain("valid", [b"websocket".as_ref(), b"upgrade", b"13", b"dGhlIHNhbXBsZSBub25jZQ==", b"chat, superchat"][slot])],
            double: true,
            delivery: Delivery::Whole,
            exec,
        });
    }
    Group { name: "ws", targets, setup: None, teardown: None }
}

fn handshake_exec(slot: usize, value: &[u8]) -> Out {
    use actix_http::header::{self, HeaderValue};
    let Ok(hv) = HeaderValue::from_bytes(value) else { return Out::Skip };
    let names = [header::UPGRADE, header::CONNECTION, header::SEC_WEBSOCKET_VERSION, header::SEC_WEBSOCKET_KEY, header::SEC_WEBSOCKET_PROTOCOL];
    let valid: [&'static str; 5] = ["websocket", "upgrade", "13", "dGhlIHNhbXBsZSBub25jZQ==", "chat"];
    let mut tr = actix_http::test::TestRequest::default();
    for i in 0..5 {
        if i == slot {
            tr.insert_header((names[i].clone(), hv.clone()));
        } else {
            tr.insert_header((names[i].clone(), HeaderValue::from_static(valid[i])));
        }
    }
    let req = tr.finish();
    match ws::handshake(req.head()) {
        Ok(mut rb) => {
            let res = rb.finish();
            class(format!("Ok({})", res.status().as_u16()))
        }
        Err(e) => {
            // the error is turned into a response by the framework
            let res: actix_http::Response<actix_http::body::BoxBody> = (&e).into();
            class(format!("Err({e:?})->{}", res.status().as_u16()))
        }
    }
}
