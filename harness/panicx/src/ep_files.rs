//! Entry point 7: `actix_files::NamedFile::into_response` with hostile `Range` / `If-*` header
//! values on files of length 0, 1 and 10, including reading the body the response announces.
//! The files live in a directory created by `setup` and removed by `teardown`.

use crate::core::*;
use crate::gen::{plain, seed, P};
use crate::hutil::{deliver, with_http_request};
use actix_files::NamedFile;
use std::cell::RefCell;
use std::mem::ManuallyDrop;
use std::path::PathBuf;
use std::sync::{Arc, OnceLock};

static DIR: OnceLock<PathBuf> = OnceLock::new();
const LENS: [usize; 3] = [0, 1, 10];

pub fn setup() {
    let base = std::env::var("PANICX_TMP").map(PathBuf::from).unwrap_or_else(|_| std::env::temp_dir());
    let dir = base.join(format!("panicx-files-{}", std::process::id()));
    if let Err(e) = std::fs::create_dir_all(&dir) {
        mc_core::machinery(format!("cannot create {}: {e}", dir.display()));
    }
    for n in LENS {
        let body: Vec<u8> = (0..n).map(|i| b'0' + (i % 10) as u8).collect();
        if let Err(e) = std::fs::write(dir.join(format!("f{n}.txt")), body) {
            mc_core::machinery(format!("cannot write test file: {e}"));
        }
    }
    let _ = DIR.set(dir);
}

pub fn teardown() {
    if let Some(d) = DIR.get() {
        let _ = std::fs::remove_dir_all(d);
    }
}

thread_local! {
    static RT: RefCell<Option<ManuallyDrop<tokio::runtime::Runtime>>> = const { RefCell::new(None) };
}

fn with_rt<R>(f: impl FnOnce(&tokio::runtime::Runtime) -> R) -> R {
    // taken out while in use: a panic drops it and the next case builds a fresh one
    // (never dropped from the thread-local destructor: tokio's own thread-locals may be gone by then)
    let rt = RT.with(|c| c.borrow_mut().take()).map(ManuallyDrop::into_inner).unwrap_or_else(|| {
        tokio::runtime::Builder::new_current_thread().enable_time().max_blocking_threads(1).build().unwrap_or_else(|e| mc_core::machinery(format!("runtime: {e}")))
    });
    let r = f(&rt);
    RT.with(|c| *c.borrow_mut() = Some(ManuallyDrop::new(rt)));
    r
}

fn exec(len: usize, sync_read: bool, lines: &[(&str, &[u8])]) -> Out {
    let Some(r) = deliver("GET", lines) else { return Out::Skip };
    let Some(dir) = DIR.get() else { mc_core::machinery("files: setup did not run") };
    let nf = match NamedFile::open(dir.join(format!("f{len}.txt"))) {
        Ok(f) => f,
        Err(e) => mc_core::machinery(format!("cannot open test file: {e}")),
    };
    // files below the threshold are read on the calling thread, others through the blocking pool
    let nf = if sync_read { nf.read_mode_threshold(1 << 20) } else { nf };
    let res = with_http_request(&r, |req| nf.into_response(req));
    let status = res.status().as_u16();
    let cr = res.headers().get("content-range").is_some();
    let declared = match actix_web::body::MessageBody::size(res.body()) {
        actix_web::body::BodySize::Sized(n) => format!("{n}"),
        actix_web::body::BodySize::None => "none".into(),
        actix_web::body::BodySize::Stream => "stream".into(),
    };
    // read what the response announces (ChunkedReadFile: seek + read of offset/length)
    let body = with_rt(|rt| rt.block_on(async move { actix_web::body::to_bytes(res.into_body()).await.map(|b| b.len()) }));
    let got = match body {
        Ok(n) => format!("{n}"),
        Err(_) => "err".into(),
    };
    class(format!("status={status} content-range={cr} declared={declared} read={got}"))
}

pub fn group() -> Group {
    let mut targets = Vec::new();
    let range_alpha = toks(&[
        b"bytes=", b"bytes", b"=", b"-", b",", b"0", b"1", b"9", b"10", b"18446744073709551615", b"18446744073709551616", b"9223372036854775808",
        b" ", b"\t", b"x", b"\x80", b"+",
    ]);
    for len in LENS {
        let e: ExecFn = Arc::new(move |i: &[u8], _m: Mode| exec(len, true, &[("range", i)]));
        targets.push(Target {
            name: format!("files:len{len}:range"),
            prefix: vec![],
            suffix: vec![],
            alphabet: range_alpha.clone(),
            max_tokens: if len == 10 { [4, 6] } else { [4, 5] },
            seeds: vec![
                seed("v", &[P::B(b"bytes="), P::Dec(b"2"), P::B(b"-"), P::Dec(b"5"), P::B(b", -"), P::Dec(b"3"), P::B(b","), P::Dec(b"7"), P::B(b"-")]),
                seed("suffix", &[P::B(b"bytes=-"), P::Dec(b"1")]),
            ],
            double: true,
            delivery: Delivery::Whole,
            exec: e,
        });
    }
    // the default read mode (blocking pool) on the seed mutations only
    let e: ExecFn = Arc::new(move |i: &[u8], _m: Mode| exec(10, false, &[("range", i)]));
    targets.push(Target {
        name: "files:len10:range:async-read".into(),
        prefix: vec![],
        suffix: vec![],
        alphabet: range_alpha.clone(),
        max_tokens: [2, 3],
        seeds: vec![seed("v", &[P::B(b"bytes="), P::Dec(b"2"), P::B(b"-"), P::Dec(b"5"), P::B(b", -"), P::Dec(b"3")])],
        double: false,
        delivery: Delivery::Whole,
        exec: e,
    });
    let date: &[&[u8]] = &[
        b"Sun", b",", b" ", b"06", b"Nov", b"1994", b"2094", b"08:49:37", b"GMT", b"9999", b"0", b"99:99:99", b"-", b":", b"\x80", b"Thu, 01 Jan 1970 00:00:00 GMT",
    ];
    let etag: &[&[u8]] = &[b"W/", b"\"", b"*", b",", b"a", b" ", b"\\", b":", b"0", b"\x80", b"\"\"", b"W/\"a\"", b"\t"];
    let conds: [(&'static str, &[&[u8]], &'static [u8]); 5] = [
        ("if-match", etag, b"\"xyzzy\", W/\"r2d2xxxx\", *"),
        ("if-none-match", etag, b"W/\"xyzzy\", \"0:0:0:0\""),
        ("if-modified-since", date, b"Sat, 29 Oct 2094 19:43:31 GMT"),
        ("if-unmodified-since", date, b"Sat, 29 Oct 1994 19:43:31 GMT"),
        ("if-range", etag, b"\"xyzzy\""),
    ];
    for (name, alpha, seed_v) in conds {
        // together with a satisfiable Range, so that precondition and range logic interact
        let e: ExecFn = Arc::new(move |i: &[u8], _m: Mode| exec(10, true, &[(name, i), ("range", b"bytes=2-5")]));
        targets.push(Target {
            name: format!("files:len10:{name}"),
            prefix: vec![],
            suffix: vec![],
            alphabet: toks(alpha),
            max_tokens: [3, 4],
            seeds: vec![plain("v", seed_v)],
            double: false,
            delivery: Delivery::Whole,
            exec: e,
        });
    }
    Group { name: "files", targets, setup: Some(setup), teardown: Some(teardown) }
}
