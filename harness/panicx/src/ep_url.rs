//! Entry point 5: request target handling. `http::Uri` (what the HTTP/1 decoder builds) ->
//! `actix_router::Url` / `Quoter` -> `Path` + `ResourceDef::capture_match_info` ->
//! `Path::load` (the `PathDeserializer`) into typed targets; `web::Query::from_query`;
//! `ConnectionInfo` from hostile `Forwarded` / `X-Forwarded-*` / `Host` values.

use crate::core::*;
use crate::gen::{plain, seed, P};
use actix_router::{Path, Quoter, ResourceDef, Url};
use actix_web::web::Query;
use serde::Deserialize;
use std::collections::HashMap;
use std::sync::{Arc, OnceLock};

#[derive(Deserialize)]
#[allow(dead_code)]
struct Ab {
    a: String,
    b: u8,
}

#[derive(Deserialize)]
#[allow(dead_code, non_camel_case_types)]
enum Kw {
    a,
    b,
    aa,
}

#[derive(Deserialize)]
#[allow(dead_code)]
struct AbOpt {
    a: Option<i16>,
    b: Kw,
}

#[derive(Deserialize)]
#[allow(dead_code)]
struct Q {
    a: u32,
    b: Option<String>,
    #[serde(default)]
    c: i8,
}

fn defs() -> &'static Vec<ResourceDef> {
    static DEFS: OnceLock<Vec<ResourceDef>> = OnceLock::new();
    DEFS.get_or_init(|| {
        vec![
            ResourceDef::new("/{a}/{b}"),
            ResourceDef::new("/{a}/{b:.*}"),
            ResourceDef::prefix("/{a}"),
            ResourceDef::new("/a/{b:\\d+}"),
            ResourceDef::new(["/x/{a}", "/{a}-{b}"]),
        ]
    })
}

fn path_exec(input: &[u8]) -> Out {
    // the request target as the HTTP/1 decoder sees it
    let mut raw = Vec::with_capacity(input.len() + 1);
    raw.push(b'/');
    raw.extend_from_slice(input);
    let uri = match http::Uri::try_from(raw.as_slice()) {
        Ok(u) => u,
        Err(_) => return class("uri-rejected"),
    };
    let mut score = 0u32;
    let url = Url::new(uri.clone());
    let plen = url.path().len();
    for q in [Quoter::new(b"", b"%/+"), Quoter::new(b"", b""), Quoter::new(b"", b"%")] {
        if q.requote(uri.path().as_bytes()).is_some() {
            score |= 1;
        }
    }
    let mut matched = 0u32;
    let mut loaded = 0u32;
    for (i, rd) in defs().iter().enumerate() {
        let mut path = Path::new(url.clone());
        let _ = rd.is_match(path.as_str());
        let _ = rd.find_match(path.as_str());
        if rd.capture_match_info(&mut path) {
            matched |= 1 << i;
            let _ = path.unprocessed().len();
            for (k, v) in path.iter() {
                std::hint::black_box((k.len(), v.len()));
            }
            let _ = path.get("a").map(str::len);
            let _ = path.query("b").len();
            let mut ok = 0u32;
            ok += path.load::<(String, u32)>().is_ok() as u32;
            ok += path.load::<Vec<String>>().is_ok() as u32;
            ok += path.load::<HashMap<String, String>>().is_ok() as u32;
            ok += path.load::<Ab>().is_ok() as u32;
            ok += path.load::<AbOpt>().is_ok() as u32;
            ok += path.load::<(i64, f64)>().is_ok() as u32;
            ok += path.load::<(bool, char)>().is_ok() as u32;
            ok += path.load::<(Kw, u64)>().is_ok() as u32;
            ok += path.load::<String>().is_ok() as u32;
            ok += path.load::<(String,)>().is_ok() as u32;
            ok += path.load::<(u8, i8)>().is_ok() as u32;
            loaded = loaded.max(ok);
            // nested: a second resource on the remainder (scope -> resource)
            let mut p2 = path.clone();
            let _ = defs()[0].capture_match_info(&mut p2);
            let _ = p2.load::<Vec<String>>();
        }
    }
    std::hint::black_box(plen);
    class(format!("requoted={} matched={matched:02x} loads_ok={}", score, loaded.min(3)))
}

fn query_exec(input: &[u8]) -> Out {
    let mut raw = b"/p?".to_vec();
    raw.extend_from_slice(input);
    let uri = match http::Uri::try_from(raw.as_slice()) {
        Ok(u) => u,
        Err(_) => return class("uri-rejected"),
    };
    let q = uri.query().unwrap_or("");
    let mut ok = 0u32;
    ok |= Query::<HashMap<String, String>>::from_query(q).is_ok() as u32;
    ok |= (Query::<Q>::from_query(q).is_ok() as u32) << 1;
    ok |= (Query::<Vec<(String, String)>>::from_query(q).is_ok() as u32) << 2;
    ok |= (Query::<HashMap<String, i64>>::from_query(q).is_ok() as u32) << 3;
    ok |= (Query::<AbOpt>::from_query(q).is_ok() as u32) << 4;
    class(format!("ok={ok:02x}"))
}

fn conninfo_exec(name: &'static str, input: &[u8], call_full_url: bool) -> Out {
    // through the HTTP/1 decoder, like a peer delivers it
    let Some(r) = crate::hutil::deliver("GET", &[(name, input)]) else { return Out::Skip };
    let c = crate::hutil::with_http_request(&r, |req| {
        let mut c = 0u32;
        {
            let info = req.connection_info();
            c |= info.realip_remote_addr().is_some() as u32;
            c |= ((info.host() != "localhost:8080") as u32) << 1;
            c |= ((info.scheme() != "http") as u32) << 2;
            c |= (info.peer_addr().is_some() as u32) << 3;
        }
        if call_full_url {
            let u = req.full_url();
            std::hint::black_box(u.as_str().len());
        }
        c
    });
    class(format!("info={c:x}"))
}

pub fn group() -> Group {
    let mut targets = Vec::new();
    let long_a = vec![b'a'; 65_533];
    let mut long_pct = Vec::new();
    while long_pct.len() < 65_530 {
        long_pct.extend_from_slice(b"%2F");
    }
    let mut long_seg = Vec::new();
    while long_seg.len() < 65_530 {
        long_seg.extend_from_slice(b"a/");
    }
    let exec: ExecFn = Arc::new(|i: &[u8], _m: Mode| path_exec(i));
    targets.push(Target {
        name: "url:path".into(),
        prefix: vec![],
        suffix: vec![],
        alphabet: toks(&[
            b"/", b"a", b"%", b"2", b"5", b"F", b"f", b"%2F", b"%25", b"%2B", b"+", b"-", b"1", b"65536", b"18446744073709551616", b"-1",
            b"%C3", b"%A9", b"%00", b"%80", b"true", b".", b"b",
        ]),
        max_tokens: [4, 5],
        seeds: vec![
            seed("typed", &[P::B(b"user%20name/"), P::Dec(b"42")]),
            plain("escapes", b"a%2Fb%25c%2Bd/%C3%A9%20x"),
            plain("tail", b"a/b/c/d%2F/e"),
        ],
        double: true,
        delivery: Delivery::Whole,
        exec: exec.clone(),
    });
    // offsets near the u16 limits of PathItem::Segment (not mutated: single inputs)
    targets.push(Target {
        name: "url:path:long".into(),
        prefix: vec![],
        suffix: vec![],
        alphabet: vec![long_a.clone(), long_pct, long_seg, b"/".to_vec(), b"%2F".to_vec(), b"a".to_vec(), vec![b'a'; 32_767]],
        max_tokens: [2, 2],
        seeds: vec![],
        double: false,
        delivery: Delivery::Whole,
        exec,
    });
    let exec: ExecFn = Arc::new(|i: &[u8], _m: Mode| query_exec(i));
    targets.push(Target {
        name: "url:query".into(),
        prefix: vec![],
        suffix: vec![],
        alphabet: toks(&[
            b"a", b"b", b"c", b"=", b"&", b";", b"%", b"2", b"5", b"%26", b"%3D", b"+", b"1", b"4294967296", b"-1", b"%C3", b"%80", b"%00",
            b"[", b"]", b"?", b"#",
        ]),
        max_tokens: [4, 5],
        seeds: vec![seed("typed", &[P::B(b"a="), P::Dec(b"7"), P::B(b"&b=x%20y&c="), P::Dec(b"-3"), P::B(b"&a=9")])],
        double: true,
        delivery: Delivery::Whole,
        exec,
    });
    let fwd_alphabet = toks(&[
        b"for=", b"proto=", b"host=", b"by=", b"FOR=", b";", b",", b" ", b"\"", b"[", b"]", b"]:", b":", b"=", b"192.0.2.60", b"2001:db8::1",
        b"https", b"\x80", b"\t", b"a",
    ]);
    let host_alphabet = toks(&[
        b"a", b".", b":", b"80", b"65536", b"[", b"]", b"::1", b"@", b"/", b"?", b"#", b"%", b" ", b",", b"\"", b"\x80", b"\t", b"-", b"xn--",
    ]);
    let infos: [(&'static str, &'static str, Vec<Vec<u8>>, &'static [u8]); 5] = [
        ("forwarded", "forwarded", fwd_alphabet, b"for=\"[2001:db8:cafe::17]:4711\", for=192.0.2.43;proto=https; host=example.com ;by=203.0.113.43"),
        ("x-forwarded-for", "x-forwarded-for", host_alphabet.clone(), b"203.0.113.195, 2001:db8:85a3:8d3:1319:8a2e:370:7348"),
        ("x-forwarded-host", "x-forwarded-host", host_alphabet.clone(), b"id42.example-cdn.com:8443, proxy"),
        ("x-forwarded-proto", "x-forwarded-proto", host_alphabet.clone(), b"https, http"),
        ("host", "host", host_alphabet.clone(), b"www.example.org:8080"),
    ];
    for (label, hname, alphabet, seed_v) in infos {
        let exec: ExecFn = Arc::new(move |i: &[u8], _m: Mode| conninfo_exec(hname, i, false));
        targets.push(Target {
            name: format!("conninfo:{label}"),
            prefix: vec![],
            suffix: vec![],
            alphabet,
            max_tokens: [3, 4],
            seeds: vec![plain("valid", seed_v)],
            double: true,
            delivery: Delivery::Whole,
            exec,
        });
    }
    // HttpRequest::full_url() re-parses scheme://host/path built from the same peer-controlled values
    for (label, hname) in [("host", "host"), ("forwarded", "forwarded")] {
        let exec: ExecFn = Arc::new(move |i: &[u8], _m: Mode| conninfo_exec(hname, i, true));
        targets.push(Target {
            name: format!("full_url:{label}"),
            prefix: if hname == "forwarded" { b"host=".to_vec() } else { vec![] },
            suffix: vec![],
            alphabet: host_alphabet.clone(),
            max_tokens: [3, 3],
            seeds: vec![],
            double: false,
            delivery: Delivery::Whole,
            exec,
        });
    }
    Group { name: "url", targets, setup: None, teardown: None }
}
