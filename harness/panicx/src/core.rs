//! Case model, panic capture and classification, the worker pool of one sweep (with an mmap'ed
//! progress file so that the parent can name the cases in flight when the sweep process dies) and
//! the in-process watchdog for cases that never return.

use crate::gen;
use mc_core::report::Violation;
use serde::{Deserialize, Serialize};
use serde_json::{json, Value};
use std::cell::RefCell;
use std::collections::{BTreeMap, HashSet};
use std::panic::{catch_unwind, AssertUnwindSafe};
use std::sync::atomic::{AtomicBool, AtomicU64, AtomicUsize, Ordering};
use std::sync::{Arc, Mutex};
use std::time::{Duration, Instant};

pub const PROP: &str = "C19";

/// How the input bytes reach the parser.
#[derive(Clone, Copy, PartialEq, Eq, Debug, Hash)]
pub enum Mode {
    Whole,
    /// one byte at a time
    Bytes1,
    /// two pieces: `[..k]` then `[k..]`
    Cut(u32),
}

impl Mode {
    pub fn label(self) -> String {
        match self {
            Mode::Whole => "whole".into(),
            Mode::Bytes1 => "bytes1".into(),
            Mode::Cut(k) => format!("cut:{k}"),
        }
    }
    pub fn parse(s: &str) -> Option<Mode> {
        match s {
            "whole" => Some(Mode::Whole),
            "bytes1" => Some(Mode::Bytes1),
            _ => s.strip_prefix("cut:").and_then(|k| k.parse().ok()).map(Mode::Cut),
        }
    }
    pub fn kind(self) -> u8 {
        match self {
            Mode::Whole => 0,
            Mode::Bytes1 => 1,
            Mode::Cut(_) => 2,
        }
    }
    pub fn code(self) -> u64 {
        match self {
            Mode::Whole => 0,
            Mode::Bytes1 => 1,
            Mode::Cut(k) => 2 + k as u64,
        }
    }
    pub fn from_code(c: u64) -> Mode {
        match c {
            0 => Mode::Whole,
            1 => Mode::Bytes1,
            k => Mode::Cut((k - 2) as u32),
        }
    }
    /// The pieces in which `input` is delivered.
    pub fn pieces(self, input: &[u8]) -> Vec<&[u8]> {
        match self {
            Mode::Whole => vec![input],
            Mode::Bytes1 => input.chunks(1).collect(),
            Mode::Cut(k) => {
                let k = (k as usize).min(input.len());
                vec![&input[..k], &input[k..]]
            }
        }
    }
}

/// Result of one execution that returned.
pub enum Out {
    /// outcome class (Ok / which Err variant / status ...): small vocabulary, no run data
    Class(String),
    /// the input cannot be delivered to this parser by a peer (e.g. a control byte in a header
    /// value is refused by every HTTP front end before the typed parser sees it): not counted
    Skip,
    /// the execution returned but broke the oracle (step/poll bound exceeded)
    Bad { sig: String, what: String },
}

pub fn class(s: impl Into<String>) -> Out {
    Out::Class(s.into())
}

pub type ExecFn = Arc<dyn Fn(&[u8], Mode) -> Out + Send + Sync>;

#[derive(Clone, Copy, PartialEq, Eq, Debug)]
pub enum Delivery {
    /// the parser takes a complete string (a header value, a path): one delivery
    Whole,
    /// whole and 1-byte fragments
    WholeBytes1,
    /// framed protocol: whole, 1-byte fragments and every single cut for short inputs
    Framed,
}

pub struct Target {
    /// "<entry point>:<parser>[:<template>]"; tier-independent (replay files refer to it)
    pub name: String,
    pub prefix: Vec<u8>,
    pub suffix: Vec<u8>,
    pub alphabet: Vec<Vec<u8>>,
    /// token-string length bound: [quick, thorough]
    pub max_tokens: [usize; 2],
    pub seeds: Vec<gen::Seed>,
    /// thorough: every double mutation of every seed (otherwise single only)
    pub double: bool,
    pub delivery: Delivery,
    pub exec: ExecFn,
}

pub struct Group {
    pub name: &'static str,
    pub targets: Vec<Target>,
    /// called once in the sweep process before any case, and once at its end
    pub setup: Option<fn()>,
    pub teardown: Option<fn()>,
}

pub fn toks(list: &[&[u8]]) -> Vec<Vec<u8>> {
    list.iter().map(|t| t.to_vec()).collect()
}

// ------------------------------------------------------------------------------------------------
// panic capture

thread_local! {
    static LAST_PANIC: RefCell<Option<(String, u32, String)>> = const { RefCell::new(None) };
}

static VERBOSE_PANICS: AtomicBool = AtomicBool::new(false);

pub fn install_panic_hook(verbose: bool) {
    VERBOSE_PANICS.store(verbose, Ordering::SeqCst);
    std::panic::set_hook(Box::new(|info| {
        let (file, line) = info.location().map(|l| (l.file().to_string(), l.line())).unwrap_or_default();
        let msg = if let Some(s) = info.payload().downcast_ref::<&str>() {
            s.to_string()
        } else if let Some(s) = info.payload().downcast_ref::<String>() {
            s.clone()
        } else if let Some(m) = info.payload().downcast_ref::<mc_core::MachineryError>() {
            format!("MACHINERY: {}", m.0)
        } else {
            "<non-string panic>".into()
        };
        if VERBOSE_PANICS.load(Ordering::SeqCst) {
            eprintln!("panicked at {file}:{line}: {msg}");
        }
        LAST_PANIC.with(|p| *p.borrow_mut() = Some((file, line, msg)));
    }));
}

pub fn take_last_panic() -> Option<(String, u32, String)> {
    LAST_PANIC.with(|p| p.borrow_mut().take())
}

pub fn repo_root() -> String {
    let r = std::env::var("VERIF_REPO").unwrap_or_else(|_| "/repo".to_string());
    r.trim_end_matches('/').to_string()
}

/// Stable class of a panic message: its first words, digits and punctuation removed.
pub fn msg_class(msg: &str) -> String {
    let mut out = String::new();
    let mut last_dash = true;
    // only the part before the value ("called `Result::unwrap()` on an `Err` value: <value>")
    let msg = msg.split(": ").next().unwrap_or(msg);
    for c in msg.chars().take(64) {
        if c.is_ascii_alphabetic() {
            out.push(c.to_ascii_lowercase());
            last_dash = false;
        } else if !last_dash {
            out.push('-');
            last_dash = true;
        }
    }
    out.trim_end_matches('-').to_string()
}

/// Panic location + message -> (signature, is harness bug).
pub fn classify_panic(file: &str, line: u32, msg: &str) -> (String, bool) {
    let root = repo_root();
    // the signature names the file and the kind of panic, not the line: unrelated edits above the
    // site must not turn a known finding into an unknown one (the line is in the description)
    let _ = line;
    if let Some(rel) = file.strip_prefix(&format!("{root}/")) {
        return (format!("panic@{rel}:{}", msg_class(msg)), false);
    }
    if let Some(rel) = file.strip_prefix("/repo/") {
        return (format!("panic@{rel}:{}", msg_class(msg)), false);
    }
    if file.contains("/verif/harness/") || file.starts_with("panicx/") || file.starts_with("mc-core/") {
        return (format!("harness@{file}:{line}"), true);
    }
    // third-party crate or std reached from the input
    let krate = if let Some(i) = file.find("/registry/src/") {
        let rest = &file[i + "/registry/src/".len()..];
        // <index dir>/<crate>-<version>/...
        let mut it = rest.split('/');
        let _ = it.next();
        let cv = it.next().unwrap_or("unknown");
        // strip the version
        match cv.rfind('-') {
            Some(k) if cv[k + 1..].chars().next().is_some_and(|c| c.is_ascii_digit()) => cv[..k].to_string(),
            _ => cv.to_string(),
        }
    } else if file.contains("/library/") || file.starts_with("/rustc/") {
        "std".to_string()
    } else {
        "unknown".to_string()
    };
    (format!("panic-in:{krate}:{}", normalize_msg(msg)), false)
}

/// Message without run data: digit runs -> N, quoted strings -> "…", cut at 80 chars.
pub fn normalize_msg(msg: &str) -> String {
    let mut out = String::new();
    let mut in_digits = false;
    for c in msg.chars() {
        if c.is_ascii_digit() {
            if !in_digits {
                out.push('N');
                in_digits = true;
            }
        } else {
            in_digits = false;
            if c == '\n' {
                break;
            }
            out.push(c);
        }
        if out.len() >= 80 {
            break;
        }
    }
    // quoted run data
    if let Some(i) = out.find('`') {
        out.truncate(i);
    }
    if let Some(i) = out.find('"') {
        out.truncate(i);
    }
    out.trim().to_string()
}

/// Oracle clause a signature belongs to.
pub fn clause_of(sig: &str) -> &'static str {
    if sig.starts_with("unbounded-loop") {
        "terminates"
    } else if sig.starts_with("abort") {
        "no-abort"
    } else {
        "no-panic"
    }
}

pub enum Ran {
    Class(String),
    Skip,
    Viol { sig: String, what: String },
    Harness(String),
}

/// One guarded execution.
pub fn run_case(t: &Target, input: &[u8], mode: Mode) -> Ran {
    let r = catch_unwind(AssertUnwindSafe(|| (t.exec)(input, mode)));
    match r {
        Ok(Out::Class(c)) => Ran::Class(c),
        Ok(Out::Skip) => Ran::Skip,
        Ok(Out::Bad { sig, what }) => Ran::Viol { sig, what },
        Err(_) => {
            let (file, line, msg) = take_last_panic().unwrap_or_default();
            let (sig, harness) = classify_panic(&file, line, &msg);
            if harness {
                Ran::Harness(format!("harness panic at {file}:{line}: {msg}"))
            } else {
                Ran::Viol { sig, what: format!("panicked at {file}:{line}: {msg}") }
            }
        }
    }
}

pub fn hex(b: &[u8]) -> String {
    let mut s = String::with_capacity(b.len() * 2);
    for x in b {
        s.push_str(&format!("{x:02x}"));
    }
    s
}

pub fn unhex(s: &str) -> Option<Vec<u8>> {
    if s.len() % 2 != 0 {
        return None;
    }
    (0..s.len() / 2).map(|i| u8::from_str_radix(s.get(2 * i..2 * i + 2)?, 16).ok()).collect()
}

pub fn replay_value(group: &str, target: &str, input: &[u8], mode: Mode) -> Value {
    json!({
        "entry_point": group,
        "target": target,
        "input_hex": hex(input),
        "input_shown": mc_core::show_short(input, 200),
        "mode": mode.label(),
    })
}

// ------------------------------------------------------------------------------------------------
// work units

#[derive(Clone, Copy, Debug, PartialEq, Eq)]
pub enum Phase {
    Tokens,
    Mut1(usize),
    /// unit index = first mutation; every second mutation of its result is run
    Mut2(usize),
}

#[derive(Clone, Debug)]
pub struct Unit {
    pub target: usize,
    pub phase: Phase,
    pub start: u64,
    pub end: u64,
}

pub fn plan(group: &Group, thorough: bool) -> Vec<Unit> {
    let mut units = Vec::new();
    for (ti, t) in group.targets.iter().enumerate() {
        if !t.alphabet.is_empty() {
            let n = gen::shortlex_count(t.alphabet.len(), t.max_tokens[thorough as usize]);
            let chunk = 4096u64;
            let mut s = 0;
            while s < n {
                units.push(Unit { target: ti, phase: Phase::Tokens, start: s, end: (s + chunk).min(n) });
                s += chunk;
            }
        }
        for (si, seed) in t.seeds.iter().enumerate() {
            let n = gen::mut_count(&seed.bytes, &seed.fields);
            let chunk = 256u64;
            let mut s = 0;
            while s < n {
                units.push(Unit { target: ti, phase: Phase::Mut1(si), start: s, end: (s + chunk).min(n) });
                s += chunk;
            }
            if thorough && t.double {
                let chunk = 4u64;
                let mut s = 0;
                while s < n {
                    units.push(Unit { target: ti, phase: Phase::Mut2(si), start: s, end: (s + chunk).min(n) });
                    s += chunk;
                }
            }
        }
    }
    // single mutations first, then token strings and double mutations in step across the targets
    // (shortest strings of every target before the longest of any): a cap then cuts the deep end
    // of every enumeration instead of whole targets. Stable, so the plan is a function of the tier.
    units.sort_by_key(|u| (!matches!(u.phase, Phase::Mut1(_)) as u8, if matches!(u.phase, Phase::Mut1(_)) { 0 } else { u.start }));
    units
}

pub fn token_input(t: &Target, idx: u64) -> (Vec<u8>, usize) {
    let (toks, k) = gen::shortlex_nth(&t.alphabet, idx);
    let mut v = Vec::with_capacity(t.prefix.len() + toks.len() + t.suffix.len());
    v.extend_from_slice(&t.prefix);
    v.extend_from_slice(&toks);
    v.extend_from_slice(&t.suffix);
    (v, k)
}

fn modes_for(t: &Target, phase: Phase, len: usize, out: &mut Vec<Mode>) {
    out.clear();
    out.push(Mode::Whole);
    match t.delivery {
        Delivery::Whole => {}
        Delivery::WholeBytes1 => {
            if len > 1 {
                out.push(Mode::Bytes1);
            }
        }
        Delivery::Framed => {
            if len > 1 {
                out.push(Mode::Bytes1);
            }
            let limit = match phase {
                Phase::Tokens => t.prefix.len() + t.suffix.len() + 24,
                Phase::Mut1(_) => 220,
                Phase::Mut2(_) => 0,
            };
            if len > 2 && len <= limit {
                // token strings inside a fixed template: cuts from the end of the fixed prefix on
                // (cuts inside the prefix are exercised by the seeds and the 1-byte delivery)
                let from = match phase {
                    Phase::Tokens => t.prefix.len().max(1),
                    _ => 1,
                };
                for k in from..len {
                    out.push(Mode::Cut(k as u32));
                }
            }
        }
    }
}

/// Reconstruct the input of the case a progress slot names.
pub fn input_at(group: &Group, units: &[Unit], unit: usize, idx: u64, inner: u64) -> Option<(usize, Vec<u8>)> {
    let u = units.get(unit)?;
    let t = &group.targets[u.target];
    let input = match u.phase {
        Phase::Tokens => token_input(t, idx).0,
        Phase::Mut1(si) => gen::mutate(&t.seeds[si].bytes, &t.seeds[si].fields, idx).bytes,
        Phase::Mut2(si) => {
            let m1 = gen::mutate(&t.seeds[si].bytes, &t.seeds[si].fields, idx);
            if inner == u64::MAX {
                m1.bytes
            } else {
                gen::mutate(&m1.bytes, &m1.fields, inner).bytes
            }
        }
    };
    Some((u.target, input))
}

// ------------------------------------------------------------------------------------------------
// per-thread accumulators and sweep result

#[derive(Default, Serialize, Deserialize, Clone)]
pub struct Sample {
    pub h: u64,
    pub target: String,
    pub input: String,
    pub mode: String,
    pub outcome: String,
}

#[derive(Default, Serialize, Deserialize)]
pub struct SweepResult {
    pub group: String,
    pub evaluations: u64,
    pub skipped_undeliverable: u64,
    /// target name -> executions
    pub evals_by_target: BTreeMap<String, u64>,
    /// target name -> outcome class -> count
    pub outcomes: BTreeMap<String, BTreeMap<String, u64>>,
    /// hashes of non-trivial (target, outcome, input shape, delivery kind) classes
    pub nontrivial: Vec<u64>,
    pub nontrivial_cases: u64,
    pub samples: Vec<Sample>,
    pub violations: Vec<Violation>,
    pub violating_cases: u64,
    pub units_total: u64,
    pub units_done: u64,
    pub complete: bool,
    pub capped: bool,
    pub wall_s: f64,
    pub machinery: Option<String>,
    /// set by the watchdog: the case that did not return
    pub hang: Option<Value>,
}

#[derive(Default)]
struct Local {
    evals: Vec<u64>,
    skipped: u64,
    outcomes: Vec<BTreeMap<String, u64>>,
    nontrivial: HashSet<u64>,
    nontrivial_cases: u64,
    samples: Vec<Sample>,
    /// per target: a case is a sample candidate only below this content hash
    sample_bar: Vec<u64>,
    viol: BTreeMap<String, (u64, String, Violation)>,
    violating_cases: u64,
}

const SAMPLES_PER_TARGET: usize = 2;

impl Local {
    fn new(nt: usize) -> Self {
        Local { evals: vec![0; nt], outcomes: vec![BTreeMap::new(); nt], sample_bar: vec![u64::MAX; nt], ..Default::default() }
    }
    fn merge(&mut self, o: Local) {
        for (a, b) in self.evals.iter_mut().zip(o.evals) {
            *a += b;
        }
        self.skipped += o.skipped;
        for (a, b) in self.outcomes.iter_mut().zip(o.outcomes) {
            for (k, v) in b {
                *a.entry(k).or_insert(0) += v;
            }
        }
        self.nontrivial.extend(o.nontrivial);
        self.nontrivial_cases += o.nontrivial_cases;
        self.samples.extend(o.samples);
        if self.samples.len() > 4096 {
            trim_samples(&mut self.samples);
        }
        self.violating_cases += o.violating_cases;
        for (k, v) in o.viol {
            let better = match self.viol.get(&k) {
                None => true,
                Some((w, t, _)) => (v.0, &v.1) < (*w, t),
            };
            if better {
                self.viol.insert(k, v);
            }
        }
    }
}

fn trim_samples(samples: &mut Vec<Sample>) {
    samples.sort_by(|a, b| (&a.target, a.h, &a.input).cmp(&(&b.target, b.h, &b.input)));
    samples.dedup_by(|a, b| a.target == b.target && a.h == b.h && a.input == b.input);
    let mut out: Vec<Sample> = Vec::new();
    let mut n = 0;
    for s in samples.drain(..) {
        if out.last().map(|l| l.target != s.target).unwrap_or(true) {
            n = 0;
        }
        if n < SAMPLES_PER_TARGET {
            out.push(s);
        }
        n += 1;
    }
    *samples = out;
}

// ------------------------------------------------------------------------------------------------
// progress file: per worker [unit+1, idx, inner, mode code, start ms], written with plain atomic
// stores into a MAP_SHARED mapping, so the values survive an abort of the process

pub const SLOT_WORDS: usize = 8;
pub const MAX_WORKERS: usize = 64;

pub struct Progress {
    ptr: *mut AtomicU64,
    heap: Option<Box<[AtomicU64]>>,
}
unsafe impl Send for Progress {}
unsafe impl Sync for Progress {}

impl Progress {
    pub fn open(path: Option<&str>) -> Progress {
        let words = SLOT_WORDS * MAX_WORKERS;
        if let Some(p) = path {
            use std::os::unix::io::AsRawFd;
            if let Ok(f) = std::fs::OpenOptions::new().read(true).write(true).create(true).truncate(true).open(p) {
                if f.set_len((words * 8) as u64).is_ok() {
                    let m = unsafe {
                        libc::mmap(std::ptr::null_mut(), words * 8, libc::PROT_READ | libc::PROT_WRITE, libc::MAP_SHARED, f.as_raw_fd(), 0)
                    };
                    if m != libc::MAP_FAILED {
                        return Progress { ptr: m as *mut AtomicU64, heap: None };
                    }
                }
            }
        }
        let heap: Box<[AtomicU64]> = (0..words).map(|_| AtomicU64::new(0)).collect();
        let ptr = heap.as_ptr() as *mut AtomicU64;
        Progress { ptr, heap: Some(heap) }
    }
    fn word(&self, w: usize, k: usize) -> &AtomicU64 {
        let _ = &self.heap;
        unsafe { &*self.ptr.add(w * SLOT_WORDS + k) }
    }
    pub fn set(&self, w: usize, unit: usize, idx: u64, inner: u64, mode: Mode, now_ms: u64) {
        self.word(w, 0).store(0, Ordering::Relaxed);
        self.word(w, 1).store(idx, Ordering::Relaxed);
        self.word(w, 2).store(inner, Ordering::Relaxed);
        self.word(w, 3).store(mode.code(), Ordering::Relaxed);
        self.word(w, 4).store(now_ms, Ordering::Relaxed);
        self.word(w, 0).store(unit as u64 + 1, Ordering::Release);
    }
    pub fn clear(&self, w: usize) {
        self.word(w, 0).store(0, Ordering::Release);
    }
    pub fn get(&self, w: usize) -> Option<(usize, u64, u64, Mode, u64)> {
        let u = self.word(w, 0).load(Ordering::Acquire);
        if u == 0 {
            return None;
        }
        Some((
            (u - 1) as usize,
            self.word(w, 1).load(Ordering::Relaxed),
            self.word(w, 2).load(Ordering::Relaxed),
            Mode::from_code(self.word(w, 3).load(Ordering::Relaxed)),
            self.word(w, 4).load(Ordering::Relaxed),
        ))
    }
}

/// Read the slots of a progress file left by a dead sweep process.
pub fn read_progress_file(path: &str) -> Vec<(usize, u64, u64, Mode)> {
    let mut v = Vec::new();
    if let Ok(b) = std::fs::read(path) {
        for w in 0..MAX_WORKERS {
            let at = |k: usize| -> u64 {
                let o = (w * SLOT_WORDS + k) * 8;
                b.get(o..o + 8).map(|s| u64::from_ne_bytes(s.try_into().unwrap())).unwrap_or(0)
            };
            if at(0) != 0 {
                v.push(((at(0) - 1) as usize, at(1), at(2), Mode::from_code(at(3))));
            }
        }
    }
    v
}

// ------------------------------------------------------------------------------------------------
// the sweep

pub const CASE_TIMEOUT_S: u64 = 25;
/// thread-time spent inside violating cases of one target after which the target is abandoned
pub const VIOLATION_TIME_BUDGET_NS: u64 = 20_000_000_000;

pub struct SweepCfg {
    pub thorough: bool,
    pub threads: usize,
    pub seed: u64,
    pub deadline: Instant,
    pub progress_path: Option<String>,
    /// called by the watchdog with the partial result when a case does not return
    pub on_hang: Box<dyn Fn(SweepResult) + Send + Sync>,
}

fn fnv_parts(parts: &[&[u8]]) -> u64 {
    let mut h: u64 = 0xcbf29ce484222325;
    for p in parts {
        for b in *p {
            h ^= *b as u64;
            h = h.wrapping_mul(0x100000001b3);
        }
        h ^= 0xff;
        h = h.wrapping_mul(0x100000001b3);
    }
    h
}

pub fn sweep(group: &Group, cfg: SweepCfg) -> SweepResult {
    let t0 = Instant::now();
    let units = plan(group, cfg.thorough);
    let nt = group.targets.len();
    // baseline outcome per target: the outcome of the empty token string (prefix + suffix)
    let mut baselines: Vec<String> = Vec::with_capacity(nt);
    let mut machinery: Option<String> = None;
    for t in &group.targets {
        let (input, _) = token_input_empty(t);
        let b = match run_case(t, &input, Mode::Whole) {
            Ran::Class(c) => c,
            Ran::Skip => "<skip>".into(),
            Ran::Viol { sig, .. } => format!("<violation:{sig}>"),
            Ran::Harness(m) => {
                machinery = Some(m);
                String::new()
            }
        };
        baselines.push(b);
    }
    let n = units.len();
    let next = AtomicUsize::new(0);
    let done = AtomicUsize::new(0);
    let capped = AtomicBool::new(false);
    let stop = AtomicBool::new(machinery.is_some());
    let finished = AtomicBool::new(false);
    let total = Mutex::new(Local::new(nt));
    let mach = Mutex::new(machinery);
    let progress = Progress::open(cfg.progress_path.as_deref());
    let rot = if n > 0 { (cfg.seed as usize) % n } else { 0 };
    let threads = cfg.threads.clamp(1, MAX_WORKERS);
    let epoch = Instant::now();
    // nanoseconds spent in violating cases per target: a target that keeps violating is abandoned
    // (the run has failed already; the remaining units are reported as not done)
    let viol_ns: Vec<AtomicU64> = (0..nt).map(|_| AtomicU64::new(0)).collect();

    let finish = |total: Local, complete: bool, hang: Option<Value>| -> SweepResult {
        let mut res = SweepResult { group: group.name.into(), ..Default::default() };
        for (i, t) in group.targets.iter().enumerate() {
            res.evaluations += total.evals[i];
            *res.evals_by_target.entry(t.name.clone()).or_insert(0) += total.evals[i];
            let m = res.outcomes.entry(t.name.clone()).or_default();
            for (k, v) in &total.outcomes[i] {
                *m.entry(k.clone()).or_insert(0) += v;
            }
        }
        res.skipped_undeliverable = total.skipped;
        let mut nt: Vec<u64> = total.nontrivial.into_iter().collect();
        nt.sort_unstable();
        res.nontrivial = nt;
        res.nontrivial_cases = total.nontrivial_cases;
        let mut samples = total.samples;
        trim_samples(&mut samples);
        res.samples = samples;
        res.violations = total.viol.into_values().map(|v| v.2).collect();
        res.violating_cases = total.violating_cases;
        res.units_total = n as u64;
        res.units_done = done.load(Ordering::SeqCst) as u64;
        res.capped = capped.load(Ordering::SeqCst);
        res.complete = complete && !res.capped && res.units_done == res.units_total;
        res.wall_s = t0.elapsed().as_secs_f64();
        res.hang = hang;
        res
    };

    let result: SweepResult = std::thread::scope(|s| {
        // watchdog: a case that does not return within CASE_TIMEOUT_S is an unbounded loop
        s.spawn(|| {
            while !finished.load(Ordering::SeqCst) {
                std::thread::sleep(Duration::from_millis(250));
                let now = epoch.elapsed().as_millis() as u64;
                for w in 0..threads {
                    if let Some((unit, idx, inner, mode, started)) = progress.get(w) {
                        if now.saturating_sub(started) > CASE_TIMEOUT_S * 1000 {
                            // confirm it is still the same case
                            if progress.get(w).map(|x| (x.0, x.1, x.2, x.4)) != Some((unit, idx, inner, started)) {
                                continue;
                            }
                            let partial = std::mem::replace(&mut *total.lock().unwrap(), Local::new(nt));
                            let hang = input_at(group, &units, unit, idx, inner).map(|(ti, input)| {
                                json!({"target": group.targets[ti].name, "input_hex": hex(&input), "mode": mode.label(), "seconds": CASE_TIMEOUT_S})
                            });
                            let res = finish(partial, false, hang);
                            (cfg.on_hang)(res);
                            // on_hang exits the process; if it returns, stop the sweep
                            stop.store(true, Ordering::SeqCst);
                            return;
                        }
                    }
                }
            }
        });
        let mut handles = Vec::new();
        for w in 0..threads {
            let (units, next, done, capped, stop, total, mach, progress, baselines, viol_ns) = (&units, &next, &done, &capped, &stop, &total, &mach, &progress, &baselines, &viol_ns);
            let deadline = cfg.deadline;
            handles.push(s.spawn(move || {
                let mut local = Local::new(nt);
                let mut modes: Vec<Mode> = Vec::new();
                'units: loop {
                    if stop.load(Ordering::SeqCst) {
                        break;
                    }
                    if Instant::now() > deadline {
                        capped.store(true, Ordering::SeqCst);
                        break;
                    }
                    let k = next.fetch_add(1, Ordering::SeqCst);
                    if k >= n {
                        break;
                    }
                    let ui = (k + rot) % n;
                    let u = &units[ui];
                    let t = &group.targets[u.target];
                    if viol_ns[u.target].load(Ordering::Relaxed) > VIOLATION_TIME_BUDGET_NS {
                        continue;
                    }
                    for idx in u.start..u.end {
                        if idx % 16 == 0 {
                            if Instant::now() > deadline {
                                capped.store(true, Ordering::SeqCst);
                                progress.clear(w);
                                break 'units;
                            }
                            if viol_ns[u.target].load(Ordering::Relaxed) > VIOLATION_TIME_BUDGET_NS {
                                progress.clear(w);
                                continue 'units;
                            }
                        }
                        // (input, shape label, weight base, inner index)
                        let run_one = |input: &[u8], shape: &str, inner: u64, local: &mut Local, modes: &mut Vec<Mode>| -> bool {
                            modes_for(t, u.phase, input.len(), modes);
                            for &mode in modes.iter() {
                                progress.set(w, ui, idx, inner, mode, epoch.elapsed().as_millis() as u64);
                                let started = Instant::now();
                                let r = run_case(t, input, mode);
                                if matches!(r, Ran::Viol { .. }) {
                                    viol_ns[u.target].fetch_add(started.elapsed().as_nanos() as u64, Ordering::Relaxed);
                                }
                                match r {
                                    Ran::Skip => {
                                        local.skipped += 1;
                                        break;
                                    }
                                    Ran::Harness(m) => {
                                        *mach.lock().unwrap() = Some(format!("{m} (target {}, input {}, mode {})", t.name, hex(input), mode.label()));
                                        stop.store(true, Ordering::SeqCst);
                                        progress.clear(w);
                                        return false;
                                    }
                                    Ran::Class(c) => {
                                        local.evals[u.target] += 1;
                                        if c != baselines[u.target] {
                                            local.nontrivial_cases += 1;
                                            let h = fnv_parts(&[t.name.as_bytes(), c.as_bytes(), shape.as_bytes(), &[mode.kind()]]);
                                            local.nontrivial.insert(h);
                                            // samples: the non-trivial cases with the smallest content hash per
                                            // target (a property of the case, not of the exploration order)
                                            let sh = fnv_parts(&[input, &mode.code().to_le_bytes()]);
                                            if sh < local.sample_bar[u.target] {
                                                local.samples.push(Sample { h: sh, target: t.name.clone(), input: mc_core::show_short(input, 120), mode: mode.label(), outcome: c.clone() });
                                                let mine: Vec<u64> = {
                                                    let mut v: Vec<u64> = local.samples.iter().filter(|s| s.target == t.name).map(|s| s.h).collect();
                                                    v.sort_unstable();
                                                    v.dedup();
                                                    v
                                                };
                                                if mine.len() >= SAMPLES_PER_TARGET {
                                                    local.sample_bar[u.target] = mine[SAMPLES_PER_TARGET - 1];
                                                    let bar = local.sample_bar[u.target];
                                                    local.samples.retain(|s| s.target != t.name || s.h <= bar);
                                                }
                                            }
                                        }
                                        *local.outcomes[u.target].entry(c).or_insert(0) += 1;
                                    }
                                    Ran::Viol { sig, what } => {
                                        local.evals[u.target] += 1;
                                        local.violating_cases += 1;
                                        *local.outcomes[u.target].entry("<violation>".into()).or_insert(0) += 1;
                                        let weight = (input.len() as u64) * 4 + mode.kind() as u64;
                                        let rp = replay_value(group.name, &t.name, input, mode);
                                        let rtext = rp.to_string();
                                        let better = match local.viol.get(&sig) {
                                            None => true,
                                            Some((w0, t0, _)) => (weight, &rtext) < (*w0, t0),
                                        };
                                        if better {
                                            let v = Violation {
                                                property: PROP.into(),
                                                clause: clause_of(&sig).into(),
                                                signature: sig.clone(),
                                                what: format!("{} on input {:?} ({}): {}", t.name, mc_core::show_short(input, 120), mode.label(), what),
                                                replay: rp,
                                                weight,
                                            };
                                            local.viol.insert(sig, (weight, rtext, v));
                                        }
                                    }
                                }
                            }
                            true
                        };
                        match u.phase {
                            Phase::Tokens => {
                                let (input, k) = token_input(t, idx);
                                let shape = format!("tok{k}");
                                if !run_one(&input, &shape, 0, &mut local, &mut modes) {
                                    break 'units;
                                }
                            }
                            Phase::Mut1(si) => {
                                let seed = &t.seeds[si];
                                let m = gen::mutate(&seed.bytes, &seed.fields, idx);
                                let shape = format!("m1:{}:{}", seed.name, m.op);
                                if !run_one(&m.bytes, &shape, 0, &mut local, &mut modes) {
                                    break 'units;
                                }
                            }
                            Phase::Mut2(si) => {
                                let seed = &t.seeds[si];
                                let m1 = gen::mutate(&seed.bytes, &seed.fields, idx);
                                let n2 = gen::mut_count(&m1.bytes, &m1.fields);
                                for j in 0..n2 {
                                    let m2 = gen::mutate(&m1.bytes, &m1.fields, j);
                                    let shape = format!("m2:{}:{}:{}", seed.name, m1.op, m2.op);
                                    if !run_one(&m2.bytes, &shape, j, &mut local, &mut modes) {
                                        break 'units;
                                    }
                                    if j % 512 == 0 && Instant::now() > deadline {
                                        capped.store(true, Ordering::SeqCst);
                                        progress.clear(w);
                                        break 'units;
                                    }
                                }
                            }
                        }
                    }
                    progress.clear(w);
                    done.fetch_add(1, Ordering::SeqCst);
                    // hand partial results over regularly so that a watchdog exit loses little
                    if k % 64 == 0 {
                        let l = std::mem::replace(&mut local, Local::new(nt));
                        total.lock().unwrap().merge(l);
                    }
                }
                progress.clear(w);
                total.lock().unwrap().merge(local);
            }));
        }
        for h in handles {
            let _ = h.join();
        }
        finished.store(true, Ordering::SeqCst);
        let t = std::mem::replace(&mut *total.lock().unwrap(), Local::new(nt));
        let mut res = finish(t, true, None);
        res.machinery = mach.lock().unwrap().clone();
        if res.machinery.is_some() {
            res.complete = false;
        }
        res
    });
    result
}

pub fn token_input_empty(t: &Target) -> (Vec<u8>, usize) {
    let mut v = t.prefix.clone();
    v.extend_from_slice(&t.suffix);
    (v, 0)
}
