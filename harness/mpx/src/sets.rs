//! The enumerated sets. Every set is a full cartesian product (bodies x truncations x chunkings x
//! Pending masks x consumer programs x limits); nothing is sampled.

use crate::exec::{EndKind, Limit, Prog};
use crate::gen::{BodySpec, FieldSpec, Flavour, N_CONTENTS};
use crate::{BodyCtx, Params, TruncCtx, Unit};
use serde_json::{json, Value};

#[derive(Clone, Copy, PartialEq, Eq, Debug)]
pub enum Deliv {
    Whole,
    All1,
    Cut1,
    Cut2,
}

#[derive(Clone, Copy, PartialEq, Eq, Debug)]
pub enum Pend {
    /// no Pending anywhere; Pending before every item (every chunk and the end)
    NoneAll,
    /// NoneAll + Pending at exactly one position, for every position
    Singles,
    /// every subset of positions (positions = chunks + 1)
    Subsets,
}

#[derive(Clone, Copy, PartialEq, Eq, Debug)]
pub enum Trunc {
    /// the full body, clean EOF
    Full,
    /// every proper prefix (0..len) ended by EOF and ended by Err(Incomplete), plus the full body
    /// followed by Err(Incomplete) (the full body with clean EOF is covered by the `Full` sets)
    EveryOffset,
}

#[derive(Clone, Copy, PartialEq, Eq, Debug)]
pub enum Progs {
    ReadAll,
    /// for every field index k of the body: drop after 0/1 chunks; stall after 0/1 chunks (gate
    /// opened before / after pending source releases); park (hand to another task that drops it
    /// before / after pending source releases) after 0/1 chunks
    Consumers,
}

#[derive(Clone, Debug)]
pub struct Plan {
    pub deliveries: Vec<Deliv>,
    pub pend: Pend,
    pub trunc: Trunc,
    pub progs: Progs,
    pub limits: Vec<Limit>,
}

fn pend_options(n_chunks: usize, mode: Pend, all1: bool) -> Vec<(u64, bool)> {
    let positions = n_chunks + 1;
    if all1 {
        // positions can exceed 64: none / all / every other one
        return vec![(0, false), (0, true), (0xAAAA_AAAA_AAAA_AAAA, false)];
    }
    match mode {
        Pend::NoneAll => vec![(0, false), (0, true)],
        Pend::Singles => {
            let mut v = vec![(0, false), (0, true)];
            if positions > 1 {
                for i in 0..positions {
                    v.push((1u64 << i, false));
                }
            }
            v
        }
        Pend::Subsets => (0..(1u64 << positions)).map(|m| (m, false)).collect(),
    }
}

fn prog_options(n_fields: usize, progs: Progs) -> Vec<(Prog, bool)> {
    match progs {
        Progs::ReadAll => vec![(Prog::ReadAll, false)],
        Progs::Consumers => {
            let mut v = Vec::new();
            for k in 0..n_fields as u8 {
                for after in 0..2u8 {
                    v.push((Prog::Drop { k, after }, false));
                    for ef in [false, true] {
                        v.push((Prog::Stall { k, after }, ef));
                        v.push((Prog::Park { k, after }, ef));
                    }
                }
            }
            v
        }
    }
}

pub fn enumerate(plan: &Plan, b: &BodyCtx, f: &mut dyn FnMut(&TruncCtx, &Params)) {
    let len = b.bytes.len();
    let mut truncs: Vec<(Option<usize>, EndKind)> = Vec::new();
    if plan.trunc != Trunc::EveryOffset {
        truncs.push((None, EndKind::Eof));
    }
    if plan.trunc != Trunc::Full {
        for t in 0..len {
            truncs.push((Some(t), EndKind::Eof));
            truncs.push((Some(t), EndKind::Err));
        }
        truncs.push((None, EndKind::Err));
    }
    let n_fields = b.spec.as_ref().map(|s| s.fields.len()).unwrap_or(0);
    let progs = prog_options(n_fields, plan.progs);
    let mut last_t: Option<(Option<usize>, TruncCtx)> = None;
    for (t, end) in truncs {
        if last_t.as_ref().map(|(lt, _)| *lt != t).unwrap_or(true) {
            last_t = Some((t, b.trunc(t)));
        }
        let tc = &last_t.as_ref().unwrap().1;
        let n = tc.len;
        for &d in &plan.deliveries {
            let mut cutlists: Vec<Vec<usize>> = Vec::new();
            match d {
                Deliv::Whole | Deliv::All1 => cutlists.push(vec![]),
                Deliv::Cut1 => {
                    for c in 1..n {
                        cutlists.push(vec![c]);
                    }
                }
                Deliv::Cut2 => {
                    for c1 in 1..n {
                        for c2 in c1 + 1..n {
                            cutlists.push(vec![c1, c2]);
                        }
                    }
                }
            }
            let all1 = d == Deliv::All1;
            if all1 && n < 2 {
                continue; // identical to Whole
            }
            for cuts in cutlists {
                let n_chunks = crate::exec::chunk_count(n, &cuts, all1);
                for (mask, pall) in pend_options(n_chunks, plan.pend, all1) {
                    for &(prog, env_first) in &progs {
                        for &limit in &plan.limits {
                            let p = Params {
                                trunc: t,
                                end,
                                cuts: cuts.clone(),
                                all1,
                                pend_mask: mask,
                                pend_all: pall,
                                prog,
                                limit,
                                env_first,
                            };
                            f(tc, &p);
                        }
                    }
                }
            }
        }
    }
}

/// All field lists with `min..=max` fields over the given content ids x {without, with} CL.
fn field_lists(min: usize, max: usize, contents: &[u8]) -> Vec<Vec<FieldSpec>> {
    let mut variants = Vec::new();
    for &c in contents {
        for cl in [false, true] {
            variants.push(FieldSpec { content: c, cl });
        }
    }
    let mut out: Vec<Vec<FieldSpec>> = Vec::new();
    let mut cur: Vec<Vec<FieldSpec>> = vec![vec![]];
    for n in 0..=max {
        if n >= min {
            out.extend(cur.iter().cloned());
        }
        if n == max {
            break;
        }
        let mut next = Vec::with_capacity(cur.len() * variants.len());
        for l in &cur {
            for v in &variants {
                let mut l2 = l.clone();
                l2.push(*v);
                next.push(l2);
            }
        }
        cur = next;
    }
    out
}

struct BodySet {
    min_fields: usize,
    max_fields: usize,
    contents: Vec<u8>,
    flavours: Vec<Flavour>,
    boundaries: Vec<u8>,
    /// (preamble, epilogue) variants
    pre_epi: Vec<(u8, u8)>,
}

impl BodySet {
    fn specs(&self) -> Vec<BodySpec> {
        let mut v = Vec::new();
        for fl in field_lists(self.min_fields, self.max_fields, &self.contents) {
            for &flavour in &self.flavours {
                for &boundary in &self.boundaries {
                    for &(pre, epi) in &self.pre_epi {
                        v.push(BodySpec { flavour, boundary, fields: fl.clone(), pre, epi });
                    }
                }
            }
        }
        v
    }
    fn describe(&self) -> Value {
        json!({
            "fields": format!("{}..={}", self.min_fields, self.max_fields),
            "content_ids": self.contents,
            "content_length_header": "without and with (truthful)",
            "flavours": self.flavours.iter().map(|f| format!("{f:?}")).collect::<Vec<_>>(),
            "boundaries": self.boundaries.iter().map(|&b| crate::gen::boundary_str(b)).collect::<Vec<_>>(),
            "preamble_epilogue": self.pre_epi,
        })
    }
}

struct SetDef {
    name: &'static str,
    bodies: Vec<BodySet>,
    plan: Plan,
}

const ALL_PE: [(u8, u8); 4] = [(0, 0), (1, 0), (0, 1), (1, 1)];

fn all_contents() -> Vec<u8> {
    (0..N_CONTENTS as u8).collect()
}
/// empty, a, CR, CRLF, CRLF--, bare-CR (mid), text-CRLF-text, delimiter+junk, delimiter+junk+"--"
fn core_contents() -> Vec<u8> {
    vec![0, 1, 2, 4, 6, 9, 12, 15, 17]
}

fn defs(thorough: bool) -> Vec<SetDef> {
    use Deliv::*;
    use Flavour::*;
    let both = vec![Mixed, Form];
    let new = vec![Limit::New];
    let mut v = Vec::new();

    // A: the whole grammar under coarse deliveries
    v.push(SetDef {
        name: "A:grammar-x-whole-and-all-1-byte",
        bodies: vec![BodySet {
            min_fields: 0,
            max_fields: if thorough { 3 } else { 2 },
            contents: all_contents(),
            flavours: both.clone(),
            boundaries: (0..crate::gen::N_BOUNDARIES).collect(),
            pre_epi: ALL_PE.to_vec(),
        }],
        plan: Plan { deliveries: vec![Whole, All1], pend: Pend::NoneAll, trunc: Trunc::Full, progs: Progs::ReadAll, limits: new.clone() },
    });

    // K: boundaries that begin / end in dashes ("xyz--", "b-", "--b")
    v.push(SetDef {
        name: "K:dash-boundaries-x-every-1-cut",
        bodies: vec![
            BodySet { min_fields: 0, max_fields: 3, contents: core_contents(), flavours: vec![Mixed], boundaries: vec![2, 3, 4], pre_epi: vec![(0, 0)] },
            BodySet { min_fields: 0, max_fields: if thorough { 2 } else { 1 }, contents: all_contents(), flavours: both.clone(), boundaries: vec![2, 3, 4], pre_epi: ALL_PE.to_vec() },
        ],
        plan: Plan { deliveries: vec![Cut1], pend: if thorough { Pend::Singles } else { Pend::NoneAll }, trunc: Trunc::Full, progs: Progs::ReadAll, limits: new.clone() },
    });
    v.push(SetDef {
        name: "K2:dash-boundaries-x-every-truncation-offset",
        bodies: vec![BodySet { min_fields: 0, max_fields: 2, contents: if thorough { all_contents() } else { core_contents() }, flavours: vec![Mixed], boundaries: vec![2, 3, 4], pre_epi: vec![(0, 0)] }],
        plan: Plan { deliveries: if thorough { vec![Whole, All1, Cut1] } else { vec![Whole, All1] }, pend: Pend::NoneAll, trunc: Trunc::EveryOffset, progs: Progs::ReadAll, limits: new.clone() },
    });

    // B: every single cut
    v.push(SetDef {
        name: "B:every-1-cut",
        bodies: if thorough {
            vec![BodySet { min_fields: 0, max_fields: 2, contents: all_contents(), flavours: both.clone(), boundaries: vec![0, 1], pre_epi: ALL_PE.to_vec() }]
        } else {
            vec![
                BodySet { min_fields: 0, max_fields: 1, contents: all_contents(), flavours: both.clone(), boundaries: vec![0, 1], pre_epi: ALL_PE.to_vec() },
                BodySet { min_fields: 2, max_fields: 2, contents: all_contents(), flavours: both.clone(), boundaries: vec![0], pre_epi: vec![(0, 0)] },
                BodySet { min_fields: 2, max_fields: 2, contents: core_contents(), flavours: vec![Mixed], boundaries: vec![1], pre_epi: vec![(0, 0)] },
            ]
        },
        plan: Plan { deliveries: vec![Cut1], pend: if thorough { Pend::Subsets } else { Pend::Singles }, trunc: Trunc::Full, progs: Progs::ReadAll, limits: new.clone() },
    });

    // C: every truncation offset under coarse deliveries
    v.push(SetDef {
        name: "C:every-truncation-offset-x-whole-and-all-1-byte",
        bodies: if thorough {
            vec![BodySet { min_fields: 0, max_fields: 2, contents: all_contents(), flavours: both.clone(), boundaries: vec![0, 1], pre_epi: ALL_PE.to_vec() }]
        } else {
            vec![
                BodySet { min_fields: 0, max_fields: 1, contents: all_contents(), flavours: both.clone(), boundaries: vec![0, 1], pre_epi: ALL_PE.to_vec() },
                BodySet { min_fields: 2, max_fields: 2, contents: all_contents(), flavours: vec![Mixed], boundaries: vec![0], pre_epi: vec![(0, 0)] },
            ]
        },
        plan: Plan { deliveries: vec![Whole, All1], pend: Pend::NoneAll, trunc: Trunc::EveryOffset, progs: Progs::ReadAll, limits: new.clone() },
    });

    // D: every truncation offset x every single cut
    v.push(SetDef {
        name: "D:every-truncation-offset-x-every-1-cut",
        bodies: if thorough {
            vec![
                BodySet { min_fields: 0, max_fields: 1, contents: all_contents(), flavours: both.clone(), boundaries: vec![0, 1], pre_epi: ALL_PE.to_vec() },
                BodySet { min_fields: 2, max_fields: 2, contents: all_contents(), flavours: vec![Mixed], boundaries: vec![0], pre_epi: vec![(0, 0)] },
            ]
        } else {
            vec![BodySet { min_fields: 0, max_fields: 1, contents: all_contents(), flavours: vec![Mixed], boundaries: vec![0], pre_epi: ALL_PE.to_vec() }]
        },
        plan: Plan { deliveries: vec![Cut1], pend: Pend::NoneAll, trunc: Trunc::EveryOffset, progs: Progs::ReadAll, limits: new.clone() },
    });

    // E: every pair of cuts
    v.push(SetDef {
        name: "E:every-2-cut",
        bodies: if thorough {
            vec![
                BodySet { min_fields: 0, max_fields: 1, contents: all_contents(), flavours: both.clone(), boundaries: vec![0, 1], pre_epi: vec![(0, 0), (1, 1)] },
                BodySet { min_fields: 2, max_fields: 2, contents: all_contents(), flavours: vec![Mixed], boundaries: vec![0], pre_epi: vec![(0, 0)] },
            ]
        } else {
            vec![BodySet { min_fields: 0, max_fields: 1, contents: all_contents(), flavours: vec![Mixed], boundaries: vec![0], pre_epi: vec![(0, 0), (1, 1)] }]
        },
        plan: Plan { deliveries: vec![Cut2], pend: if thorough { Pend::Singles } else { Pend::NoneAll }, trunc: Trunc::Full, progs: Progs::ReadAll, limits: new.clone() },
    });
    if thorough {
        v.push(SetDef {
            name: "E2:every-2-cut-x-every-pending-subset",
            bodies: vec![BodySet { min_fields: 0, max_fields: 1, contents: all_contents(), flavours: vec![Mixed], boundaries: vec![0], pre_epi: vec![(0, 0)] }],
            plan: Plan { deliveries: vec![Cut2], pend: Pend::Subsets, trunc: Trunc::Full, progs: Progs::ReadAll, limits: new.clone() },
        });
        v.push(SetDef {
            name: "F:every-truncation-offset-x-every-2-cut",
            bodies: vec![BodySet { min_fields: 0, max_fields: 1, contents: all_contents(), flavours: vec![Mixed], boundaries: vec![0], pre_epi: vec![(0, 0), (1, 1)] }],
            plan: Plan { deliveries: vec![Cut2], pend: Pend::NoneAll, trunc: Trunc::EveryOffset, progs: Progs::ReadAll, limits: new.clone() },
        });
    }

    if thorough {
        v.push(SetDef {
            name: "B3:every-1-cut-on-3-field-bodies",
            bodies: vec![BodySet { min_fields: 3, max_fields: 3, contents: core_contents(), flavours: vec![Mixed], boundaries: vec![0], pre_epi: vec![(0, 0)] }],
            plan: Plan { deliveries: vec![Cut1], pend: Pend::Subsets, trunc: Trunc::Full, progs: Progs::ReadAll, limits: new.clone() },
        });
        v.push(SetDef {
            name: "D2:every-truncation-offset-x-every-1-cut-x-every-pending-subset",
            bodies: vec![BodySet { min_fields: 0, max_fields: 1, contents: all_contents(), flavours: vec![Mixed], boundaries: vec![0], pre_epi: ALL_PE.to_vec() }],
            plan: Plan { deliveries: vec![Cut1], pend: Pend::Subsets, trunc: Trunc::EveryOffset, progs: Progs::ReadAll, limits: new.clone() },
        });
        v.push(SetDef {
            name: "D3:every-truncation-offset-x-every-1-cut-on-2-field-form-data-bodies",
            bodies: vec![BodySet { min_fields: 2, max_fields: 2, contents: core_contents(), flavours: vec![Form], boundaries: vec![0], pre_epi: vec![(0, 0)] }],
            plan: Plan { deliveries: vec![Cut1], pend: Pend::NoneAll, trunc: Trunc::EveryOffset, progs: Progs::ReadAll, limits: new.clone() },
        });
        v.push(SetDef {
            name: "E3:every-2-cut-on-2-field-form-data-bodies",
            bodies: vec![BodySet { min_fields: 2, max_fields: 2, contents: core_contents(), flavours: vec![Form], boundaries: vec![0], pre_epi: vec![(0, 0)] }],
            plan: Plan { deliveries: vec![Cut2], pend: Pend::NoneAll, trunc: Trunc::Full, progs: Progs::ReadAll, limits: new.clone() },
        });
        v.push(SetDef {
            name: "G2:consumer-programs-x-every-2-cut",
            bodies: vec![BodySet { min_fields: 1, max_fields: 2, contents: core_contents(), flavours: vec![Mixed], boundaries: vec![0], pre_epi: vec![(0, 0)] }],
            plan: Plan { deliveries: vec![Cut2], pend: Pend::NoneAll, trunc: Trunc::Full, progs: Progs::Consumers, limits: new.clone() },
        });
        v.push(SetDef {
            name: "I2:buffer-limits-x-every-2-cut",
            bodies: vec![BodySet { min_fields: 0, max_fields: 1, contents: vec![0, 1, 2, 4, 6, 9, 12, 15, N_CONTENTS as u8], flavours: both.clone(), boundaries: vec![0], pre_epi: vec![(0, 0), (1, 1)] }],
            plan: Plan { deliveries: vec![Cut2], pend: Pend::NoneAll, trunc: Trunc::Full, progs: Progs::ReadAll, limits: vec![Limit::Cfg(16), Limit::Cfg(64), Limit::Cfg(65_536)] },
        });
    }

    // G: consumer programs
    v.push(SetDef {
        name: "G:consumer-programs-x-whole-all-1-byte-every-1-cut",
        bodies: if thorough {
            vec![
                BodySet { min_fields: 1, max_fields: 2, contents: all_contents(), flavours: vec![Mixed], boundaries: vec![0], pre_epi: vec![(0, 0)] },
                BodySet { min_fields: 1, max_fields: 2, contents: core_contents(), flavours: vec![Form], boundaries: vec![0], pre_epi: vec![(1, 1)] },
                BodySet { min_fields: 3, max_fields: 3, contents: vec![1, 2, 9], flavours: vec![Mixed], boundaries: vec![0], pre_epi: vec![(0, 0)] },
            ]
        } else {
            vec![BodySet { min_fields: 1, max_fields: 2, contents: core_contents(), flavours: vec![Mixed], boundaries: vec![0], pre_epi: vec![(0, 0)] }]
        },
        plan: Plan { deliveries: vec![Whole, All1, Cut1], pend: Pend::NoneAll, trunc: Trunc::Full, progs: Progs::Consumers, limits: new.clone() },
    });
    v.push(SetDef {
        name: "H:consumer-programs-x-every-truncation-offset",
        bodies: if thorough {
            vec![
                BodySet { min_fields: 1, max_fields: 1, contents: all_contents(), flavours: vec![Mixed], boundaries: vec![0, 1], pre_epi: vec![(0, 0)] },
                BodySet { min_fields: 2, max_fields: 2, contents: core_contents(), flavours: vec![Mixed], boundaries: vec![0], pre_epi: vec![(0, 0)] },
            ]
        } else {
            vec![BodySet { min_fields: 1, max_fields: 1, contents: all_contents(), flavours: vec![Mixed], boundaries: vec![0], pre_epi: vec![(0, 0)] }]
        },
        plan: Plan { deliveries: if thorough { vec![Whole, All1, Cut1] } else { vec![Whole, All1] }, pend: Pend::NoneAll, trunc: Trunc::EveryOffset, progs: Progs::Consumers, limits: new.clone() },
    });

    // I: buffer limits through MultipartConfig + FromRequest
    let limits = vec![Limit::Cfg(16), Limit::Cfg(64), Limit::Cfg(65_536)];
    let mut with_long = core_contents();
    with_long.push(N_CONTENTS as u8); // the 150-byte content, only used here
    v.push(SetDef {
        name: "I:buffer-limits-16-64-65536-via-MultipartConfig",
        bodies: if thorough {
            vec![
                BodySet { min_fields: 0, max_fields: 2, contents: with_long.clone(), flavours: both.clone(), boundaries: vec![0], pre_epi: vec![(0, 0), (1, 1)] },
                BodySet { min_fields: 0, max_fields: 1, contents: with_long.clone(), flavours: both.clone(), boundaries: vec![1], pre_epi: vec![(0, 0), (1, 1)] },
            ]
        } else {
            vec![
                BodySet { min_fields: 0, max_fields: 1, contents: with_long.clone(), flavours: both.clone(), boundaries: vec![0, 1], pre_epi: vec![(0, 0), (1, 1)] },
                BodySet { min_fields: 2, max_fields: 2, contents: vec![1, 2, 9, N_CONTENTS as u8], flavours: both.clone(), boundaries: vec![0], pre_epi: vec![(0, 0)] },
            ]
        },
        plan: Plan { deliveries: vec![Whole, All1, Cut1], pend: Pend::NoneAll, trunc: Trunc::Full, progs: Progs::ReadAll, limits: limits.clone() },
    });
    v.push(SetDef {
        name: "J:buffer-limits-x-every-truncation-offset",
        bodies: vec![BodySet {
            min_fields: 1,
            max_fields: 1,
            contents: if thorough { with_long.clone() } else { vec![1, 2, 9, N_CONTENTS as u8] },
            flavours: both.clone(),
            boundaries: vec![0],
            pre_epi: vec![(0, 0)],
        }],
        plan: Plan { deliveries: vec![Whole, All1], pend: Pend::NoneAll, trunc: Trunc::EveryOffset, progs: Progs::ReadAll, limits },
    });
    v
}

pub fn units(thorough: bool) -> Vec<Unit> {
    let mut out = Vec::new();
    for d in defs(thorough) {
        let mut seen = std::collections::HashSet::new();
        for bs in &d.bodies {
            for spec in bs.specs() {
                if seen.insert(spec.clone()) {
                    out.push(Unit { set: d.name, spec, plan: d.plan.clone() });
                }
            }
        }
    }
    out
}

pub fn describe(thorough: bool) -> Value {
    let alphabet: Vec<Value> = crate::gen::contents("B")
        .iter()
        .enumerate()
        .map(|(i, c)| json!({"id": i, "name": c.name, "bytes_for_boundary_B": mc_core::show_short(&c.bytes, 60), "kind": format!("{:?}", c.kind)}))
        .collect();
    let sets: Vec<Value> = defs(thorough)
        .iter()
        .map(|d| {
            json!({
                "name": d.name,
                "bodies": d.bodies.iter().map(|b| b.describe()).collect::<Vec<_>>(),
                "deliveries": d.plan.deliveries.iter().map(|x| format!("{x:?}")).collect::<Vec<_>>(),
                "pending": format!("{:?}", d.plan.pend),
                "truncation": format!("{:?}", d.plan.trunc),
                "consumers": format!("{:?}", d.plan.progs),
                "limits": d.plan.limits.iter().map(|l| format!("{l:?}")).collect::<Vec<_>>(),
            })
        })
        .collect();
    json!({"content_alphabet": alphabet, "sets": sets})
}
