//! Body generator: a finite grammar of multipart bodies, emitted as bytes + ground truth + a
//! region map (which byte belongs to preamble / delimiter line / header block / content /
//! epilogue). The ground truth is cross-checked against the independent reference parser
//! (`refparse`) on every generated body.

use serde::{Deserialize, Serialize};

#[derive(Clone, Copy, PartialEq, Eq, Hash, Debug, Serialize, Deserialize)]
pub enum Flavour {
    /// `multipart/mixed`, one tiny header `a: 1` per part (short bodies, fits a 16 byte limit)
    Mixed,
    /// `multipart/form-data`, content-disposition with name (+ content-type / filename by index)
    Form,
}

#[derive(Clone, Copy, PartialEq, Eq, Hash, Debug, Serialize, Deserialize)]
pub struct FieldSpec {
    /// index into `contents(boundary)`
    pub content: u8,
    /// truthful per-field Content-Length header present
    pub cl: bool,
}

#[derive(Clone, PartialEq, Eq, Hash, Debug, Serialize, Deserialize)]
pub struct BodySpec {
    pub flavour: Flavour,
    /// index into `boundary_str`
    pub boundary: u8,
    pub fields: Vec<FieldSpec>,
    /// 0 = none, 1 = preamble with look-alike lines
    pub pre: u8,
    /// 0 = none, 1 = epilogue containing a look-alike part
    pub epi: u8,
}

pub const B70: &str = "0123456789abcdefghijklmnopqrstuvwxyzABCDEFGHIJKLMNOPQRSTUVWXYZ01234567";

/// Boundary set: 0 = "b", 1 = 70 characters, 2..4 = boundaries that themselves begin / end in
/// dashes (legal: RFC 2046 bchars include '-'), so that a delimiter line may not be classified by
/// its tail or head alone.
pub const N_BOUNDARIES: u8 = 5;
pub fn boundary_str(id: u8) -> &'static str {
    match id {
        0 => "b",
        1 => B70,
        2 => "xyz--",
        3 => "b-",
        _ => "--b",
    }
}

/// Content class: how the body that contains it is to be judged.
#[derive(Clone, Copy, PartialEq, Eq, Debug)]
pub enum ContentKind {
    /// does not contain `CRLF "--" boundary`: the body stays well-formed
    Plain,
    /// contains `CRLF "--" boundary <junk>`: by the RFC 2046 grammar the body is malformed (a
    /// delimiter followed by something that is neither CRLF nor "--"); a lenient reading treats it
    /// as content. Either an error or the lenient reading is accepted, nothing else.
    JunkDelimiter,
}

pub struct Content {
    pub name: &'static str,
    pub bytes: Vec<u8>,
    pub kind: ContentKind,
}

/// The content alphabet for a given boundary, simplest first.
pub fn contents(boundary: &str) -> Vec<Content> {
    let b = boundary.as_bytes();
    let cat = |parts: &[&[u8]]| -> Vec<u8> { parts.concat() };
    let strict_prefix = &b[..b.len() - 1];
    let mut variant = b.to_vec();
    let last = variant.len() - 1;
    variant[last] = if variant[last] == b'c' { b'd' } else { b'c' };
    let p = |name, bytes| Content { name, bytes, kind: ContentKind::Plain };
    let j = |name, bytes| Content { name, bytes, kind: ContentKind::JunkDelimiter };
    vec![
        p("empty", vec![]),
        p("a", b"a".to_vec()),
        p("CR", b"\r".to_vec()),
        p("LF", b"\n".to_vec()),
        p("CRLF", b"\r\n".to_vec()),
        p("dashes", b"--".to_vec()),
        p("CRLF-dashes", b"\r\n--".to_vec()),
        p("CRLF-dashes-boundary-strict-prefix", cat(&[b"\r\n--", strict_prefix, b"\r\n"])),
        p("CRLF-dashes-boundary-one-char-variant", cat(&[b"\r\n--", &variant])),
        p("bareCR-dashes-boundary-mid", cat(&[b"ab\r--", b, b"xx"])),
        p("bareCR-dashes-boundary-start", cat(&[b"\r--", b, b"y"])),
        p("binary", vec![0x00, 0xff, 0x80, b'a', 0x00]),
        p("text-CRLF-text", b"xy\r\nz".to_vec()),
        p("text-CR", b"x\r".to_vec()),
        p("midline-dashes-boundary", cat(&[b"x--", b])),
        j("delimiter-plus-junk", cat(&[b"q\r\n--", b, b"x"])),
        j("delimiter-plus-junk-then-part-lookalike", cat(&[b"q\r\n--", b, b"x\r\nz: 1\r\n\r\nw"])),
        // a line that starts like a delimiter and ends like a close delimiter
        j("delimiter-plus-junk-plus-dashes", cat(&[b"q\r\n--", b, b"Q--"])),
        j("delimiter-plus-junk-plus-dashes-CRLF-text", cat(&[b"q\r\n--", b, b"Q--\r\nw"])),
        // id N_CONTENTS: long content, used only by the buffer-limit sets
        p("long-150-bytes", b"0123456789\r\n--".repeat(10)),
    ]
}

/// size of the general content alphabet (id N_CONTENTS itself is the long content of the limit sets)
pub const N_CONTENTS: usize = 19;

#[derive(Clone, Copy, PartialEq, Eq, Hash, Debug, Serialize, Deserialize)]
pub enum RegionKind {
    Preamble,
    /// (CRLF) "--" boundary ["--"] CRLF, including the CRLF that precedes the dashes
    Delimiter,
    Headers,
    Content,
    Epilogue,
}

#[derive(Clone, Debug)]
pub struct Region {
    pub start: usize,
    pub end: usize,
    pub kind: RegionKind,
    /// part index the region belongs to (delimiter i precedes part i; the close delimiter has n)
    pub part: usize,
}

#[derive(Clone, Debug, PartialEq, Eq)]
pub struct GtField {
    /// (lower-case name, value) in the order written
    pub headers: Vec<(String, Vec<u8>)>,
    pub name: Option<String>,
    pub content: Vec<u8>,
    pub content_start: usize,
}

#[derive(Clone, Debug)]
pub struct Body {
    pub bytes: Vec<u8>,
    pub boundary: String,
    pub content_type: String,
    pub fields: Vec<GtField>,
    pub regions: Vec<Region>,
    /// true when some content is of kind JunkDelimiter
    pub has_junk: bool,
    pub preamble_len: usize,
}

pub fn content_type_for(flavour: Flavour, boundary: &str) -> String {
    match flavour {
        Flavour::Mixed => format!("multipart/mixed; boundary={boundary}"),
        Flavour::Form => format!("multipart/form-data; boundary={boundary}"),
    }
}

pub fn generate(spec: &BodySpec) -> Body {
    let boundary = boundary_str(spec.boundary);
    let alphabet = contents(boundary);
    let mut out: Vec<u8> = Vec::new();
    let mut regions = Vec::new();
    let mut fields = Vec::new();
    let mut has_junk = false;

    if spec.pre == 1 {
        let s = out.len();
        out.extend_from_slice(b"pre\r\n");
        out.extend_from_slice(format!("x--{boundary}\r\n").as_bytes());
        out.extend_from_slice(format!("--{boundary}x\r\n").as_bytes());
        regions.push(Region { start: s, end: out.len(), kind: RegionKind::Preamble, part: 0 });
    }
    let preamble_len = out.len();

    let n = spec.fields.len();
    for (i, f) in spec.fields.iter().enumerate() {
        // delimiter line i: for i == 0 there is no preceding CRLF of its own (the preamble's last
        // CRLF, if any, was emitted with the preamble)
        let s = out.len();
        if i > 0 {
            out.extend_from_slice(b"\r\n");
        }
        out.extend_from_slice(format!("--{boundary}\r\n").as_bytes());
        regions.push(Region { start: s, end: out.len(), kind: RegionKind::Delimiter, part: i });

        let c = &alphabet[f.content as usize];
        if c.kind == ContentKind::JunkDelimiter {
            has_junk = true;
        }
        let mut headers: Vec<(String, Vec<u8>)> = Vec::new();
        let mut name = None;
        let hs = out.len();
        let mut put = |out: &mut Vec<u8>, n: &str, v: String| {
            out.extend_from_slice(n.as_bytes());
            out.extend_from_slice(b": ");
            out.extend_from_slice(v.as_bytes());
            out.extend_from_slice(b"\r\n");
            headers.push((n.to_ascii_lowercase(), v.into_bytes()));
        };
        match spec.flavour {
            Flavour::Mixed => {
                put(&mut out, "a", "1".into());
                if i % 2 == 1 {
                    // repeated header name: both values must be delivered, in order
                    put(&mut out, "a", "2".into());
                }
            }
            Flavour::Form => {
                let nm = format!("f{i}");
                match i % 3 {
                    0 => put(&mut out, "Content-Disposition", format!("form-data; name=\"{nm}\"")),
                    1 => {
                        put(&mut out, "Content-Disposition", format!("form-data; name=\"{nm}\""));
                        put(&mut out, "Content-Type", "text/plain".into());
                    }
                    _ => {
                        put(
                            &mut out,
                            "Content-Disposition",
                            format!("form-data; name=\"{nm}\"; filename=\"x.bin\""),
                        );
                        put(&mut out, "Content-Type", "application/octet-stream".into());
                    }
                }
                name = Some(nm);
            }
        }
        if f.cl {
            put(&mut out, "Content-Length", c.bytes.len().to_string());
        }
        out.extend_from_slice(b"\r\n");
        regions.push(Region { start: hs, end: out.len(), kind: RegionKind::Headers, part: i });

        let cs = out.len();
        out.extend_from_slice(&c.bytes);
        regions.push(Region { start: cs, end: out.len(), kind: RegionKind::Content, part: i });
        fields.push(GtField { headers, name, content: c.bytes.clone(), content_start: cs });
    }

    // close delimiter
    let s = out.len();
    if n > 0 {
        out.extend_from_slice(b"\r\n");
    }
    out.extend_from_slice(format!("--{boundary}--\r\n").as_bytes());
    regions.push(Region { start: s, end: out.len(), kind: RegionKind::Delimiter, part: n });

    if spec.epi == 1 {
        let s = out.len();
        out.extend_from_slice(
            format!("epi\r\n--{boundary}\r\nz: 1\r\n\r\nq\r\n--{boundary}--\r\n").as_bytes(),
        );
        regions.push(Region { start: s, end: out.len(), kind: RegionKind::Epilogue, part: n });
    }

    Body {
        bytes: out,
        boundary: boundary.to_string(),
        content_type: content_type_for(spec.flavour, boundary),
        fields,
        regions,
        has_junk,
        preamble_len,
    }
}

impl Body {
    /// region containing the *gap* before byte `off` (a cut at `off` separates byte off-1 from
    /// byte off). A cut is "inside" a region when both neighbours belong to it.
    pub fn region_of_cut(&self, off: usize) -> (RegionKind, usize, usize, bool) {
        // returns (kind, part, offset relative to region start, strictly inside)
        for r in &self.regions {
            if off > r.start && off < r.end {
                return (r.kind, r.part, off - r.start, true);
            }
        }
        for r in &self.regions {
            if off == r.start && r.end > r.start {
                return (r.kind, r.part, 0, false);
            }
        }
        (RegionKind::Epilogue, self.fields.len(), 0, false)
    }
}
