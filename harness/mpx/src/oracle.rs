//! Oracle for C15: compares an observation of the real parser with the reference parse of the
//! bytes that were actually delivered.

use crate::exec::{End, EndKind, Ev, Final, Observation, Prog};
use crate::refparse::{cd_name, Parse, Status, Where};
use mc_core::show_short;
use std::collections::BTreeMap;

#[derive(Clone, Debug, PartialEq, Eq)]
pub struct Fail {
    pub clause: &'static str,
    pub signature: String,
    pub what: String,
    /// index of the event at which the observation leaves this reading (events.len() = final state)
    pub at: usize,
}

pub struct Ctx<'a> {
    /// bytes delivered by the source (already truncated)
    pub data: &'a [u8],
    pub boundary: &'a str,
    pub end: EndKind,
    pub prog: Prog,
    pub limit: usize,
    /// some structural unit (line / header block / delimiter) is longer than the limit: the
    /// parser cannot succeed without buffering more than configured, an Overflow error is accepted
    pub relaxed: bool,
    pub max_chunk: usize,
    /// allowance for structural bytes the parser consumed but that no event has reported yet
    pub slack: usize,
}

fn fail(clause: &'static str, signature: impl Into<String>, what: impl Into<String>) -> Fail {
    Fail { clause, signature: signature.into(), what: what.into(), at: usize::MAX }
}

/// true when some CR in `data[from..]` still lacks the look-ahead a delimiter scanner needs to
/// decide whether it starts `CRLF--boundary` (or the bare `CR--boundary` the parser also tries)
fn unresolved_cr(data: &[u8], from: usize, boundary: &str) -> bool {
    let n = data.len();
    let bl = boundary.len();
    (from.min(n)..n).any(|j| {
        if data[j] != b'\r' {
            return false;
        }
        let rem = n - j;
        rem < 4
            || (data[j..].starts_with(b"\r\n--") && rem < bl + 4)
            || (data[j..].starts_with(b"\r--") && rem < bl + 3)
    })
}

fn classify_short(e: &[u8], d_len: usize, boundary: &str) -> &'static str {
    let rest = &e[d_len.min(e.len())..];
    let bare = [b"\r--", boundary.as_bytes()].concat();
    if rest.starts_with(&bare) {
        "field-ended-at-bare-CR-dashes-boundary"
    } else {
        "other"
    }
}

/// Check one observation against one reading (parse) of the delivered bytes.
pub fn check(obs: &Observation, parse: &Parse, cx: &Ctx<'_>) -> Result<(), Fail> {
    let mut at = 0usize;
    check_inner(obs, parse, cx, &mut at).map_err(|mut f| {
        f.at = at;
        f
    })
}

fn check_inner(obs: &Observation, parse: &Parse, cx: &Ctx<'_>, at: &mut usize) -> Result<(), Fail> {
    let wf = matches!(parse.status, Status::WellFormed);
    let clause: &'static str = if wf && cx.end == EndKind::Eof { "a" } else { "b" };
    let nexp = parse.fields.len();
    let mut delivered: Vec<u8> = Vec::new();
    let mut fields_seen = 0usize;
    let mut terminal = false;

    let err_ok = |e: &str| -> Result<(), Fail> {
        match &parse.status {
            Status::Malformed(_) | Status::Lenient(_) => Ok(()),
            Status::WellFormed => {
                if cx.end == EndKind::Err && e.contains("Payload(Incomplete") {
                    return Ok(());
                }
                if cx.relaxed && e.contains("Overflow") {
                    return Ok(());
                }
                Err(fail(
                    clause,
                    format!("error-on-wellformed-body:{e}"),
                    format!("the delivered bytes are a well-formed multipart body but the parser reported {e}"),
                ))
            }
        }
    };

    for (i, ev) in obs.events.iter().enumerate() {
        *at = i;
        if terminal {
            return Err(fail(clause, "events-after-terminal", "harness: event after terminal event"));
        }
        match ev {
            Ev::Field { idx, headers, name, ctype, has_cd } => {
                fields_seen += 1;
                delivered.clear();
                if *idx >= nexp {
                    return Err(fail(
                        clause,
                        "extra-field",
                        format!("parser delivered field #{idx} but the grammar defines only {nexp} part(s) in the delivered bytes"),
                    ));
                }
                let ef = &parse.fields[*idx];
                let mut exp: BTreeMap<String, Vec<Vec<u8>>> = BTreeMap::new();
                for (n, v) in &ef.headers {
                    exp.entry(n.clone()).or_default().push(v.clone());
                }
                if &exp != headers {
                    return Err(fail(
                        clause,
                        "headers-mismatch",
                        format!("field #{idx}: headers {:?} but the body says {:?}", headers, exp),
                    ));
                }
                let cd = ef.header("content-disposition");
                let exp_name = cd.and_then(cd_name);
                let exp_has_cd = cd.map(|v| v.to_ascii_lowercase().starts_with(b"form-data")).unwrap_or(false);
                if &exp_name != name || exp_has_cd != *has_cd {
                    return Err(fail(
                        clause,
                        "name-mismatch",
                        format!("field #{idx}: name {:?} (content-disposition present: {has_cd}) but the body says {:?}", name, exp_name),
                    ));
                }
                let exp_ct = ef.header("content-type").map(|v| String::from_utf8_lossy(v).to_ascii_lowercase());
                if &exp_ct != ctype {
                    return Err(fail(
                        clause,
                        "content-type-mismatch",
                        format!("field #{idx}: content_type() {:?} but the body says {:?}", ctype, exp_ct),
                    ));
                }
            }
            Ev::Chunk { idx, bytes } => {
                delivered.extend_from_slice(bytes);
                let ef = &parse.fields[*idx];
                if !ef.content.starts_with(&delivered) {
                    let (sig, why) = if delivered.starts_with(&ef.content) && ef.complete {
                        let extra = &delivered[ef.content.len()..];
                        if extra == b"\r\n--" && &bytes[..] == b"\r\n--" {
                            // exactly the 4 bytes CR LF - - of the delimiter, as one chunk
                            ("content-extended:CRLF-dashes-of-delimiter-delivered-as-one-content-chunk", "the CRLF-- that starts the delimiter ending the part was delivered as a content chunk")
                        } else if extra.starts_with(b"\r\n--") || b"\r\n--".starts_with(extra) {
                            ("content-extended:delimiter-bytes-delivered-as-content", "bytes of the delimiter that ends the part were delivered as content")
                        } else {
                            ("content-extended:other", "more bytes than the part contains were delivered")
                        }
                    } else {
                        ("content-corrupt", "delivered bytes are not a prefix of the part's content")
                    };
                    return Err(fail(
                        clause,
                        sig,
                        format!(
                            "field #{idx}: {why}: delivered \"{}\", content per grammar \"{}\"",
                            show_short(&delivered, 120),
                            show_short(&ef.content, 120)
                        ),
                    ));
                }
            }
            Ev::FieldEnd { idx, how } => {
                let ef = &parse.fields[*idx];
                match how {
                    End::Clean => {
                        // a part with a (truthful) Content-Length is complete once that many
                        // bytes were delivered, even if the input ends before its delimiter
                        let complete_by_cl = ef
                            .content_length()
                            .map(|n| n as usize == delivered.len() && ef.content.len() >= delivered.len())
                            .unwrap_or(false);
                        if (delivered != ef.content || !ef.complete) && !(complete_by_cl && !ef.complete) {
                            let short = classify_short(&ef.content, delivered.len(), cx.boundary);
                            if short != "other" {
                                return Err(fail(
                                    clause,
                                    format!("content-shortened:{short}"),
                                    format!(
                                        "field #{idx} ended cleanly after \"{}\" but its content per grammar is \"{}\"{}: a bare CR before \"--{}\" is not a delimiter (the delimiter is CRLF \"--\" boundary)",
                                        show_short(&delivered, 120),
                                        show_short(&ef.content, 120),
                                        if ef.complete { "" } else { " (and continues; the body is truncated)" },
                                        show_short(cx.boundary.as_bytes(), 12),
                                    ),
                                ));
                            }
                            if !ef.complete {
                                return Err(fail(
                                    "b",
                                    "truncated-field-reported-complete",
                                    format!(
                                        "field #{idx} ended cleanly after \"{}\" although the delivered bytes end inside this part (no delimiter follows): a cut-off field is reported as complete",
                                        show_short(&delivered, 120)
                                    ),
                                ));
                            }
                            return Err(fail(
                                clause,
                                "content-shortened:other",
                                format!(
                                    "field #{idx} ended cleanly after \"{}\" but its content per grammar is \"{}\"",
                                    show_short(&delivered, 120),
                                    show_short(&ef.content, 120)
                                ),
                            ));
                        }
                    }
                    End::Err(e) => {
                        err_ok(e)?;
                        terminal = true;
                    }
                    End::Dropped | End::Parked => {}
                }
            }
            Ev::MpEnd { how } => {
                terminal = true;
                match how {
                    End::Clean => match &parse.status {
                        Status::Malformed(w) => {
                            return Err(fail(
                                "b",
                                format!("clean-end-on-malformed-body:{w:?}"),
                                format!(
                                    "the delivered bytes are malformed/truncated ({w:?}) but the Multipart stream ended cleanly after {fields_seen} field(s), no error was reported"
                                ),
                            ));
                        }
                        _ => {
                            if fields_seen != nexp {
                                return Err(fail(
                                    clause,
                                    "fields-missing",
                                    format!("Multipart ended cleanly after {fields_seen} field(s), the body has {nexp}"),
                                ));
                            }
                        }
                    },
                    End::Err(e) => err_ok(e)?,
                    _ => {}
                }
            }
        }
    }

    *at = obs.events.len();
    match &obs.fin {
        Final::Completed => {
            if !terminal {
                return Err(fail(clause, "harness-no-terminal", "harness: consumer completed without terminal event"));
            }
        }
        Final::Hang { probe_progress, source_exhausted, .. } => {
            let wher = match &parse.status {
                Status::Malformed(w) => format!("{w:?}"),
                Status::WellFormed => "WellFormedBody".to_string(),
                Status::Lenient(_) => "AfterCloseDelimiter".to_string(),
            };
            if *probe_progress {
                return Err(fail(
                    clause,
                    format!("lost-wakeup:{wher}:source-exhausted={source_exhausted}"),
                    format!(
                        "consumer parked with nothing registered to wake it, yet a poll without wake-up made progress (lost wake-up); prog {:?}, after events {}",
                        cx.prog,
                        summarize(&obs.events)
                    ),
                ));
            }
            let in_content = matches!(parse.status, Status::Malformed(Where::Content));
            let pf = parse.partial();
            let no_cl = pf.map(|f| f.content_length().is_none()).unwrap_or(false);
            if *source_exhausted && cx.end == EndKind::Eof && in_content && no_cl {
                let from = pf.map(|f| f.content_start).unwrap_or(0);
                if unresolved_cr(cx.data, from, cx.boundary) {
                    return Err(fail(
                        "b",
                        "hang:eof-in-content-without-content-length:unresolved-CR-lookahead",
                        format!(
                            "body truncated (stream ended with EOF) while a CR in field content still lacked the look-ahead needed to rule out a delimiter: the parser returns Pending with no waker registered and never reports an error; delivered bytes end with \"{}\"; events {}",
                            show_short(&cx.data[cx.data.len().saturating_sub(12)..], 40),
                            summarize(&obs.events)
                        ),
                    ));
                }
            }
            return Err(fail(
                clause,
                format!(
                    "hang:{wher}:source-exhausted={source_exhausted}:end={:?}:content-length={}",
                    cx.end,
                    if pf.is_some() { if no_cl { "no" } else { "yes" } } else { "n/a" }
                ),
                format!(
                    "consumer never completes: quiescent with no waker registered and a poll without wake-up changes nothing; prog {:?}; events {}",
                    cx.prog,
                    summarize(&obs.events)
                ),
            ));
        }
        Final::Spin => {
            return Err(fail(clause, "spin", format!("consumer kept waking itself without terminating ({} polls)", obs.polls)));
        }
        Final::Panic { loc, msg } => {
            let short = loc.rsplit("actix-multipart/").next().unwrap_or(loc).to_string();
            return Err(fail("panic", format!("panic@{short}"), format!("parser panicked at {loc}: {msg}")));
        }
    }

    // (c) buffering
    let bound = cx.limit + cx.max_chunk + cx.slack;
    if obs.max_buffered > bound {
        return Err(fail(
            "c",
            "buffered-over-limit",
            format!(
                "parser held {} bytes pulled from the source and not yet consumed; configured limit {} (+ one source chunk of {} + {} structural)",
                obs.max_buffered, cx.limit, cx.max_chunk, cx.slack
            ),
        ));
    }
    Ok(())
}

pub fn summarize(events: &[Ev]) -> String {
    let mut s = String::new();
    let mut acc: Vec<u8> = Vec::new();
    let mut nch = 0;
    let flush = |s: &mut String, acc: &mut Vec<u8>, nch: &mut usize| {
        if *nch > 0 {
            s.push_str(&format!(" data[{} chunk(s)]=\"{}\"", nch, show_short(acc, 80)));
        }
        acc.clear();
        *nch = 0;
    };
    for e in events {
        match e {
            Ev::Field { idx, name, .. } => {
                flush(&mut s, &mut acc, &mut nch);
                s.push_str(&format!(" Field#{idx}(name={name:?})"));
            }
            Ev::Chunk { bytes, .. } => {
                acc.extend_from_slice(bytes);
                nch += 1;
            }
            Ev::FieldEnd { idx, how } => {
                flush(&mut s, &mut acc, &mut nch);
                s.push_str(&format!(" FieldEnd#{idx}({how:?})"));
            }
            Ev::MpEnd { how } => {
                flush(&mut s, &mut acc, &mut nch);
                s.push_str(&format!(" MultipartEnd({how:?})"));
            }
        }
    }
    flush(&mut s, &mut acc, &mut nch);
    if s.is_empty() {
        s.push_str(" (none)");
    }
    s
}

/// Abstract outcome used for the distinct-class count (no content bytes, only shape): per field
/// whether data was delivered and how it ended, how the Multipart stream ended, the final state.
pub fn outcome_hash(obs: &Observation) -> u64 {
    let mut acc: u64 = 0xcbf29ce484222325;
    let mut byte = |b: u8| {
        acc ^= b as u64;
        acc = acc.wrapping_mul(0x100000001b3);
    };
    let mut u = |x: u64| {
        for b in x.to_le_bytes() {
            byte(b);
        }
    };
    let mut len = 0usize;
    let end = |e: &End, u: &mut dyn FnMut(u64)| match e {
        End::Clean => u(1),
        End::Err(x) => {
            u(2);
            for b in x.bytes() {
                u(b as u64);
            }
        }
        End::Dropped => u(3),
        End::Parked => u(4),
    };
    for e in &obs.events {
        match e {
            Ev::Field { idx, .. } => {
                u(10 + *idx as u64);
                len = 0;
            }
            Ev::Chunk { bytes, .. } => len += bytes.len(),
            Ev::FieldEnd { how, .. } => {
                u(if len == 0 { 20 } else { 21 });
                end(how, &mut u);
            }
            Ev::MpEnd { how } => {
                u(30);
                end(how, &mut u);
            }
        }
    }
    u(match &obs.fin {
        Final::Completed => 40,
        Final::Hang { probe_progress: true, .. } => 41,
        Final::Hang { .. } => 42,
        Final::Spin => 43,
        Final::Panic { .. } => 44,
    });
    acc
}

/// Accept the observation if it is consistent with one of the readings of the delivered bytes
/// (strict first, then with 1, 2, .. debatable delimiter candidates read as content). When no
/// reading fits, the failure of the reading that matched the longest prefix of events is reported.
pub fn judge(obs: &Observation, parses: &[Parse], cx: &Ctx<'_>) -> Result<(), Fail> {
    let mut best: Option<(Fail, usize)> = None;
    for (pi, p) in parses.iter().enumerate() {
        match check(obs, p, cx) {
            Ok(()) => return Ok(()),
            Err(f) => {
                if best.as_ref().map(|(b, _)| f.at > b.at).unwrap_or(true) {
                    best = Some((f, pi));
                }
            }
        }
    }
    let (mut f, pi) = best.expect("at least one reading");
    // after the consumer dropped / handed away a field the parser skips content that the harness
    // cannot see, so the symptom may lie downstream of the first wrong byte: say so in the signature
    let skipped_before = obs.events.iter().take(f.at.min(obs.events.len())).any(|e| {
        matches!(e, Ev::FieldEnd { how: End::Dropped | End::Parked, .. })
    });
    let _ = pi;
    if skipped_before && f.clause != "panic" && f.clause != "c" {
        f.signature = format!("after-skipped-field:{}", f.signature);
    }
    Err(f)
}
