//! Scripted source stream, scripted consumer programs and the wake-driven executor.
//!
//! The consumer future (which owns the real `actix_multipart::Multipart`) is polled ONLY when its
//! waker was invoked. The source stream answers from a script; a `Gap` makes it return `Pending`
//! and park the waker, and only the harness event "release" wakes it. At quiescence (consumer not
//! woken, no harness event left) an unfinished consumer is a hang; the spurious-poll probe tells a
//! lost wake-up (the probe makes progress) from waiting on nothing (it does not).

use actix_multipart::{Field, Multipart, MultipartConfig};
use actix_web::{error::PayloadError, http::header::HeaderMap, FromRequest, HttpRequest};
use bytes::Bytes;
use futures_core::Stream;
use futures_util::StreamExt as _;
use mc_core::wake::WakeCounter;
use serde::{Deserialize, Serialize};
use std::cell::RefCell;
use std::collections::BTreeMap;
use std::future::Future;
use std::panic::{catch_unwind, AssertUnwindSafe};
use std::pin::Pin;
use std::rc::Rc;
use std::task::{Context, Poll, Waker};

#[derive(Clone, Copy, PartialEq, Eq, Hash, Debug, Serialize, Deserialize)]
pub enum EndKind {
    /// the stream ends with `None`
    Eof,
    /// the stream ends with `Err(PayloadError::Incomplete(None))`
    Err,
}

/// What the consumer does with field `k` (every other field is read fully).
#[derive(Clone, Copy, PartialEq, Eq, Hash, Debug, Serialize, Deserialize)]
pub enum Prog {
    ReadAll,
    /// read `after` chunks of field k (0 or 1), then drop it and ask for the next field
    Drop { k: u8, after: u8 },
    /// read `after` chunks of field k, then wait for a harness gate, then read the rest
    Stall { k: u8, after: u8 },
    /// read `after` chunks of field k, hand the field to "another task" (a slot that the harness
    /// drops as an environment event) and immediately ask for the next field
    Park { k: u8, after: u8 },
}

#[derive(Clone, Copy, PartialEq, Eq, Hash, Debug, Serialize, Deserialize)]
pub enum Limit {
    /// `Multipart::new` (default 64 KiB)
    New,
    /// `MultipartConfig::buffer_limit(n)` in app data + `Multipart::from_request`
    Cfg(u32),
}

impl Limit {
    pub fn value(self) -> usize {
        match self {
            Limit::New => 65_536,
            Limit::Cfg(n) => n as usize,
        }
    }
}

#[derive(Clone, Debug, PartialEq, Eq, Hash)]
pub enum End {
    Clean,
    Err(String),
    Dropped,
    Parked,
}

#[derive(Clone, Debug, PartialEq, Eq, Hash)]
pub enum Ev {
    Field {
        idx: usize,
        headers: BTreeMap<String, Vec<Vec<u8>>>,
        name: Option<String>,
        ctype: Option<String>,
        has_cd: bool,
    },
    Chunk { idx: usize, bytes: Vec<u8> },
    FieldEnd { idx: usize, how: End },
    MpEnd { how: End },
}

#[derive(Clone, Debug, PartialEq, Eq, Hash)]
pub enum Final {
    Completed,
    /// quiescent and unfinished; `probe_progress` = a poll without wake-up changed something
    Hang { probe_progress: bool, source_exhausted: bool, source_pulled: usize },
    /// more polls than any terminating run could need
    Spin,
    Panic { loc: String, msg: String },
}

#[derive(Clone, Debug, PartialEq, Eq, Hash)]
pub struct Observation {
    pub events: Vec<Ev>,
    pub fin: Final,
    /// max over source deliveries of (bytes pulled) - (bytes known consumed), while tracked
    pub max_buffered: usize,
    pub polls: u32,
    pub polls_after_end: u32,
    pub wakes: usize,
}

enum Item {
    Chunk(Bytes),
    Gap,
}

#[derive(Default)]
struct Progress {
    /// lower bound of the body offset the parser has consumed, when known
    consumed: usize,
    tracking: bool,
}

struct SrcState {
    items: Vec<Item>,
    pos: usize,
    end: EndKind,
    err_given: bool,
    released: bool,
    parked: Option<Waker>,
    pulled: usize,
    ended: bool,
    polls_after_end: u32,
    max_buffered: usize,
    progress: Rc<RefCell<Progress>>,
}

struct Src(Rc<RefCell<SrcState>>);

impl Stream for Src {
    type Item = Result<Bytes, PayloadError>;
    fn poll_next(self: Pin<&mut Self>, cx: &mut Context<'_>) -> Poll<Option<Self::Item>> {
        let mut s = self.0.borrow_mut();
        loop {
            let pos = s.pos;
            match s.items.get(pos) {
                Some(Item::Gap) => {
                    if s.released {
                        s.released = false;
                        s.pos += 1;
                        continue;
                    }
                    s.parked = Some(cx.waker().clone());
                    return Poll::Pending;
                }
                Some(Item::Chunk(b)) => {
                    let b = b.clone();
                    s.pos += 1;
                    s.pulled += b.len();
                    let p = s.progress.clone();
                    let p = p.borrow();
                    if p.tracking {
                        let buffered = s.pulled.saturating_sub(p.consumed);
                        if buffered > s.max_buffered {
                            s.max_buffered = buffered;
                        }
                    }
                    return Poll::Ready(Some(Ok(b)));
                }
                None => {
                    if s.ended {
                        s.polls_after_end += 1;
                        return Poll::Ready(None);
                    }
                    match s.end {
                        EndKind::Eof => {
                            s.ended = true;
                            return Poll::Ready(None);
                        }
                        EndKind::Err => {
                            if !s.err_given {
                                s.err_given = true;
                                s.ended = true;
                                return Poll::Ready(Some(Err(PayloadError::Incomplete(None))));
                            }
                            return Poll::Ready(None);
                        }
                    }
                }
            }
        }
    }
}

#[derive(Default)]
struct Shared {
    events: Vec<Ev>,
    /// field handed to "another task"
    slot: Option<Field>,
    gate_open: bool,
    gate_waiting: Option<Waker>,
}

struct Gate(Rc<RefCell<Shared>>);
impl Future for Gate {
    type Output = ();
    fn poll(self: Pin<&mut Self>, cx: &mut Context<'_>) -> Poll<()> {
        let mut s = self.0.borrow_mut();
        if s.gate_open {
            Poll::Ready(())
        } else {
            s.gate_waiting = Some(cx.waker().clone());
            Poll::Pending
        }
    }
}

fn field_event(idx: usize, f: &Field) -> Ev {
    let mut headers: BTreeMap<String, Vec<Vec<u8>>> = BTreeMap::new();
    for (n, v) in f.headers().iter() {
        headers.entry(n.as_str().to_string()).or_default().push(v.as_bytes().to_vec());
    }
    Ev::Field {
        idx,
        headers,
        name: f.name().map(|s| s.to_string()),
        ctype: f.content_type().map(|m| m.to_string()),
        has_cd: f.content_disposition().is_some(),
    }
}

async fn consumer(
    mut mp: Multipart,
    prog: Prog,
    sh: Rc<RefCell<Shared>>,
    progress: Rc<RefCell<Progress>>,
    starts: Vec<usize>,
) {
    let mut idx = 0usize;
    loop {
        let item = mp.next().await;
        match item {
            None => {
                progress.borrow_mut().tracking = false;
                sh.borrow_mut().events.push(Ev::MpEnd { how: End::Clean });
                return;
            }
            Some(Err(e)) => {
                progress.borrow_mut().tracking = false;
                sh.borrow_mut().events.push(Ev::MpEnd { how: End::Err(format!("{e:?}")) });
                return;
            }
            Some(Ok(mut field)) => {
                sh.borrow_mut().events.push(field_event(idx, &field));
                {
                    let mut p = progress.borrow_mut();
                    if let Some(&s) = starts.get(idx) {
                        p.consumed = s;
                        p.tracking = true;
                    } else {
                        p.tracking = false;
                    }
                }
                let (mode, after) = match prog {
                    Prog::Drop { k, after } if k as usize == idx => (1, after as usize),
                    Prog::Stall { k, after } if k as usize == idx => (2, after as usize),
                    Prog::Park { k, after } if k as usize == idx => (3, after as usize),
                    _ => (0, usize::MAX),
                };
                let mut chunks = 0usize;
                let mut ended = false;
                loop {
                    if chunks >= after {
                        break;
                    }
                    match field.next().await {
                        None => {
                            sh.borrow_mut().events.push(Ev::FieldEnd { idx, how: End::Clean });
                            ended = true;
                            break;
                        }
                        Some(Ok(b)) => {
                            chunks += 1;
                            progress.borrow_mut().consumed += b.len();
                            sh.borrow_mut().events.push(Ev::Chunk { idx, bytes: b.to_vec() });
                        }
                        Some(Err(e)) => {
                            progress.borrow_mut().tracking = false;
                            sh.borrow_mut().events.push(Ev::FieldEnd { idx, how: End::Err(format!("{e:?}")) });
                            return;
                        }
                    }
                }
                if !ended {
                    match mode {
                        1 => {
                            progress.borrow_mut().tracking = false;
                            sh.borrow_mut().events.push(Ev::FieldEnd { idx, how: End::Dropped });
                            drop(field);
                        }
                        3 => {
                            progress.borrow_mut().tracking = false;
                            let mut s = sh.borrow_mut();
                            s.events.push(Ev::FieldEnd { idx, how: End::Parked });
                            s.slot = Some(field);
                        }
                        _ => {
                            // stall: wait for the gate, then read the rest
                            Gate(sh.clone()).await;
                            loop {
                                match field.next().await {
                                    None => {
                                        sh.borrow_mut().events.push(Ev::FieldEnd { idx, how: End::Clean });
                                        break;
                                    }
                                    Some(Ok(b)) => {
                                        progress.borrow_mut().consumed += b.len();
                                        sh.borrow_mut().events.push(Ev::Chunk { idx, bytes: b.to_vec() });
                                    }
                                    Some(Err(e)) => {
                                        progress.borrow_mut().tracking = false;
                                        sh.borrow_mut()
                                            .events
                                            .push(Ev::FieldEnd { idx, how: End::Err(format!("{e:?}")) });
                                        return;
                                    }
                                }
                            }
                        }
                    }
                }
                idx += 1;
            }
        }
    }
}

/// One fully determined delivery of one (possibly truncated) body.
pub struct Run<'a> {
    pub content_type: &'a str,
    /// the bytes the source will deliver (already truncated)
    pub data: &'a [u8],
    /// cut offsets, strictly increasing, each in 1..data.len(); ignored when `all1`
    pub cuts: &'a [usize],
    pub all1: bool,
    /// bit i set = the source answers Pending before item i (item n_chunks = the end)
    pub pend_mask: u64,
    pub pend_all: bool,
    pub end: EndKind,
    pub prog: Prog,
    pub limit: Limit,
    /// at quiescence: true = consumer-side environment events (drop parked field, open gate)
    /// before the source release; false = source release first
    pub env_first: bool,
    /// expected content start offsets (for the buffering clause)
    pub starts: &'a [usize],
}

thread_local! {
    static REQS: RefCell<Vec<(String, u32, HttpRequest)>> = const { RefCell::new(Vec::new()) };
}

fn make_multipart(ct: &str, limit: Limit, src: Src) -> Multipart {
    match limit {
        Limit::New => {
            let mut h = HeaderMap::new();
            h.insert(
                actix_web::http::header::CONTENT_TYPE,
                actix_web::http::header::HeaderValue::from_str(ct).unwrap(),
            );
            Multipart::new(&h, src)
        }
        Limit::Cfg(n) => {
            let req = REQS.with(|r| {
                let mut r = r.borrow_mut();
                if let Some((_, _, q)) = r.iter().find(|(c, l, _)| c == ct && *l == n) {
                    return q.clone();
                }
                let q = actix_web::test::TestRequest::default()
                    .insert_header((actix_web::http::header::CONTENT_TYPE, ct))
                    .app_data(MultipartConfig::default().buffer_limit(n as usize))
                    .to_http_request();
                if r.len() > 64 {
                    r.clear();
                }
                r.push((ct.to_string(), n, q.clone()));
                q
            });
            let mut payload = actix_web::dev::Payload::Stream { payload: Box::pin(src) as _ };
            Multipart::from_request(&req, &mut payload).into_inner().unwrap_or_else(|_| {
                mc_core::machinery("Multipart::from_request returned an error")
            })
        }
    }
}

pub fn chunk_count(data_len: usize, cuts: &[usize], all1: bool) -> usize {
    if data_len == 0 {
        0
    } else if all1 {
        data_len
    } else {
        cuts.len() + 1
    }
}

pub fn execute(run: &Run<'_>) -> Observation {
    // ---- script
    let mut chunks: Vec<Bytes> = Vec::new();
    let all = Bytes::copy_from_slice(run.data);
    if !run.data.is_empty() {
        if run.all1 {
            for i in 0..run.data.len() {
                chunks.push(all.slice(i..i + 1));
            }
        } else {
            let mut prev = 0;
            for &c in run.cuts {
                if c <= prev || c >= run.data.len() {
                    mc_core::machinery(format!("bad cut list {:?} for {} bytes", run.cuts, run.data.len()));
                }
                chunks.push(all.slice(prev..c));
                prev = c;
            }
            chunks.push(all.slice(prev..));
        }
    }
    let n = chunks.len();
    let gap = |i: usize| run.pend_all || (i < 64 && (run.pend_mask >> i) & 1 == 1);
    let mut items = Vec::with_capacity(2 * n + 1);
    for (i, c) in chunks.into_iter().enumerate() {
        if gap(i) {
            items.push(Item::Gap);
        }
        items.push(Item::Chunk(c));
    }
    if gap(n) {
        items.push(Item::Gap);
    }

    let progress = Rc::new(RefCell::new(Progress::default()));
    let st = Rc::new(RefCell::new(SrcState {
        items,
        pos: 0,
        end: run.end,
        err_given: false,
        released: false,
        parked: None,
        pulled: 0,
        ended: false,
        polls_after_end: 0,
        max_buffered: 0,
        progress: progress.clone(),
    }));
    let sh = Rc::new(RefCell::new(Shared::default()));

    let mp = make_multipart(run.content_type, run.limit, Src(st.clone()));
    let mut fut: Pin<Box<dyn Future<Output = ()>>> =
        Box::pin(consumer(mp, run.prog, sh.clone(), progress.clone(), run.starts.to_vec()));

    let mut wc = WakeCounter::new();
    let waker = wc.waker();
    let mut cx = Context::from_waker(&waker);
    let max_polls = 64 + 12 * (run.data.len() as u32 + n as u32);
    let mut polls = 0u32;
    let mut need_poll = true;
    let fin;
    let poll_once = |fut: &mut Pin<Box<dyn Future<Output = ()>>>, cx: &mut Context<'_>| {
        match catch_unwind(AssertUnwindSafe(|| fut.as_mut().poll(cx))) {
            Ok(Poll::Ready(())) => Some(Final::Completed),
            Ok(Poll::Pending) => None,
            Err(_) => {
                let (loc, msg) = mc_core::explore::take_last_panic().unwrap_or_default();
                Some(Final::Panic { loc, msg })
            }
        }
    };
    loop {
        if need_poll || wc.is_woken() {
            wc.take();
            need_poll = false;
            polls += 1;
            if polls > max_polls {
                fin = Final::Spin;
                break;
            }
            if let Some(f) = poll_once(&mut fut, &mut cx) {
                fin = f;
                break;
            }
            continue;
        }
        // consumer is quiescent: deliver one environment event
        let src_parked = st.borrow().parked.is_some();
        let (has_slot, gate_waiting) = {
            let s = sh.borrow();
            (s.slot.is_some(), s.gate_waiting.is_some() && !s.gate_open)
        };
        let consumer_env = has_slot || gate_waiting;
        let do_env = consumer_env && (run.env_first || !src_parked);
        if do_env {
            if has_slot {
                // "another task" drops the field it was given
                let f = sh.borrow_mut().slot.take();
                let r = catch_unwind(AssertUnwindSafe(move || drop(f)));
                if r.is_err() {
                    let (loc, msg) = mc_core::explore::take_last_panic().unwrap_or_default();
                    fin = Final::Panic { loc, msg };
                    break;
                }
            } else {
                let w = {
                    let mut s = sh.borrow_mut();
                    s.gate_open = true;
                    s.gate_waiting.take()
                };
                if let Some(w) = w {
                    w.wake();
                }
            }
            continue;
        }
        if src_parked {
            let w = {
                let mut s = st.borrow_mut();
                s.released = true;
                s.parked.take()
            };
            if let Some(w) = w {
                w.wake();
            }
            continue;
        }
        // final quiescence with an unfinished consumer: spurious-poll probe
        let before = (sh.borrow().events.len(), st.borrow().pulled, st.borrow().pos);
        polls += 1;
        match poll_once(&mut fut, &mut cx) {
            Some(Final::Panic { loc, msg }) => {
                fin = Final::Panic { loc, msg };
            }
            r => {
                let after = (sh.borrow().events.len(), st.borrow().pulled, st.borrow().pos);
                let progress = r.is_some() || after != before || wc.is_woken() || st.borrow().parked.is_some();
                let s = st.borrow();
                fin = Final::Hang {
                    probe_progress: progress,
                    source_exhausted: s.ended,
                    source_pulled: s.pulled,
                };
            }
        }
        break;
    }
    if matches!(fin, Final::Panic { .. }) {
        // state may be inconsistent after an unwind through RefCell borrows
        std::mem::forget(fut);
        std::mem::forget(sh.borrow_mut().slot.take());
    } else {
        drop(fut);
    }
    let s = st.borrow();
    let events = std::mem::take(&mut sh.borrow_mut().events);
    Observation {
        events,
        fin,
        max_buffered: s.max_buffered,
        polls,
        polls_after_end: s.polls_after_end,
        wakes: wc.count(),
    }
}
