//! Independent reference parser of the RFC 2046 multipart grammar
//!
//! ```text
//! multipart-body := [preamble CRLF] dash-boundary CRLF body-part *(delimiter CRLF body-part)
//!                   close-delimiter [CRLF epilogue]
//! dash-boundary  := "--" boundary          delimiter := CRLF dash-boundary
//! close-delimiter:= delimiter "--"         body-part := *(header CRLF) CRLF *OCTET
//! ```
//!
//! (no transport padding: the generator never emits it). It works on a possibly *truncated* body
//! and says how far the grammar was satisfied: which parts are complete (their terminating
//! delimiter was seen in full), whether a last part is only partially present, and in which region
//! the input ended. It shares no code with the generator or with actix-multipart.

#[derive(Clone, Debug, PartialEq, Eq)]
pub enum Status {
    /// the input is a complete multipart body; everything after the close delimiter is epilogue
    WellFormed,
    /// complete up to the close delimiter, but what follows it is neither nothing nor CRLF
    /// (e.g. the input ends between the CR and the LF after `--boundary--`): a clean end and an
    /// error are both acceptable
    Lenient(&'static str),
    /// the grammar is violated / the input ends early; the string says where
    Malformed(Where),
}

#[derive(Clone, Copy, Debug, PartialEq, Eq, Hash)]
pub enum Where {
    /// before the first dash-boundary line was complete
    Preamble,
    /// inside a delimiter line (after `CRLF--boundary`, before its CRLF / `--`)
    DelimiterLine,
    /// inside a header block
    Headers,
    /// inside part content (no complete delimiter follows)
    Content,
    /// a delimiter followed by bytes that are neither CRLF nor `--`
    JunkAfterDelimiter,
}

#[derive(Clone, Debug, PartialEq, Eq)]
pub struct RField {
    /// (lower-case name, value) in order of appearance
    pub headers: Vec<(String, Vec<u8>)>,
    /// for a complete part the exact content; for the partial part everything seen so far
    pub content: Vec<u8>,
    pub content_start: usize,
    /// offset of the first header byte (= end of the delimiter line before the part)
    pub headers_start: usize,
    pub complete: bool,
}

#[derive(Clone, Debug, PartialEq, Eq)]
pub struct Parse {
    pub fields: Vec<RField>,
    pub status: Status,
    /// the parse stopped at a delimiter candidate whose nature is debatable (junk after it, or
    /// the input ends right after it); a larger `lenient_budget` reads on past it
    pub stopped_at_candidate: bool,
}

impl Parse {
    pub fn n_complete(&self) -> usize {
        self.fields.iter().filter(|f| f.complete).count()
    }
    pub fn partial(&self) -> Option<&RField> {
        self.fields.last().filter(|f| !f.complete)
    }
    pub fn is_well_formed(&self) -> bool {
        self.status == Status::WellFormed
    }
}

fn find(hay: &[u8], needle: &[u8], from: usize) -> Option<usize> {
    if needle.is_empty() || hay.len() < needle.len() || from > hay.len() - needle.len() {
        return None;
    }
    (from..=hay.len() - needle.len()).find(|&i| &hay[i..i + needle.len()] == needle)
}

/// `lenient_budget`: the first `lenient_budget` occurrences of a `CRLF--boundary` that is followed
/// by neither CRLF nor `--` (junk, or the end of the input) are treated as ordinary content
/// (lenient reading); the next such occurrence ends the parse as malformed (strict reading).
pub fn parse(body: &[u8], boundary: &str, lenient_budget: usize) -> Parse {
    parse_inner(body, boundary, lenient_budget)
}

fn parse_inner(body: &[u8], boundary: &str, lenient_budget: usize) -> Parse {
    let mut budget = lenient_budget;
    let dash: Vec<u8> = [b"--", boundary.as_bytes()].concat();
    let delim: Vec<u8> = [b"\r\n", &dash[..]].concat();
    let close_line: Vec<u8> = [&dash[..], b"--"].concat();
    let mut fields: Vec<RField> = Vec::new();

    // ---- preamble and first dash-boundary line
    let mut pos = 0usize;
    loop {
        match find(body, b"\r\n", pos) {
            None => {
                let rest = &body[pos..];
                if rest == &close_line[..] {
                    // `--boundary--` as first delimiter line, no part, input ends without CRLF:
                    // RFC 2046 requires at least one part, so "zero fields" and "error" are both
                    // defensible readings
                    return Parse { fields, status: Status::Lenient("close delimiter as first delimiter line, no parts, no CRLF after it"), stopped_at_candidate: false };
                }
                if rest.len() == close_line.len() + 1 && rest.starts_with(&close_line) && rest.ends_with(b"\r") {
                    return Parse { fields, status: Status::Lenient("input ends between CR and LF after the close delimiter"), stopped_at_candidate: false };
                }
                let in_delim = !rest.is_empty() && (close_line.starts_with(rest) || {
                    let mut l = dash.clone();
                    l.push(b'\r');
                    l.starts_with(rest)
                });
                return Parse {
                    fields,
                    status: Status::Malformed(if in_delim { Where::DelimiterLine } else { Where::Preamble }),
                    stopped_at_candidate: false,
                };
            }
            Some(le) => {
                let line = &body[pos..le];
                pos = le + 2;
                if line == &dash[..] {
                    break;
                }
                if line == &close_line[..] {
                    return Parse { fields, status: Status::WellFormed, stopped_at_candidate: false };
                }
                // anything else is a preamble line
            }
        }
    }

    // ---- parts
    loop {
        // header block: lines up to the empty line
        let mut headers = Vec::new();
        let headers_start = pos;
        let content_start;
        loop {
            match find(body, b"\r\n", pos) {
                None => return Parse { fields, status: Status::Malformed(Where::Headers), stopped_at_candidate: false },
                Some(le) => {
                    let line = &body[pos..le];
                    pos = le + 2;
                    if line.is_empty() {
                        content_start = pos;
                        break;
                    }
                    let colon = line.iter().position(|&c| c == b':');
                    let (n, v) = match colon {
                        Some(c) => (&line[..c], &line[c + 1..]),
                        None => (line, &b""[..]),
                    };
                    let v: Vec<u8> = {
                        let mut s = 0;
                        let mut e = v.len();
                        while s < e && (v[s] == b' ' || v[s] == b'\t') {
                            s += 1;
                        }
                        while e > s && (v[e - 1] == b' ' || v[e - 1] == b'\t') {
                            e -= 1;
                        }
                        v[s..e].to_vec()
                    };
                    headers.push((String::from_utf8_lossy(n).to_ascii_lowercase(), v));
                }
            }
        }

        // content: up to the first confirmed delimiter
        let mut from = content_start;
        loop {
            match find(body, &delim, from) {
                None => {
                    fields.push(RField {
                        headers,
                        content: body[content_start..].to_vec(),
                        content_start,
                        headers_start,
                        complete: false,
                    });
                    return Parse { fields, status: Status::Malformed(Where::Content), stopped_at_candidate: false };
                }
                Some(d) => {
                    let after = d + delim.len();
                    let rest = &body[after..];
                    if rest.starts_with(b"\r\n") {
                        fields.push(RField { headers, content: body[content_start..d].to_vec(), content_start, headers_start, complete: true });
                        pos = after + 2;
                        break;
                    }
                    if rest.starts_with(b"--") {
                        fields.push(RField { headers, content: body[content_start..d].to_vec(), content_start, headers_start, complete: true });
                        let tail = &rest[2..];
                        let status = if tail.is_empty() || tail.starts_with(b"\r\n") {
                            Status::WellFormed
                        } else if tail == b"\r" {
                            Status::Lenient("input ends between CR and LF after the close delimiter")
                        } else {
                            Status::Lenient("bytes other than CRLF after the close delimiter")
                        };
                        return Parse { fields, status, stopped_at_candidate: false };
                    }
                    if rest.is_empty() || rest == b"\r" || rest == b"-" {
                        // input ends inside the delimiter line
                        if budget > 0 {
                            // undecided whether this is a delimiter: the part is not known complete
                            fields.push(RField { headers, content: body[content_start..].to_vec(), content_start, headers_start, complete: false });
                            return Parse { fields, status: Status::Malformed(Where::Content), stopped_at_candidate: false };
                        }
                        fields.push(RField { headers, content: body[content_start..d].to_vec(), content_start, headers_start, complete: true });
                        return Parse { fields, status: Status::Malformed(Where::DelimiterLine), stopped_at_candidate: true };
                    }
                    // delimiter followed by junk
                    if budget > 0 {
                        budget -= 1;
                        from = d + 1;
                        continue;
                    }
                    fields.push(RField { headers, content: body[content_start..d].to_vec(), content_start, headers_start, complete: true });
                    return Parse { fields, status: Status::Malformed(Where::JunkAfterDelimiter), stopped_at_candidate: true };
                }
            }
        }
    }
}

/// Field name from a content-disposition header value (only for `form-data`).
pub fn cd_name(value: &[u8]) -> Option<String> {
    let s = String::from_utf8_lossy(value);
    let mut parts = s.split(';').map(|p| p.trim());
    if !parts.next()?.eq_ignore_ascii_case("form-data") {
        return None;
    }
    for p in parts {
        if let Some(v) = p.strip_prefix("name=") {
            return Some(v.trim_matches('"').to_string());
        }
    }
    None
}

impl RField {
    pub fn header(&self, name: &str) -> Option<&[u8]> {
        self.headers.iter().find(|(n, _)| n == name).map(|(_, v)| &v[..])
    }
    pub fn content_length(&self) -> Option<u64> {
        self.header("content-length").and_then(|v| std::str::from_utf8(v).ok()).and_then(|s| s.parse().ok())
    }
}
