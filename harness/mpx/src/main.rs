//! mpx — decides C15 (multipart parsing exact, segmentation-independent, always terminates) by
//! exhaustive enumeration of bodies x chunkings x truncation points x Pending positions x consumer
//! programs x buffer limits against the real `actix_multipart::Multipart`, driven by a wake-driven
//! executor. See DESIGN.md §4 C15.

mod exec;
mod gen;
mod oracle;
mod refparse;
mod sets;

use exec::{EndKind, Limit, Observation, Prog, Run};
use gen::{Body, BodySpec};
use mc_core::report::{Evidence, Reporter, Violation};
use oracle::{Ctx, Fail};
use refparse::Parse;
use serde::{Deserialize, Serialize};
use serde_json::{json, Value};
use std::collections::{BTreeMap, HashSet};
use std::sync::atomic::{AtomicBool, AtomicUsize, Ordering};
use std::sync::Mutex;
use std::time::{Duration, Instant};

/// Everything that determines one execution besides the body bytes.
#[derive(Clone, Debug, PartialEq, Eq, Hash, Serialize, Deserialize)]
pub struct Params {
    /// number of bytes delivered (None = the whole body)
    pub trunc: Option<usize>,
    pub end: EndKind,
    pub cuts: Vec<usize>,
    pub all1: bool,
    pub pend_mask: u64,
    pub pend_all: bool,
    pub prog: Prog,
    pub limit: Limit,
    pub env_first: bool,
}

/// Per-body context shared by all deliveries of that body.
pub struct BodyCtx {
    pub bytes: Vec<u8>,
    pub boundary: String,
    pub content_type: String,
    pub spec: Option<BodySpec>,
    pub gen: Option<Body>,
    /// longest unit the parser must hold contiguously (line, header block, delimiter)
    pub need: usize,
    pub slack: usize,
}

/// Per-(body, truncation) context.
pub struct TruncCtx {
    pub len: usize,
    /// readings of the delivered bytes: strict first, then with 1, 2, .. debatable delimiter
    /// candidates (junk after `CRLF--boundary`, or input ending right there) read as content
    pub parses: Vec<Parse>,
    pub starts: Vec<usize>,
}

impl TruncCtx {
    pub fn strict(&self) -> &Parse {
        &self.parses[0]
    }
}

fn hex(b: &[u8]) -> String {
    b.iter().map(|x| format!("{x:02x}")).collect()
}
fn unhex(s: &str) -> Vec<u8> {
    (0..s.len() / 2).map(|i| u8::from_str_radix(&s[2 * i..2 * i + 2], 16).unwrap_or(0)).collect()
}

impl BodyCtx {
    pub fn from_raw(bytes: Vec<u8>, boundary: String, content_type: String) -> Self {
        let full = refparse::parse(&bytes, &boundary, usize::MAX);
        let first = refparse::parse(&bytes, &boundary, 0);
        let mut need = boundary.len() + 6;
        // preamble lines
        let pre_end = first.fields.first().map(|f| f.headers_start).unwrap_or(bytes.len());
        let mut ls = 0;
        let mut preamble_len = 0;
        let dash_line = format!("--{boundary}\r\n");
        while ls < pre_end {
            let le = bytes[ls..pre_end].windows(2).position(|w| w == b"\r\n").map(|p| ls + p + 2).unwrap_or(pre_end);
            need = need.max(le - ls);
            if &bytes[ls..le] != dash_line.as_bytes() {
                preamble_len = le;
            }
            ls = le;
        }
        for p in [&full, &first] {
            for f in &p.fields {
                need = need.max(f.content_start - f.headers_start);
            }
        }
        let slack = preamble_len + boundary.len() + 8;
        BodyCtx { bytes, boundary, content_type, spec: None, gen: None, need, slack }
    }

    pub fn from_spec(spec: &BodySpec) -> Self {
        let g = gen::generate(spec);
        let mut b = BodyCtx::from_raw(g.bytes.clone(), g.boundary.clone(), g.content_type.clone());
        // cross-check the generator's ground truth with the independent reference parser
        let p = refparse::parse(&g.bytes, &g.boundary, usize::MAX);
        let same = p.is_well_formed()
            && p.fields.len() == g.fields.len()
            && p.fields.iter().zip(&g.fields).all(|(r, t)| {
                r.complete
                    && r.content == t.content
                    && r.content_start == t.content_start
                    && r.headers == t.headers
                    && r.header("content-disposition").and_then(refparse::cd_name) == t.name
            });
        if !same {
            mc_core::machinery(format!(
                "generator and reference parser disagree on {:?}: body \"{}\" -> {:?}",
                spec,
                mc_core::show(&g.bytes),
                p
            ));
        }
        if !g.has_junk {
            let s = refparse::parse(&g.bytes, &g.boundary, 0);
            if s != p {
                mc_core::machinery(format!("strict and lenient reference parses differ on a junk-free body {:?}", spec));
            }
        }
        if b.slack < g.preamble_len + g.boundary.len() + 8 {
            mc_core::machinery("preamble length mismatch between generator and reference parser");
        }
        b.spec = Some(spec.clone());
        b.gen = Some(g);
        b
    }

    pub fn trunc(&self, t: Option<usize>) -> TruncCtx {
        let len = t.unwrap_or(self.bytes.len()).min(self.bytes.len());
        let data = &self.bytes[..len];
        let mut parses: Vec<Parse> = Vec::new();
        for budget in 0..16 {
            let p = refparse::parse(data, &self.boundary, budget);
            let more = p.stopped_at_candidate;
            if parses.last() != Some(&p) {
                parses.push(p);
            }
            if !more {
                break;
            }
        }
        let starts = parses.last().unwrap().fields.iter().map(|f| f.content_start).collect();
        TruncCtx { len, parses, starts }
    }
}

pub fn run_case(b: &BodyCtx, t: &TruncCtx, p: &Params) -> (Observation, Result<(), Fail>) {
    let data = &b.bytes[..t.len];
    let run = Run {
        content_type: &b.content_type,
        data,
        cuts: &p.cuts,
        all1: p.all1,
        pend_mask: p.pend_mask,
        pend_all: p.pend_all,
        end: p.end,
        prog: p.prog,
        limit: p.limit,
        env_first: p.env_first,
        starts: &t.starts,
    };
    let obs = exec::execute(&run);
    let max_chunk = if data.is_empty() {
        0
    } else if p.all1 {
        1
    } else {
        let mut m = 0;
        let mut prev = 0;
        for &c in &p.cuts {
            m = m.max(c - prev);
            prev = c;
        }
        m.max(data.len() - prev)
    };
    let cx = Ctx {
        data,
        boundary: &b.boundary,
        end: p.end,
        prog: p.prog,
        limit: p.limit.value(),
        relaxed: b.need > p.limit.value(),
        max_chunk,
        slack: b.slack,
    };
    let verdict = oracle::judge(&obs, &t.parses, &cx);
    (obs, verdict)
}

pub fn replay_value(b: &BodyCtx, p: &Params) -> Value {
    json!({
        "content_type": b.content_type,
        "boundary": b.boundary,
        "body_hex": hex(&b.bytes),
        "body_shown": mc_core::show(&b.bytes),
        "body_spec": b.spec,
        "params": p,
    })
}

fn weight(b: &BodyCtx, p: &Params) -> u64 {
    let nf = b.spec.as_ref().map(|s| s.fields.len()).unwrap_or(9) as u64;
    let dev = p.cuts.len() as u64
        + p.trunc.is_some() as u64
        + (p.end == EndKind::Err) as u64
        + p.all1 as u64 * 2
        + (p.pend_mask.count_ones() as u64).min(3)
        + p.pend_all as u64 * 2
        + (p.prog != Prog::ReadAll) as u64 * 2
        + (p.limit != Limit::New) as u64 * 2;
    (dev << 40) | (nf << 32) | b.bytes.len() as u64
}

#[derive(Default)]
struct Local {
    evaluations: u64,
    nontrivial: IdSet,
    nontrivial_evals: u64,
    sampled_violation: bool,
    violations: BTreeMap<(String, String), Violation>,
    violating: u64,
    per_set: BTreeMap<&'static str, u64>,
    samples: Vec<Value>,
    polls: u64,
    polls_after_end: u64,
    relaxed_cases: u64,
    truncated_wellformed: u64,
    outcome_kinds: BTreeMap<String, u64>,
}

/// incremental FNV-1a over small integers (no allocation: this runs once per execution)
struct H(u64);
impl H {
    fn new() -> Self {
        H(0xcbf29ce484222325)
    }
    fn u(&mut self, x: u64) {
        for b in x.to_le_bytes() {
            self.0 ^= b as u64;
            self.0 = self.0.wrapping_mul(0x100000001b3);
        }
    }
    fn s(&mut self, x: &str) {
        for b in x.bytes() {
            self.0 ^= b as u64;
            self.0 = self.0.wrapping_mul(0x100000001b3);
        }
        self.u(0xff);
    }
}

#[derive(Default, Clone, Copy)]
pub struct IdHasher(u64);
impl std::hash::Hasher for IdHasher {
    fn finish(&self) -> u64 {
        self.0
    }
    fn write(&mut self, bytes: &[u8]) {
        for &b in bytes {
            self.0 = (self.0 << 8) | b as u64;
        }
    }
    fn write_u64(&mut self, x: u64) {
        self.0 = x;
    }
}
type IdSet = HashSet<u64, std::hash::BuildHasherDefault<IdHasher>>;

fn class_of(b: &BodyCtx, t: &TruncCtx, p: &Params, obs: &Observation) -> (u64, bool) {
    // canonical class: body family + where each cut / the truncation fell relative to the
    // structure (region kind, part index, offset inside the region, content id and
    // Content-Length flag of the field around it) + delivery mode + consumer + limit + outcome
    let mut h = H::new();
    let mut nontrivial = false;
    if let (Some(spec), Some(g)) = (&b.spec, &b.gen) {
        h.u(spec.flavour as u64);
        h.u(spec.boundary as u64);
        h.u(spec.fields.len() as u64);
        let mut mark = |off: usize, tag: u64, h: &mut H| {
            let (k, part, rel, inside) = g.region_of_cut(off);
            // the field whose bytes surround the position: for a delimiter the part it ends
            let f = match k {
                gen::RegionKind::Delimiter => part.checked_sub(1).and_then(|q| spec.fields.get(q)),
                _ => spec.fields.get(part),
            };
            h.u(tag);
            h.u(k as u64);
            h.u(part as u64);
            h.u(rel as u64);
            h.u(inside as u64);
            h.u(f.map(|f| 1 + f.content as u64 * 2 + f.cl as u64).unwrap_or(0));
            if inside && matches!(k, gen::RegionKind::Delimiter | gen::RegionKind::Headers | gen::RegionKind::Preamble) {
                nontrivial = true;
            }
        };
        for &c in &p.cuts {
            mark(c, 1, &mut h);
        }
        if p.trunc.is_some() {
            mark(t.len, 2, &mut h);
        }
        if p.cuts.is_empty() && p.trunc.is_none() {
            // whole / all-1-byte deliveries of complete bodies: the body itself is the case
            for f in &spec.fields {
                h.u(1 + f.content as u64 * 2 + f.cl as u64);
            }
        }
    } else {
        h.s(&hex(&b.bytes));
        for &c in &p.cuts {
            h.u(c as u64);
        }
        h.u(p.trunc.map(|x| x as u64 + 1).unwrap_or(0));
    }
    h.u(p.all1 as u64);
    h.u(if p.pend_all { 2 } else if p.pend_mask == 0 { 0 } else { 1 });
    h.u(p.end as u64);
    match p.prog {
        Prog::ReadAll => h.u(0),
        Prog::Drop { k, after } => h.u(1 + k as u64 * 8 + after as u64),
        Prog::Stall { k, after } => h.u(100 + k as u64 * 8 + after as u64),
        Prog::Park { k, after } => h.u(200 + k as u64 * 8 + after as u64),
    }
    h.u(p.limit.value() as u64 + matches!(p.limit, Limit::New) as u64);
    h.u(oracle::outcome_hash(obs));
    (h.0, nontrivial)
}

pub struct Unit {
    pub set: &'static str,
    pub spec: BodySpec,
    pub plan: sets::Plan,
}

fn main() {
    let args = mc_core::cli::parse();
    if args.property != "C15" {
        eprintln!("MACHINERY: engine mpx serves C15 only");
        std::process::exit(2);
    }
    mc_core::explore::install_panic_hook();
    if let Some(path) = &args.replay {
        std::process::exit(do_replay(path));
    }
    let start = Instant::now();
    let thorough = args.tier == "thorough";
    let wall = Duration::from_secs(args.wall_s.unwrap_or(if thorough { 1500 } else { 55 }));
    let deadline = start + wall;

    let mut units = sets::units(thorough);
    let set_descr = sets::describe(thorough);
    let seed: usize = std::env::var("VERIF_SEED").ok().and_then(|s| s.parse().ok()).unwrap_or(0);
    if !units.is_empty() {
        let r = seed % units.len();
        units.rotate_left(r);
    }
    let mut units_per_set: BTreeMap<&'static str, u64> = BTreeMap::new();
    for u in &units {
        *units_per_set.entry(u.set).or_default() += 1;
    }

    let next = AtomicUsize::new(0);
    let capped = AtomicBool::new(false);
    let machinery: Mutex<Option<String>> = Mutex::new(None);
    let done_units: Mutex<BTreeMap<&'static str, u64>> = Mutex::new(BTreeMap::new());
    let threads = mc_core::cli::threads();

    let locals: Vec<Local> = std::thread::scope(|s| {
        let hs: Vec<_> = (0..threads)
            .map(|_| {
                std::thread::Builder::new()
                    .stack_size(32 << 20)
                    .spawn_scoped(s, || {
                        let mut loc = Local::default();
                        loop {
                            if machinery.lock().unwrap().is_some() {
                                break;
                            }
                            if Instant::now() > deadline {
                                capped.store(true, Ordering::SeqCst);
                                break;
                            }
                            let i = next.fetch_add(1, Ordering::SeqCst);
                            if i >= units.len() {
                                break;
                            }
                            let u = &units[i];
                            let r = std::panic::catch_unwind(std::panic::AssertUnwindSafe(|| run_unit(u, &mut loc)));
                            match r {
                                Ok(Ok(())) => {
                                    *done_units.lock().unwrap().entry(u.set).or_default() += 1;
                                }
                                Ok(Err(m)) => {
                                    *machinery.lock().unwrap() = Some(m);
                                    break;
                                }
                                Err(_) => {
                                    let (l, m) = mc_core::explore::take_last_panic().unwrap_or_default();
                                    *machinery.lock().unwrap() = Some(format!("harness panic at {l}: {m}"));
                                    break;
                                }
                            }
                        }
                        loc
                    })
                    .unwrap()
            })
            .collect();
        hs.into_iter().map(|h| h.join().unwrap()).collect()
    });

    if let Some(m) = machinery.lock().unwrap().take() {
        eprintln!("MACHINERY: {m}");
        std::process::exit(2);
    }

    let mut rep = Reporter::new("C15");
    let mut evaluations = 0u64;
    let mut nontrivial: IdSet = IdSet::default();
    let mut nontrivial_evals = 0u64;
    let mut per_set: BTreeMap<&'static str, u64> = BTreeMap::new();
    let mut samples = Vec::new();
    let mut violating = 0;
    let mut polls = 0;
    let mut polls_after_end = 0;
    let mut relaxed_cases = 0;
    let mut truncated_wellformed = 0;
    let mut outcome_kinds: BTreeMap<String, u64> = BTreeMap::new();
    for l in locals {
        evaluations += l.evaluations;
        nontrivial.extend(l.nontrivial);
        nontrivial_evals += l.nontrivial_evals;
        for (k, v) in l.per_set {
            *per_set.entry(k).or_default() += v;
        }
        for (i, s) in l.samples.into_iter().enumerate() {
            if samples.len() < 10 && i < 2 {
                samples.push(s);
            }
        }
        violating += l.violating;
        polls += l.polls;
        polls_after_end += l.polls_after_end;
        relaxed_cases += l.relaxed_cases;
        truncated_wellformed += l.truncated_wellformed;
        for (k, v) in l.outcome_kinds {
            *outcome_kinds.entry(k).or_default() += v;
        }
        if std::env::var("MPX_WRITE_ALL_REPLAYS").is_ok() {
            // maintenance aid: also write replay files for violations that match a known finding
            for v in l.violations.values() {
                mc_core::report::write_replay(v);
            }
        }
        rep.add_all(l.violations.into_values());
    }
    let is_capped = capped.load(Ordering::SeqCst);
    let done = done_units.lock().unwrap().clone();
    let sets_complete: Vec<&str> =
        units_per_set.iter().filter(|(k, v)| done.get(*k).copied().unwrap_or(0) == **v).map(|(k, _)| *k).collect();
    let sets_incomplete: Vec<String> = units_per_set
        .iter()
        .filter(|(k, v)| done.get(*k).copied().unwrap_or(0) != **v)
        .map(|(k, v)| format!("{k}: {}/{} bodies", done.get(k).copied().unwrap_or(0), v))
        .collect();

    let code = rep.finish();
    let wall_s = start.elapsed().as_secs_f64();
    let mut ev = Evidence::new("C15", &args.tier, "fault_enumeration");
    ev.set("evaluations", evaluations);
    ev.set("evaluations_with_a_cut_or_truncation_inside_delimiter_headers_or_preamble", nontrivial_evals);
    ev.set("distinct_nontrivial", nontrivial.len() as u64);
    ev.set(
        "rule",
        "explicit cartesian enumeration (no sampling) of the sets listed under 'sets': body grammar x chunking (whole, every 1-cut, every 2-cut, all-1-byte) x Pending positions x truncation offset x end kind x consumer program x buffer limit, each executed against the real actix_multipart::Multipart under a wake-driven executor. A class is (flavour, boundary, number of fields, for every cut and for the truncation point: region kind + part index + offset inside the region + content id and Content-Length flag of the field around it, delivery mode, Pending none/some/all, end kind, consumer program, limit, outcome shape = per field end kind and empty/non-empty, Multipart end kind, error kind, completed/hang/lost-wake/panic); it is non-trivial when at least one cut or the truncation point falls strictly inside a delimiter line (CRLF--boundary[--]CRLF), a header block or the preamble. distinct_nontrivial counts distinct non-trivial classes (hash set, measured).",
    );
    ev.set("samples", Value::Array(samples));
    ev.set("exhaustive", !is_capped);
    ev.set("capped", is_capped);
    ev.set("bound_completed", if is_capped {
        format!("capped by wall clock; sets fully covered: {:?}; partially covered: {:?}", sets_complete, sets_incomplete)
    } else {
        "all sets fully covered: <= 2 cuts (plus all-1-byte), <= 1 truncation point (every offset, EOF and Err(Incomplete) endings), Pending subsets as listed per set, one non-default consumer action per run".to_string()
    });
    ev.set("sets", set_descr);
    ev.set("evaluations_per_set", json!(per_set));
    ev.set("bodies_per_set", json!(units_per_set));
    ev.set("consumer_polls", polls);
    ev.set("source_polled_again_after_it_returned_none", polls_after_end);
    ev.set("cases_where_a_structural_unit_exceeds_the_limit_overflow_accepted", relaxed_cases);
    ev.set("truncations_that_leave_a_well_formed_body", truncated_wellformed);
    ev.set("outcome_kinds", json!(outcome_kinds));
    ev.set("violating_executions", violating);
    ev.set("distinct_violation_signatures", rep.distinct() as u64);
    ev.set("known_findings_matched", rep.known_count() as u64);
    ev.set("violation_summaries", Value::Array(rep.summaries()));
    ev.assume("the scripted source stream and the counting waker are the only sources of readiness; the consumer is the async loop `while let Some(field) = mp.next().await { while let Some(chunk) = field.next().await {..} }` plus the listed drop/stall/park variants");
    ev.assume("reference parser: RFC 2046 delimiter = CRLF \"--\" boundary, no transport padding; a CRLF--boundary followed by neither CRLF nor -- is judged both strictly (malformed, error required) and leniently (content), either is accepted");
    ev.assume("when a line / header block / delimiter is longer than the configured limit an Overflow error is accepted instead of the fields (the parser cannot do better without exceeding the limit)");
    ev.assume("per-field Content-Length values are truthful (lying values are outside the statement's quantifier)");
    ev.wall_s = wall_s;
    ev.violations = rep.unknown_count() as i64;
    ev.write();
    println!(
        "C15 {}: {} executions ({} with a cut/truncation inside a delimiter, header block or preamble: {} distinct classes), {} violating executions in {} signature(s) ({} known), capped={}, {:.1}s",
        args.tier,
        evaluations,
        nontrivial_evals,
        nontrivial.len(),
        violating,
        rep.distinct(),
        rep.known_count(),
        is_capped,
        wall_s
    );
    std::process::exit(code);
}

fn run_unit(u: &Unit, loc: &mut Local) -> Result<(), String> {
    let b = BodyCtx::from_spec(&u.spec);
    let mut first = true;
    let mut err: Option<String> = None;
    sets::enumerate(&u.plan, &b, &mut |t: &TruncCtx, p: &Params| {
        if err.is_some() {
            return;
        }
        let (obs, verdict) = run_case(&b, t, p);
        loc.evaluations += 1;
        *loc.per_set.entry(u.set).or_default() += 1;
        loc.polls += obs.polls as u64;
        loc.polls_after_end += obs.polls_after_end as u64;
        if b.need > p.limit.value() {
            loc.relaxed_cases += 1;
        }
        if p.trunc.is_some() && t.len < b.bytes.len() && t.strict().is_well_formed() {
            loc.truncated_wellformed += 1;
        }
        let (class, nt) = class_of(&b, t, p, &obs);
        if nt {
            loc.nontrivial.insert(class);
            loc.nontrivial_evals += 1;
        }
        let kind = match (&obs.fin, &verdict) {
            (exec::Final::Completed, Ok(())) => {
                if obs.events.iter().any(|e| matches!(e, exec::Ev::MpEnd { how: exec::End::Err(_) } | exec::Ev::FieldEnd { how: exec::End::Err(_), .. })) {
                    "completed-with-error-accepted"
                } else {
                    "completed-clean-accepted"
                }
            }
            (_, Ok(())) => "other-accepted",
            (exec::Final::Hang { .. }, Err(_)) => "hang-rejected",
            (exec::Final::Panic { .. }, Err(_)) => "panic-rejected",
            (_, Err(_)) => "completed-rejected",
        };
        *loc.outcome_kinds.entry(kind.to_string()).or_default() += 1;
        // determinism: the first case of every body and every failing case are executed twice
        if first || verdict.is_err() {
            let (obs2, verdict2) = run_case(&b, t, p);
            if obs2 != obs || verdict2 != verdict {
                err = Some(format!(
                    "nondeterminism: body {:?} params {:?} gave different observations on re-execution",
                    u.spec, p
                ));
                return;
            }
        }
        // a few written-out cases per worker: non-trivial ones at fixed ordinal positions, and the
        // first rejected one
        let take = (nt && matches!(loc.nontrivial_evals, 1 | 5_000 | 100_000) && loc.samples.len() < 3)
            || (verdict.is_err() && !loc.sampled_violation);
        if verdict.is_err() {
            loc.sampled_violation = true;
        }
        if take {
            loc.samples.push(json!({
                "set": u.set,
                "body": mc_core::show_short(&b.bytes, 400),
                "params": p,
                "reference": format!("{:?} with {} field(s)", t.strict().status, t.strict().fields.len()),
                "observed": oracle::summarize(&obs.events),
                "final": format!("{:?}", obs.fin),
                "verdict": match &verdict { Ok(()) => "accepted".to_string(), Err(f) => format!("rejected: clause {} {}", f.clause, f.signature) },
            }));
        }
        first = false;
        if let Err(f) = verdict {
            loc.violating += 1;
            let w = weight(&b, p);
            let key = (f.clause.to_string(), f.signature.clone());
            let better = loc.violations.get(&key).map(|o| w < o.weight).unwrap_or(true);
            if better {
                loc.violations.insert(
                    key,
                    Violation {
                        property: "C15".into(),
                        clause: f.clause.into(),
                        signature: f.signature,
                        what: f.what,
                        replay: replay_value(&b, p),
                        weight: w,
                    },
                );
            }
        }
    });
    match err {
        Some(e) => Err(e),
        None => Ok(()),
    }
}

fn do_replay(path: &str) -> i32 {
    let v = mc_core::report::read_replay(path);
    let r = &v["replay"];
    let (Some(ct), Some(bd), Some(hx)) = (r["content_type"].as_str(), r["boundary"].as_str(), r["body_hex"].as_str()) else {
        eprintln!("MACHINERY: replay file lacks content_type/boundary/body_hex");
        return 2;
    };
    let p: Params = match serde_json::from_value(r["params"].clone()) {
        Ok(p) => p,
        Err(e) => {
            eprintln!("MACHINERY: cannot parse params in replay file: {e}");
            return 2;
        }
    };
    let mut b = BodyCtx::from_raw(unhex(hx), bd.to_string(), ct.to_string());
    if let Ok(spec) = serde_json::from_value::<BodySpec>(r["body_spec"].clone()) {
        let g = BodyCtx::from_spec(&spec);
        if g.bytes == b.bytes {
            b = g;
        }
    }
    let t = b.trunc(p.trunc);
    println!("body ({} bytes, boundary \"{}\"): \"{}\"", b.bytes.len(), b.boundary, mc_core::show(&b.bytes));
    println!("delivered: {} bytes, cuts {:?}, all-1-byte {}, pending mask {:#x} (all: {}), end {:?}", t.len, p.cuts, p.all1, p.pend_mask, p.pend_all, p.end);
    println!("consumer {:?}, limit {:?} (longest structural unit {} bytes), env_first {}", p.prog, p.limit, b.need, p.env_first);
    println!("reference (strict): {:?}", t.strict().status);
    for (i, f) in t.strict().fields.iter().enumerate() {
        println!("  part #{i}: complete={} headers={:?} content=\"{}\"", f.complete, f.headers.iter().map(|(n, v)| format!("{n}: {}", mc_core::show(v))).collect::<Vec<_>>(), mc_core::show(&f.content));
    }
    for (k, l) in t.parses.iter().enumerate().skip(1) {
        println!("reference (first {k} debatable delimiter candidate(s) read as content): {:?}, {} part(s)", l.status, l.fields.len());
    }
    let (obs, verdict) = run_case(&b, &t, &p);
    let (obs2, verdict2) = run_case(&b, &t, &p);
    if obs != obs2 || verdict != verdict2 {
        eprintln!("MACHINERY: nondeterminism on replay");
        return 2;
    }
    println!("observed:{}", oracle::summarize(&obs.events));
    println!("final: {:?}; consumer polls {}, wake-ups {}, max buffered {}", obs.fin, obs.polls, obs.wakes, obs.max_buffered);
    match verdict {
        Ok(()) => {
            println!("verdict: property holds on this case");
            if let (Some(c), Some(s)) = (v["clause"].as_str(), v["signature"].as_str()) {
                println!("(the replay file recorded clause={c} signature={s}; it no longer fails)");
            }
            0
        }
        Err(f) => {
            println!("verdict: VIOLATION clause={} signature={}", f.clause, f.signature);
            println!("  {}", f.what);
            1
        }
    }
}
