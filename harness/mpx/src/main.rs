fn main() {
    eprintln!("MACHINERY: engine mpx is not built yet");
    std::process::exit(2);
}
