//! C18 — `actix_http::header::HeaderMap` is an order-preserving multimap under every operation
//! sequence.
//!
//! Explicit-state BFS: a state is a *real* `HeaderMap` (cloned along the search, so every state
//! was really reached through the public API) next to the reference `BTreeMap<String,
//! Vec<String>>`; the key is the sorted name -> ordered values association read back from the real
//! map. Every op of the alphabet is applied to every state; the result of the op (`Removed`
//! iterators, drained pairs) and then the complete observable surface of the resulting state is
//! compared with the model. Iteration order *across* names is not part of the contract (hash
//! order): everything is compared per name.
//!
//! Twin: every op sequence up to a depth re-executed on a fresh `HeaderMap::new()` without cloning
//! and without keys. Long walk: one deterministic LCG-driven sequence (not the deciding step).

use crate::guarded;
use actix_http::header::{HeaderMap, HeaderName, HeaderValue};
use mc_core::bfs::{self, Model, StepErr};
use mc_core::report::{Evidence, Reporter, Violation};
use serde::{Deserialize, Serialize};
use serde_json::{json, Value};
use std::cell::RefCell;
use std::collections::{BTreeMap, HashSet};
use std::sync::atomic::{AtomicUsize, Ordering};
use std::sync::Mutex;
use std::time::{Duration, Instant};

/// name spellings used by the ops; "a" and "A" are the same header
pub const NAMES: [&str; 3] = ["a", "A", "x-b"];
/// spellings used for look-ups on every state (the last two are never present)
const LOOKUP: [&str; 7] = ["a", "A", "x-b", "X-B", "x-B", "zz", "bad name"];
/// the third value is used by the second (three-value) search only
pub const VALUES: [&str; 3] = ["1", "2", "3"];

type Ref = BTreeMap<String, Vec<String>>;

#[derive(Clone, Debug, Serialize, Deserialize, PartialEq, Eq, Hash)]
pub enum Op {
    /// insert(NAMES[n], VALUES[v])
    Insert(u8, u8),
    /// append(NAMES[n], VALUES[v])
    Append(u8, u8),
    /// remove(NAMES[n] as key type k: 0 = &str, 1 = String, 2 = HeaderName, 3 = &HeaderName)
    Remove(u8, u8),
    /// retain(pred): 0 = value == "1"; 1 = name != "a"; 2 = name == "x-b" || value == "2";
    /// 3 = value != "2" (with three values the survivors of one name are distinguishable, so their
    /// relative order is observable)
    Retain(u8),
    Drain,
    Clear,
}

pub fn alphabet() -> Vec<Op> {
    alphabet_n(2)
}

/// The alphabet over the first `nvals` values.
pub fn alphabet_n(nvals: usize) -> Vec<Op> {
    let mut v = vec![];
    for n in 0..NAMES.len() as u8 {
        for x in 0..nvals as u8 {
            v.push(Op::Append(n, x));
        }
    }
    for n in 0..NAMES.len() as u8 {
        for x in 0..nvals as u8 {
            v.push(Op::Insert(n, x));
        }
    }
    for n in 0..NAMES.len() as u8 {
        for k in 0..4 {
            v.push(Op::Remove(n, k));
        }
    }
    for p in 0..4 {
        v.push(Op::Retain(p));
    }
    v.push(Op::Drain);
    v.push(Op::Clear);
    v
}

fn hname(s: &str) -> HeaderName {
    HeaderName::from_bytes(s.as_bytes()).expect("valid header name")
}
fn hval(s: &str) -> HeaderValue {
    HeaderValue::from_str(s).expect("valid header value")
}
fn vstr(v: &HeaderValue) -> String {
    String::from_utf8_lossy(v.as_bytes()).into_owned()
}
fn canon(s: &str) -> String {
    s.to_ascii_lowercase()
}

fn serr(sig: &str, what: String) -> StepErr {
    StepErr { clause: "multimap".into(), signature: sig.into(), what }
}

fn pred(p: u8, name: &str, val: &str) -> bool {
    match p {
        0 => val == "1",
        1 => name != "a",
        2 => name == "x-b" || val == "2",
        _ => val != "2",
    }
}

/// Drive an iterator to the end checking `size_hint` (and `len`) before every `next`, that it
/// yields exactly `total` items, and that it stays exhausted.
fn drive<I: ExactSizeIterator>(mut it: I, total: usize, api: &str) -> Result<Vec<I::Item>, StepErr> {
    let mut out = vec![];
    loop {
        let rem = total.saturating_sub(out.len());
        let h = it.size_hint();
        if h != (rem, Some(rem)) {
            return Err(serr(&format!("{api}:size_hint"), format!(
                "{api}: after {} next() calls size_hint() = {:?}, but exactly {} item(s) remain (of {total})",
                out.len(), h, rem)));
        }
        let l = it.len();
        if l != rem {
            return Err(serr(&format!("{api}:len"), format!(
                "{api}: after {} next() calls len() = {l}, but {rem} item(s) remain", out.len())));
        }
        match it.next() {
            Some(x) => {
                out.push(x);
                if out.len() > total {
                    return Err(serr(&format!("{api}:too-many-items"), format!(
                        "{api}: yielded more than the {total} pairs the map holds")));
                }
            }
            None => break,
        }
    }
    if out.len() != total {
        return Err(serr(&format!("{api}:too-few-items"), format!(
            "{api}: yielded {} item(s), the map holds {total}", out.len())));
    }
    if it.next().is_some() {
        return Err(serr(&format!("{api}:not-fused"), format!("{api}: yields again after None")));
    }
    Ok(out)
}

fn group(pairs: impl IntoIterator<Item = (String, String)>) -> Ref {
    let mut r = Ref::new();
    for (n, v) in pairs {
        r.entry(n).or_default().push(v);
    }
    r
}

fn expect_same(api: &str, got: &Ref, model: &Ref) -> Result<(), StepErr> {
    if got != model {
        // classify: same multiset per name but other order, or other contents
        let mut sorted_got = got.clone();
        let mut sorted_model = model.clone();
        sorted_got.values_mut().for_each(|v| v.sort());
        sorted_model.values_mut().for_each(|v| v.sort());
        let sig = if sorted_got == sorted_model { "order" } else { "content" };
        return Err(serr(&format!("{api}:{sig}"), format!(
            "{api}: yields {got:?}, the reference multimap holds {model:?}")));
    }
    Ok(())
}

thread_local! {
    /// Findings that must not stop the rest of the comparison of a state (so that a listed known
    /// finding cannot hide anything else): collected here, reported once per signature.
    static SOFT: RefCell<Vec<StepErr>> = const { RefCell::new(Vec::new()) };
}

fn soft(e: StepErr) {
    SOFT.with(|s| {
        let mut s = s.borrow_mut();
        if !s.iter().any(|x| x.signature == e.signature) {
            s.push(e);
        }
    })
}

pub fn soft_take() -> Vec<StepErr> {
    SOFT.with(|s| std::mem::take(&mut *s.borrow_mut()))
}

/// `Removed` iterator against the expected removed values.
fn check_removed(api: &str, mut r: actix_http::header::map::Removed, expect: &[String], absent_sig: bool) -> Result<(), StepErr> {
    let suffix = if absent_sig && expect.is_empty() { "-absent-key" } else { "" };
    if expect.is_empty() && r.size_hint() == (0, None) {
        // One root cause whatever the call that produced the iterator: `Removed::size_hint`
        // answers (0, None) when nothing was removed although `Removed: ExactSizeIterator`.
        thread_local! { static LEN_PROBE: RefCell<Option<String>> = const { RefCell::new(None) }; }
        // probed once per thread (a caught panic is slow), the answer does not depend on the state
        let len = LEN_PROBE.with(|c| {
            c.borrow_mut()
                .get_or_insert_with(|| match guarded(|| r.len()) {
                    Ok(l) => format!("len() = {l}"),
                    Err(pe) => format!("len() panics ({})", pe.what),
                })
                .clone()
        });
        soft(serr("removed-nothing:size_hint-upper-bound-none", format!(
            "{api}: nothing was removed/replaced; the returned Removed iterator (an ExactSizeIterator) has size_hint() = (0, None) instead of (0, Some(0)); {len}")));
        if !r.is_empty() {
            return Err(serr(&format!("{api}:is_empty"), format!("{api}: Removed::is_empty() = false although nothing was removed")));
        }
        if let Some(v) = r.next() {
            return Err(serr(&format!("{api}:values"), format!("{api}: Removed yields {:?} although nothing was associated", vstr(&v))));
        }
        return Ok(());
    }
    if r.is_empty() != expect.is_empty() {
        return Err(serr(&format!("{api}:is_empty"), format!(
            "{api}: Removed::is_empty() = {}, expected removed values {expect:?}", r.is_empty())));
    }
    let got = drive(r, expect.len(), api).map_err(|mut e| {
        e.signature.push_str(suffix);
        e
    })?;
    let got: Vec<String> = got.iter().map(vstr).collect();
    if got != expect {
        return Err(serr(&format!("{api}:values"), format!(
            "{api}: Removed yields {got:?}, the values that were associated are {expect:?}")));
    }
    Ok(())
}

fn drain_pairs(api: &str, items: Vec<(Option<HeaderName>, HeaderValue)>) -> Result<Ref, StepErr> {
    let mut cur: Option<String> = None;
    let mut seen: HashSet<String> = HashSet::new();
    let mut pairs = vec![];
    for (n, v) in items {
        if let Some(n) = n {
            let n = n.as_str().to_string();
            if !seen.insert(n.clone()) {
                return Err(serr(&format!("{api}:name-repeated"), format!("{api}: name {n} announced twice")));
            }
            cur = Some(n);
        }
        match &cur {
            Some(n) => pairs.push((n.clone(), vstr(&v))),
            None => return Err(serr(&format!("{api}:first-item-without-name"), format!("{api}: first item has no name"))),
        }
    }
    Ok(group(pairs))
}

/// The whole observable surface of one state against the model. Returns the number of individual
/// comparisons made.
pub fn check_state(m: &HeaderMap, model: &Ref) -> Result<u64, StepErr> {
    let mut n = 0u64;
    let total: usize = model.values().map(|v| v.len()).sum();
    // lengths
    if m.len() != total {
        return Err(serr("len", format!("len() = {}, the reference holds {total} values", m.len())));
    }
    if m.len_keys() != model.len() {
        return Err(serr("len_keys", format!("len_keys() = {}, the reference holds {} names", m.len_keys(), model.len())));
    }
    if m.is_empty() != model.is_empty() {
        return Err(serr("is_empty", format!("is_empty() = {}, the reference holds {} names", m.is_empty(), model.len())));
    }
    n += 3;

    // look-ups through every AsHeaderName key type
    for sp in LOOKUP {
        let empty = vec![];
        let exp: &Vec<String> = model.get(&canon(sp)).unwrap_or(&empty);
        let valid = HeaderName::from_bytes(sp.as_bytes()).is_ok();
        let hn = if valid { Some(hname(sp)) } else { None };
        for kt in 0..5u8 {
            let s_owned = sp.to_string();
            let (ktn, first, all, has): (&str, Option<String>, Vec<String>, bool) = match kt {
                0 => ("&str", m.get(sp).map(vstr), drive(m.get_all(sp), exp.len(), "get_all(&str)")?.into_iter().map(vstr).collect(), m.contains_key(sp)),
                1 => ("String", m.get(s_owned.clone()).map(vstr), drive(m.get_all(s_owned.clone()), exp.len(), "get_all(String)")?.into_iter().map(vstr).collect(), m.contains_key(s_owned.clone())),
                2 => ("&String", m.get(&s_owned).map(vstr), drive(m.get_all(&s_owned), exp.len(), "get_all(&String)")?.into_iter().map(vstr).collect(), m.contains_key(&s_owned)),
                3 => match &hn {
                    Some(h) => ("HeaderName", m.get(h.clone()).map(vstr), drive(m.get_all(h.clone()), exp.len(), "get_all(HeaderName)")?.into_iter().map(vstr).collect(), m.contains_key(h.clone())),
                    None => continue,
                },
                _ => match &hn {
                    Some(h) => ("&HeaderName", m.get(h).map(vstr), drive(m.get_all(h), exp.len(), "get_all(&HeaderName)")?.into_iter().map(vstr).collect(), m.contains_key(h)),
                    None => continue,
                },
            };
            let case = if sp.chars().any(|c| c.is_ascii_uppercase()) { "mixed-case" } else { "lower-case" };
            // the statement (and the method's documentation) do not promise *which* of the values
            // `get` returns: it must be one of them, and None exactly for an absent name
            let ok = match &first {
                None => exp.is_empty(),
                Some(v) => exp.contains(v),
            };
            if !ok {
                return Err(serr(&format!("get({ktn}):{case}"), format!(
                    "get({sp:?} as {ktn}) = {first:?}, the values of that name are {exp:?}")));
            }
            if &all != exp {
                let mut a = all.clone();
                let mut b = exp.clone();
                a.sort();
                b.sort();
                let sig = if a == b { "order" } else { "content" };
                return Err(serr(&format!("get_all({ktn}):{sig}:{case}"), format!(
                    "get_all({sp:?} as {ktn}) = {all:?}, the reference holds {exp:?}")));
            }
            if has != !exp.is_empty() {
                return Err(serr(&format!("contains_key({ktn}):{case}"), format!(
                    "contains_key({sp:?} as {ktn}) = {has}, the reference holds {exp:?}")));
            }
            n += 3;
        }
    }

    // iter / (&map).into_iter
    let it = drive(m.iter(), total, "iter")?;
    expect_same("iter", &group(it.iter().map(|(k, v)| (k.as_str().to_string(), vstr(v)))), model)?;
    let it = drive((&*m).into_iter(), total, "(&map).into_iter")?;
    expect_same("(&map).into_iter", &group(it.iter().map(|(k, v)| (k.as_str().to_string(), vstr(v)))), model)?;
    n += 2;

    // keys
    let ks = drive(m.keys(), model.len(), "keys")?;
    let mut ks: Vec<String> = ks.iter().map(|k| k.as_str().to_string()).collect();
    ks.sort();
    let mk: Vec<String> = model.keys().cloned().collect();
    if ks != mk {
        return Err(serr("keys:content", format!("keys() yields {ks:?}, the reference holds names {mk:?}")));
    }
    n += 1;

    // into_iter (owned) on a clone
    let it = drive(m.clone().into_iter(), total, "into_iter")?;
    expect_same("into_iter", &group(it.iter().map(|(k, v)| (k.as_str().to_string(), vstr(v)))), model)?;
    n += 1;

    // drain on a clone: complete, and abandoned after one item
    {
        let mut c = m.clone();
        let items = drive(c.drain(), total, "drain")?;
        expect_same("drain", &drain_pairs("drain", items)?, model)?;
        if !c.is_empty() || c.len() != 0 || c.len_keys() != 0 {
            return Err(serr("drain:map-not-empty-afterwards", format!("after drain() the map still holds {} values", c.len())));
        }
        let mut c = m.clone();
        {
            let mut d = c.drain();
            let _ = d.next();
        }
        if !c.is_empty() || c.len() != 0 {
            return Err(serr("drain:map-not-empty-after-abandoned-drain", format!(
                "after an abandoned drain() the map still holds {} values", c.len())));
        }
        n += 2;
    }

    // remove through every key type on clones: Removed iterator + what is left
    for sp in LOOKUP {
        let valid = HeaderName::from_bytes(sp.as_bytes()).is_ok();
        for kt in 0..4u8 {
            if kt >= 2 && !valid {
                continue;
            }
            let mut c = m.clone();
            let api = format!("remove({})", ["&str", "String", "HeaderName", "&HeaderName"][kt as usize]);
            let removed = match kt {
                0 => c.remove(sp),
                1 => c.remove(sp.to_string()),
                2 => c.remove(hname(sp)),
                _ => c.remove(&hname(sp)),
            };
            let empty = vec![];
            let exp = model.get(&canon(sp)).unwrap_or(&empty);
            check_removed(&api, removed, exp, true)?;
            let mut left = model.clone();
            left.remove(&canon(sp));
            expect_same(&format!("{api}:remaining"), &read_back(&c), &left)?;
            if c.len() != total - exp.len() {
                return Err(serr(&format!("{api}:len-afterwards"), format!(
                    "after {api} of {sp:?} len() = {}, expected {}", c.len(), total - exp.len())));
            }
            n += 2;
        }
    }

    // From<http::HeaderMap>, independent of our own `From<HeaderMap>` and of the hash order of
    // the real map: the http map is built from the reference with the names in ascending and in
    // descending order (all orders, for the two distinct names of the alphabet). This block comes
    // before the round trip below, whose http map inherits the real map's per-instance hash order.
    for rev in [false, true] {
        let mut names: Vec<&String> = model.keys().collect();
        if rev {
            if names.len() < 2 {
                continue;
            }
            names.reverse();
        }
        let mut hm = http::HeaderMap::new();
        for k in names {
            for v in &model[k] {
                hm.append(hname(k), hval(v));
            }
        }
        let api = if rev { "From<http::HeaderMap>(names descending)" } else { "From<http::HeaderMap>" };
        let from_http = HeaderMap::from(hm);
        expect_same(api, &read_back(&from_http), model)?;
        let it = drive(from_http.iter(), total, &format!("{api}.iter"))?;
        expect_same(&format!("{api}.iter"), &group(it.iter().map(|(k, v)| (k.as_str().to_string(), vstr(v)))), model)?;
        n += 2;
    }

    // round trip through http::HeaderMap
    {
        let h: http::HeaderMap = m.clone().into();
        let h_ref: http::HeaderMap = m.into();
        for (what, h) in [("From<HeaderMap>", &h), ("From<&HeaderMap>", &h_ref)] {
            let mut got = Ref::new();
            for k in h.keys() {
                got.insert(k.as_str().to_string(), h.get_all(k).iter().map(vstr).collect());
            }
            expect_same(&format!("http::HeaderMap::{what}"), &got, model)?;
            if h.len() != total {
                return Err(serr("http-conversion:len", format!("http::HeaderMap::{what}: len {} expected {total}", h.len())));
            }
        }
        let back = HeaderMap::from(h);
        expect_same("round-trip", &read_back(&back), model)?;
        if back.len() != total || back.len_keys() != model.len() {
            return Err(serr("round-trip:len", format!(
                "after HeaderMap -> http::HeaderMap -> HeaderMap: len {} / len_keys {}, expected {total} / {}",
                back.len(), back.len_keys(), model.len())));
        }
        n += 3;
    }
    Ok(n)
}

/// name -> ordered values as the real map reports them through keys() + get_all()
fn read_back(m: &HeaderMap) -> Ref {
    let mut r = Ref::new();
    for k in m.keys() {
        r.insert(k.as_str().to_string(), m.get_all(k).map(vstr).collect());
    }
    r
}

/// the search key, read from the real object through fixed look-ups only
fn key_of(m: &HeaderMap) -> Vec<(String, Vec<String>)> {
    let mut out = vec![];
    for n in ["a", "x-b"] {
        let v: Vec<String> = m.get_all(n).map(vstr).collect();
        if !v.is_empty() {
            out.push((n.to_string(), v));
        }
    }
    out
}

pub fn enabled(op: &Op, model: &Ref, cap: usize) -> bool {
    match op {
        Op::Append(n, _) => model.get(&canon(NAMES[*n as usize])).map_or(0, |v| v.len()) < cap,
        _ => true,
    }
}

/// Apply one op to the real map and to the model, judging what the op itself returns.
pub fn apply(m: &mut HeaderMap, model: &mut Ref, op: &Op) -> Result<String, StepErr> {
    match op {
        Op::Insert(n, v) => {
            let (name, val) = (NAMES[*n as usize], VALUES[*v as usize]);
            let removed = m.insert(hname(name), hval(val));
            let old = model.insert(canon(name), vec![val.to_string()]).unwrap_or_default();
            check_removed("insert", removed, &old, false)?;
            Ok(format!("insert({name:?}, {val:?}) -> replaced {old:?}"))
        }
        Op::Append(n, v) => {
            let (name, val) = (NAMES[*n as usize], VALUES[*v as usize]);
            m.append(hname(name), hval(val));
            model.entry(canon(name)).or_default().push(val.to_string());
            Ok(format!("append({name:?}, {val:?})"))
        }
        Op::Remove(n, k) => {
            let name = NAMES[*n as usize];
            let removed = match k {
                0 => m.remove(name),
                1 => m.remove(name.to_string()),
                2 => m.remove(hname(name)),
                _ => m.remove(&hname(name)),
            };
            let old = model.remove(&canon(name)).unwrap_or_default();
            let kt = ["&str", "String", "HeaderName", "&HeaderName"][*k as usize];
            check_removed(&format!("remove({kt})"), removed, &old, true)?;
            Ok(format!("remove({name:?} as {kt}) -> removed {old:?}"))
        }
        Op::Retain(p) => {
            let p = *p;
            m.retain(|k, v| pred(p, k.as_str(), &vstr(v)));
            for (k, vs) in model.iter_mut() {
                vs.retain(|v| pred(p, k, v));
            }
            model.retain(|_, vs| !vs.is_empty());
            Ok(format!("retain(pred{p})"))
        }
        Op::Drain => {
            let total: usize = model.values().map(|v| v.len()).sum();
            let items = drive(m.drain(), total, "drain")?;
            let got = drain_pairs("drain", items)?;
            expect_same("drain", &got, model)?;
            model.clear();
            Ok(format!("drain() -> {total} pairs"))
        }
        Op::Clear => {
            m.clear();
            model.clear();
            Ok("clear()".into())
        }
    }
}

// ------------------------------------------------------------------------------------------------

#[derive(Clone)]
struct St {
    real: HeaderMap,
    model: Ref,
}

#[derive(Default)]
struct Cov {
    comparisons: u64,
    states_checked: u64,
    spilled_states: u64,
    multi_value_states: u64,
    distinct_nontrivial: HashSet<u64>,
    samples: Vec<Value>,
    sample_kinds: HashSet<&'static str>,
    /// signature -> (shortest history showing it, finding, number of states showing it)
    soft: BTreeMap<String, (Vec<Op>, StepErr, u64)>,
}

struct Bfs18 {
    alphabet: Vec<Op>,
    cap: usize,
    cov: RefCell<Cov>,
}

impl Model for Bfs18 {
    type State = St;
    type Key = Vec<(String, Vec<String>)>;
    type Action = Op;
    fn key(&self, s: &St) -> Self::Key {
        key_of(&s.real)
    }
    fn actions(&self, _s: &St) -> Vec<Op> {
        self.alphabet.clone()
    }
    fn step(&self, s: &St, a: &Op, path: &[Op]) -> Result<Option<St>, StepErr> {
        if !enabled(a, &s.model, self.cap) {
            return Ok(None);
        }
        let mut ns = s.clone();
        let _ = soft_take();
        let obs = guarded(|| apply(&mut ns.real, &mut ns.model, a))??;
        let n = guarded(|| check_state(&ns.real, &ns.model))??;
        let mut c = self.cov.borrow_mut();
        for e in soft_take() {
            let ent = c.soft.entry(e.signature.clone()).or_insert_with(|| {
                let mut ops = path.to_vec();
                ops.push(a.clone());
                (ops, e, 0)
            });
            ent.2 += 1;
        }
        c.comparisons += n;
        c.states_checked += 1;
        let maxv = ns.model.values().map(|v| v.len()).max().unwrap_or(0);
        let kind: Option<&'static str> = if maxv > 4 {
            c.spilled_states += 1;
            Some("value-list-spilled-to-heap")
        } else if maxv > 1 {
            c.multi_value_states += 1;
            Some("multi-value")
        } else {
            None
        };
        // non-trivial: the op changed the association or returned removed/drained values, or the
        // state has a multi-value name; distinct by (state before, op, state after)
        let changed = s.model != ns.model;
        if changed || maxv > 1 {
            let h = mc_core::fnv_str(&format!("{:?}|{a:?}|{:?}", s.model, ns.model));
            c.distinct_nontrivial.insert(h);
        }
        let kind = match a {
            Op::Retain(_) if changed => Some("retain-removed-something"),
            Op::Insert(..) if s.model.values().any(|v| v.len() > 1) && changed && kind.is_none() => Some("insert-replaced-many"),
            Op::Drain if maxv == 0 && !s.model.is_empty() => Some("drain"),
            _ => kind,
        };
        if let Some(k) = kind {
            if c.sample_kinds.insert(k) {
                let mut ops = path.to_vec();
                ops.push(a.clone());
                c.samples.push(json!({"kind": k, "ops": ops, "last_step": obs, "resulting_association": ns.model}));
            }
        }
        Ok(Some(ns))
    }
}

/// Re-execute a history on a fresh map (no cloning), judging every step and every state.
/// Returns per-step observations and the first failure.
pub fn run_history(ops: &[Op], cap: usize) -> (Vec<String>, Option<(usize, StepErr)>, Option<usize>, Vec<StepErr>) {
    let mut m = HeaderMap::new();
    let mut model = Ref::new();
    let mut obs = vec![];
    let mut softs: Vec<StepErr> = vec![];
    let _ = soft_take();
    let collect = |softs: &mut Vec<StepErr>| {
        for e in soft_take() {
            if !softs.iter().any(|x| x.signature == e.signature) {
                softs.push(e);
            }
        }
    };
    // the new map is a state too
    if let Err(e) = guarded(|| check_state(&m, &model)).and_then(|r| r) {
        if ops.is_empty() {
            return (obs, Some((0, e)), None, softs);
        }
    }
    collect(&mut softs);
    for (i, op) in ops.iter().enumerate() {
        if !enabled(op, &model, cap) {
            return (obs, None, Some(i), softs);
        }
        let r = guarded(|| apply(&mut m, &mut model, op)).and_then(|r| r);
        collect(&mut softs);
        match r {
            Ok(o) => obs.push(format!("{o}  => {:?}", model)),
            Err(e) => return (obs, Some((i, e)), None, softs),
        }
        let r = guarded(|| check_state(&m, &model)).and_then(|r| r);
        collect(&mut softs);
        if let Err(e) = r {
            return (obs, Some((i, e)), None, softs);
        }
    }
    (obs, None, None, softs)
}

#[derive(Default)]
struct Twin {
    histories: u64,
    comparisons: u64,
    viol: Vec<(Vec<Op>, StepErr)>,
    capped: bool,
    soft_seen: u64,
}

/// DFS without keys and without cloning the subject: every node rebuilds its map from scratch;
/// only the final state of each node is judged in full (its prefixes are nodes of their own).
fn twin_rec(hist: &mut Vec<Op>, alphabet: &[Op], depth: usize, cap: usize, deadline: Instant, t: &mut Twin) {
    for a in alphabet {
        if t.capped {
            return;
        }
        hist.push(a.clone());
        let mut m = HeaderMap::new();
        let mut model = Ref::new();
        let mut ok = true;
        let mut fail = None;
        for (i, op) in hist.iter().enumerate() {
            if !enabled(op, &model, cap) {
                ok = false;
                break;
            }
            if let Err(e) = guarded(|| apply(&mut m, &mut model, op)).and_then(|r| r) {
                if i + 1 == hist.len() {
                    fail = Some(e);
                } else {
                    ok = false; // an ancestor node already reported it
                }
                break;
            }
        }
        if ok {
            t.histories += 1;
            if fail.is_none() {
                match guarded(|| check_state(&m, &model)).and_then(|r| r) {
                    Ok(n) => t.comparisons += n,
                    Err(e) => fail = Some(e),
                }
            }
            match fail {
                Some(e) => t.viol.push((hist.clone(), e)),
                None => {
                    if hist.len() < depth {
                        twin_rec(hist, alphabet, depth, cap, deadline, t);
                    }
                }
            }
        }
        hist.pop();
        t.soft_seen += soft_take().len() as u64;
        if t.histories % 1024 == 0 && Instant::now() > deadline {
            t.capped = true;
        }
    }
}

fn twin(alphabet: &[Op], depth: usize, cap: usize, threads: usize, deadline: Instant) -> Twin {
    let seed: usize = std::env::var("VERIF_SEED").ok().and_then(|s| s.parse().ok()).unwrap_or(0);
    let mut total = Twin::default();
    // depth-1 nodes here; every depth-1 prefix is a work item whose children a worker explores
    let mut roots: Vec<Vec<Op>> = vec![];
    {
        let mut h = vec![];
        twin_rec(&mut h, alphabet, 1, cap, deadline, &mut total);
        for a in alphabet {
            if !total.viol.iter().any(|(ops, _)| ops[0] == *a) {
                roots.push(vec![a.clone()]);
            }
        }
    }
    if depth <= 1 {
        return total;
    }
    // finer work items: depth-2 prefixes
    let mut items: Vec<Vec<Op>> = vec![];
    for r in &roots {
        let mut h = r.clone();
        let mut t = Twin::default();
        twin_rec(&mut h, alphabet, 2, cap, deadline, &mut t);
        total.histories += t.histories;
        total.comparisons += t.comparisons;
        total.soft_seen += t.soft_seen;
        let bad: Vec<Vec<Op>> = t.viol.iter().map(|(o, _)| o.clone()).collect();
        total.viol.extend(t.viol);
        for a in alphabet {
            let mut p = r.clone();
            p.push(a.clone());
            if !bad.contains(&p) {
                items.push(p);
            }
        }
    }
    if depth <= 2 {
        return total;
    }
    if !items.is_empty() {
        let r = seed % items.len();
        items.rotate_left(r);
    }
    let next = AtomicUsize::new(0);
    let merged = Mutex::new(&mut total);
    std::thread::scope(|s| {
        for _ in 0..threads.max(1) {
            s.spawn(|| {
                mc_core::explore::install_panic_hook();
                let mut t = Twin::default();
                loop {
                    let i = next.fetch_add(1, Ordering::SeqCst);
                    if i >= items.len() || t.capped {
                        break;
                    }
                    // skip prefixes that are not enabled
                    let (_, e, dis, _) = run_history(&items[i], cap);
                    let _ = soft_take();
                    if e.is_some() || dis.is_some() {
                        continue;
                    }
                    let mut h = items[i].clone();
                    twin_rec(&mut h, alphabet, depth, cap, deadline, &mut t);
                }
                let mut g = merged.lock().unwrap();
                g.histories += t.histories;
                g.comparisons += t.comparisons;
                g.viol.extend(t.viol);
                g.capped |= t.capped;
                g.soft_seen += t.soft_seen;
            });
        }
    });
    total
}

/// One long deterministic pseudo-random sequence (fixed LCG). Stands in for the quantifier's
/// "long random sequences"; it is NOT the deciding step (the exhaustive BFS is).
fn long_walk(alphabet: &[Op], steps: usize, cap: usize, deadline: Instant) -> (u64, Option<(Vec<Op>, StepErr)>, usize) {
    let mut x: u64 = 0x2545F4914F6CDD1D;
    let mut m = HeaderMap::new();
    let mut model = Ref::new();
    let mut hist: Vec<Op> = vec![];
    let mut done = 0u64;
    let mut max_len = 0;
    for i in 0..steps {
        x = x.wrapping_mul(6364136223846793005).wrapping_add(1442695040888963407);
        let mut r = (x >> 33) as usize;
        // appends three times as likely as anything else so that long value lists build up
        let op = if r % 4 != 0 {
            r /= 4;
            Op::Append((r % NAMES.len()) as u8, ((r / 8) % 2) as u8)
        } else {
            r /= 4;
            alphabet[r % alphabet.len()].clone()
        };
        if !enabled(&op, &model, cap) {
            continue;
        }
        // the replay artefact of a failure is the suffix since the map was last empty
        if model.is_empty() {
            hist.clear();
        }
        hist.push(op.clone());
        let r = guarded(|| apply(&mut m, &mut model, &op))
            .and_then(|r| r)
            .and_then(|_| guarded(|| check_state(&m, &model)).and_then(|r| r));
        let _ = soft_take();
        if let Err(e) = r {
            return (done, Some((hist, e)), max_len);
        }
        done += 1;
        max_len = max_len.max(model.values().map(|v| v.len()).sum());
        if i % 256 == 0 && Instant::now() > deadline {
            break;
        }
    }
    (done, None, max_len)
}

fn machinery(msg: String) -> ! {
    eprintln!("MACHINERY: {msg}");
    std::process::exit(2)
}

fn violation(ops: &[Op], err: &StepErr, cap: usize, source: &str) -> Violation {
    let (obs, _, _, _) = run_history(ops, cap);
    let _ = soft_take();
    Violation {
        property: "C18".into(),
        clause: err.clause.clone(),
        signature: err.signature.clone(),
        what: format!("{} [after {} ops on a new map, found by {source}]", err.what, ops.len()),
        replay: json!({"engine": "seqx", "property": "C18", "cap": cap, "ops": ops, "trace": obs}),
        weight: ops.len() as u64,
    }
}

fn confirm(ops: &[Op], err: &StepErr, cap: usize) {
    let (_, e, _, softs) = run_history(ops, cap);
    let again = e.map(|(_, s)| (s.clause, s.signature));
    if softs.iter().any(|s| s.signature == err.signature) {
        return;
    }
    if again != Some((err.clause.clone(), err.signature.clone())) {
        machinery(format!(
            "nondeterminism / replay divergence: {ops:?} failed with {}/{} in the search; re-executed on a fresh map it gives {again:?}",
            err.clause, err.signature
        ));
    }
}

pub fn replay(path: &str) -> i32 {
    let v = mc_core::report::read_replay(path);
    let ops: Vec<Op> = match serde_json::from_value(v["replay"]["ops"].clone()) {
        Ok(o) => o,
        Err(e) => machinery(format!("replay file {path} has no usable op list: {e}")),
    };
    let cap = v["replay"]["cap"].as_u64().unwrap_or(usize::MAX as u64) as usize;
    println!("replaying {} ops on HeaderMap::new()", ops.len());
    let (obs, err, dis, softs) = run_history(&ops, cap);
    for (i, o) in obs.iter().enumerate() {
        println!("  step {i}: {o}");
    }
    for e in &softs {
        println!("  finding [{}]: {}", e.signature, e.what);
    }
    if let Some(i) = dis {
        machinery(format!("replay divergence: op {i} ({:?}) is not enabled", ops[i]));
    }
    match err {
        Some((i, e)) => {
            println!("  step {i} ({:?}) fails [{}]: {}", ops[i], e.signature, e.what);
            println!("STILL FAILS: clause={} signature={}", e.clause, e.signature);
            1
        }
        None if !softs.is_empty() => {
            println!("STILL FAILS: clause={} signature={}", softs[0].clause, softs[0].signature);
            1
        }
        None => {
            println!("no oracle clause fails on this history");
            0
        }
    }
}

pub fn main(args: &mc_core::cli::Args) -> i32 {
    if let Some(p) = &args.replay {
        return replay(p);
    }
    let start = Instant::now();
    let thorough = args.tier == "thorough";
    let wall = Duration::from_secs(args.wall_s.unwrap_or(if thorough { 1500 } else { 50 }));
    let deadline = start + wall;
    let cap = if thorough { 6 } else { 5 };
    let twin_depth = if thorough { 5 } else { 4 };
    let walk_steps = if thorough { 400_000 } else { 20_000 };
    let alpha = alphabet();
    let threads = mc_core::cli::threads();
    let mut reporter = Reporter::new("C18");

    // the empty map is a state too
    let init = St { real: HeaderMap::new(), model: Ref::new() };
    let mut init_soft: Vec<StepErr> = vec![];
    if let Err(e) = guarded(|| check_state(&init.real, &init.model)).and_then(|r| r) {
        reporter.add(violation(&[], &e, cap, "BFS (initial state)"));
    }
    init_soft.extend(soft_take());

    let (tw, (stats, viols, cov)) = std::thread::scope(|s| {
        let a2 = alpha.clone();
        let h = s.spawn(move || twin(&a2, twin_depth, cap, threads.saturating_sub(1).max(1), deadline));
        let m = Bfs18 { alphabet: alpha.clone(), cap, cov: RefCell::new(Cov::default()) };
        let (stats, viols) = bfs::bfs(&m, init.clone(), u64::MAX, u32::MAX, Some(deadline));
        (h.join().unwrap(), (stats, viols, m.cov.into_inner()))
    });
    for v in &viols {
        confirm(&v.path, &v.err, cap);
        reporter.add(violation(&v.path, &v.err, cap, "BFS"));
    }
    // second search: three distinguishable values per name at a smaller per-name cap (relative
    // order of the survivors of a partial removal is observable only with >= 3 distinct values)
    let cap3 = if thorough { 4 } else { 3 };
    let alpha3 = alphabet_n(3);
    let m3 = Bfs18 { alphabet: alpha3.clone(), cap: cap3, cov: RefCell::new(Cov::default()) };
    let (stats3, viols3) = bfs::bfs(&m3, init.clone(), u64::MAX, u32::MAX, Some(deadline));
    let cov3 = m3.cov.into_inner();
    for v in &viols3 {
        confirm(&v.path, &v.err, cap3);
        reporter.add(violation(&v.path, &v.err, cap3, "BFS (three values)"));
    }
    for (ops, e, _) in cov3.soft.values() {
        confirm(ops, e, cap3);
        reporter.add(violation(ops, e, cap3, "BFS (three values; the rest of every state is still compared)"));
    }
    let mut soft_states: u64 = 0;
    for e in &init_soft {
        confirm(&[], e, cap);
        soft_states += 1;
        reporter.add(violation(&[], e, cap, "BFS (initial state; the rest of every state is still compared)"));
    }
    for (ops, e, n) in cov.soft.values() {
        soft_states += n;
        confirm(ops, e, cap);
        reporter.add(violation(ops, e, cap, "BFS (the rest of every state is still compared)"));
    }
    for (ops, err) in &tw.viol {
        confirm(ops, err, cap);
        reporter.add(violation(ops, err, cap, "un-merged twin"));
    }
    // long deterministic walk, larger cap; only if the deciding step is through
    let walk_cap = 24;
    let (walk_done, walk_fail, walk_max) = long_walk(&alpha, walk_steps, walk_cap, deadline);
    if let Some((ops, err)) = &walk_fail {
        confirm(ops, err, walk_cap);
        reporter.add(violation(ops, err, walk_cap, "long deterministic walk"));
    }

    let mut ev = Evidence::new("C18", &args.tier, "model_checking");
    ev.set("states", stats.states + stats3.states);
    ev.set("transitions", stats.transitions + stats3.transitions);
    ev.set("traces_validated_against_impl", stats.transitions + stats3.transitions);
    ev.set("search_two_values", json!({"states": stats.states, "transitions": stats.transitions, "max_values_per_name": cap, "fixpoint": !stats.capped}));
    ev.set("search_three_values", json!({"states": stats3.states, "transitions": stats3.transitions, "max_values_per_name": cap3, "fixpoint": !stats3.capped, "individual_comparisons": cov3.comparisons, "distinct_nontrivial": cov3.distinct_nontrivial.len()}));
    ev.set("bfs_max_depth", stats.max_depth as u64);
    ev.set("bfs_fixpoint_reached", !stats.capped);
    ev.set("evaluations", stats.transitions + tw.histories + walk_done);
    ev.set("distinct_nontrivial", cov.distinct_nontrivial.len() as u64);
    ev.set("rule", "BFS: every enabled op of the alphabet applied to every distinct name->values association (the real map is cloned from its parent state, the op runs on the real map and on the reference BTreeMap, then the whole observable surface of the new state is compared); a transition is non-trivial when it changed the association or the resulting state has a name with more than one value; distinct by (association before, op, association after). Twin: every op sequence up to twin_depth on a fresh map, no keys, no cloning. Long walk: one fixed-LCG sequence, not the deciding step.");
    ev.set("states_fully_compared", cov.states_checked + 1);
    ev.set("individual_comparisons", cov.comparisons);
    ev.set("states_showing_a_non_blocking_finding", soft_states);
    ev.set("states_with_spilled_value_list", cov.spilled_states);
    ev.set("states_with_multi_value_name", cov.multi_value_states);
    ev.set("alphabet", json!(alpha));
    ev.set("bounds", json!({"names": NAMES, "values": VALUES, "max_values_per_name": cap}));
    ev.set("twin", json!({"depth": twin_depth, "histories": tw.histories, "individual_comparisons": tw.comparisons, "capped": tw.capped}));
    ev.set("long_walk", json!({"steps_executed": walk_done, "max_values_per_name": walk_cap, "largest_map_len": walk_max, "generator": "LCG 6364136223846793005*x+1442695040888963407, fixed start", "deciding": false}));
    let mut samples = cov.samples.clone();
    samples.truncate(10);
    if samples.is_empty() {
        samples.push(json!({"kind": "initial", "ops": []}));
    }
    ev.set("samples", Value::Array(samples));
    let capped = stats.capped || stats3.capped || tw.capped;
    ev.set("capped", capped);
    ev.set("exhaustive", !capped);
    if capped {
        ev.set("capped_note", format!("wall cap fired: BFS covered depth < {} ({} states); twin {}", stats.max_depth, stats.states, if tw.capped { "incomplete" } else { "complete" }));
    }
    ev.set("violations_found", json!(reporter.summaries()));
    ev.assume("state key = name -> ordered values read from the real map; a cloned HeaderMap may differ from its original in hash-table internals (capacity, tombstones) — the un-merged twin rebuilds every history on a fresh map without cloning");
    ev.assume("iteration order across names is not part of the contract and is not compared; everything is compared per name");
    ev.assume("names {a, A, x-b} (two distinct headers), values {1, 2}; append disabled at the per-name cap (5 quick / 6 thorough: the SmallVec<[_;4]> spill is inside); second search with values {1, 2, 3} at cap 3 quick / 4 thorough");
    ev.wall_s = start.elapsed().as_secs_f64();
    ev.violations = reporter.distinct() as i64;
    ev.write();
    println!(
        "C18 {}: BFS {} states, {} transitions (max depth {}, fixpoint {}), {} comparisons; three-value BFS {} states, {} transitions (fixpoint {}); twin depth {}: {} histories{}; long walk {} steps; {:.1}s",
        args.tier, stats.states, stats.transitions, stats.max_depth, !stats.capped, cov.comparisons,
        stats3.states, stats3.transitions, !stats3.capped,
        twin_depth, tw.histories, if tw.capped { " (capped)" } else { "" }, walk_done, ev.wall_s
    );
    reporter.finish()
}
