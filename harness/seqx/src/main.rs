//! seqx — explicit-state op-sequence search on real objects next to a reference model.
//!
//! * C07: `actix_http::h1::Payload::create(false)` (sender, reader) pair — see `c07.rs`
//! * C18: `actix_http::header::HeaderMap` — see `c18.rs`
//!
//! usage: `seqx C07|C18 --tier quick|thorough [--replay file]`

mod c07;
mod c18;

use mc_core::bfs::StepErr;
use std::panic::{catch_unwind, AssertUnwindSafe};

/// Run `f`; a panic raised outside this crate (code under test, or std on its behalf) becomes a
/// violation with clause "panic"; a panic inside this crate is a machinery error (exit 2).
pub fn guarded<T>(f: impl FnOnce() -> T) -> Result<T, StepErr> {
    match catch_unwind(AssertUnwindSafe(f)) {
        Ok(v) => Ok(v),
        Err(_) => {
            let (loc, msg) = mc_core::explore::take_last_panic().unwrap_or_default();
            if loc.contains("seqx/src") || loc.contains("mc-core/src") || msg.starts_with("MACHINERY") {
                eprintln!("MACHINERY: harness panic at {loc}: {msg}");
                std::process::exit(2);
            }
            // location without the checkout prefix, so the signature is the same for /repo and a scratch copy
            let short = match loc.find("actix-http/") {
                Some(i) => loc[i..].to_string(),
                None => match loc.find("/library/") {
                    Some(i) => format!("std{}", &loc[i..]),
                    None => loc.clone(),
                },
            };
            // line numbers move with unrelated edits: keep the file only
            let file = short.split(':').next().unwrap_or(&short).to_string();
            Err(StepErr {
                clause: "panic".into(),
                signature: format!("panic@{file}"),
                what: format!("code under test panicked at {loc}: {}", msg.replace('\n', " ")),
            })
        }
    }
}

fn main() {
    let args = mc_core::cli::parse();
    mc_core::explore::install_panic_hook();
    let code = match args.property.as_str() {
        "C07" => c07::main(&args),
        "C18" => c18::main(&args),
        other => {
            eprintln!("MACHINERY: engine seqx does not serve property {other}");
            2
        }
    };
    std::process::exit(code);
}
