fn main() {
    eprintln!("MACHINERY: engine seqx is not built yet");
    std::process::exit(2);
}
