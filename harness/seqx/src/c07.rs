//! C07 — request-body channel (`h1::Payload::create(false)`): exact bytes, truthful ending, no
//! lost wake-ups.
//!
//! Live objects hold `Rc`s and wakers and cannot be cloned, so a state is a history: every step
//! re-executes the whole history on a fresh (sender, reader) pair next to the reference model
//! (`VecDeque<Vec<u8>>` + end flags + wake obligations) and judges the step.
//!
//! What is judged (each traced to a sentence of the statement):
//!  (a) every `Ok(bytes)` the reader gets is byte-identical to the oldest item the model still
//!      holds; while the model holds items (and no end was reported yet) the reader gets data;
//!  (b) with nothing queued and no end reported yet: `None` only if `feed_eof` happened, and not
//!      if an error was set / the sender vanished before the eof (cut body: error first);
//!      `Err(e)` only for an error that was set, or Incomplete if the sender vanished with neither
//!      eof nor error; `Pending` only if no end is known;
//!  (c) a reader whose latest poll returned Pending (with waker W) has W invoked by the next
//!      feed_data / feed_eof / set_error / sender drop; a feeder whose latest need_read returned
//!      Pause (with waker V) has V invoked no later than the first reader poll after which less
//!      than 32 KiB are queued;
//!  (d) need_read says Dropped exactly when the reader is gone (is_dropped likewise).
//! Nothing is demanded of polls after an end (None / Err) was reported: the statement is silent.
//! Nothing is demanded about Read vs Pause as a function of the fill level (the statement only
//! speaks of the wake-up after a Pause); `Read` at >= 32 KiB is counted, not judged.

use crate::guarded;
use actix_http::{error::PayloadError, h1::Payload};
use bytes::Bytes;
use futures_core::Stream;
use mc_core::bfs::{self, Model, StepErr};
use mc_core::report::{Evidence, Reporter, Violation};
use serde::{Deserialize, Serialize};
use serde_json::{json, Value};
use std::cell::RefCell;
use std::collections::{HashSet, VecDeque};
use std::pin::Pin;
use std::sync::atomic::{AtomicUsize, Ordering};
use std::sync::{Arc, Mutex};
use std::task::{Context, Poll, Wake, Waker};
use std::time::{Duration, Instant};

pub const MAX_BUFFER: usize = 32_768;
pub const FEED_SIZES: [usize; 4] = [1, 16_384, 32_767, 32_768];
/// thorough tier only: one byte over the limit
pub const EXTRA_FEED_SIZE: usize = 32_769;

/// (max queued items, max queued bytes): ops that would exceed them are disabled, which makes the
/// state space finite. quick = (4, 128 KiB) as in DESIGN.md, thorough = (5, 192 KiB).
static BOUNDS: std::sync::OnceLock<(usize, usize)> = std::sync::OnceLock::new();
fn bounds() -> (usize, usize) {
    *BOUNDS.get().expect("bounds set at start-up")
}

#[derive(Clone, Debug, Serialize, Deserialize, PartialEq, Eq, Hash)]
pub enum Op {
    /// sender.feed_data(n bytes)
    Feed(usize),
    FeedEof,
    /// sender.set_error(E1 = Overflow | E2 = EncodingCorrupted)
    SetError(u8),
    DropSender,
    /// sender.need_read(cx with io waker i)
    NeedRead(u8),
    /// reader.poll_next(cx with reader waker i)
    Poll(u8),
    /// reader.unread_data(1 byte)
    Unread,
    DropReader,
}

pub fn alphabet(wakers: u8, thorough: bool) -> Vec<Op> {
    // ordered simplest first so that BFS counterexamples are short and plain
    let mut v = vec![];
    for w in 0..wakers {
        v.push(Op::Poll(w));
    }
    v.push(Op::Feed(1));
    v.push(Op::FeedEof);
    v.push(Op::SetError(1));
    v.push(Op::DropSender);
    for w in 0..wakers {
        v.push(Op::NeedRead(w));
    }
    for s in &FEED_SIZES[1..] {
        v.push(Op::Feed(*s));
    }
    if thorough {
        v.push(Op::Feed(EXTRA_FEED_SIZE));
    }
    v.push(Op::SetError(2));
    v.push(Op::Unread);
    v.push(Op::DropReader);
    v
}

#[derive(Default)]
struct Cnt(AtomicUsize);
impl Wake for Cnt {
    fn wake(self: Arc<Self>) {
        self.0.fetch_add(1, Ordering::SeqCst);
    }
    fn wake_by_ref(self: &Arc<Self>) {
        self.0.fetch_add(1, Ordering::SeqCst);
    }
}

#[derive(Clone, Copy, Debug, PartialEq, Eq, Hash)]
enum ErrTag {
    E1Overflow,
    E2EncodingCorrupted,
    Incomplete,
    Other,
}

fn tag(e: &PayloadError) -> ErrTag {
    match e {
        PayloadError::Overflow => ErrTag::E1Overflow,
        PayloadError::EncodingCorrupted => ErrTag::E2EncodingCorrupted,
        PayloadError::Incomplete(_) => ErrTag::Incomplete,
        _ => ErrTag::Other,
    }
}

/// deterministic, index-dependent contents so that swapped / duplicated / truncated items differ
fn ramp() -> &'static Bytes {
    use std::sync::OnceLock;
    static R: OnceLock<Bytes> = OnceLock::new();
    R.get_or_init(|| {
        let n = MAX_BUFFER + 4096;
        let v: Vec<u8> = (0..n).map(|j| ((j * 131) + (j >> 8) * 17 + (j >> 16)) as u8).collect();
        Bytes::from(v)
    })
}

fn item(index: usize, size: usize) -> Bytes {
    let off = index % 4000;
    ramp().slice(off..off + size)
}

/// Reference model.
#[derive(Clone, Debug, Default)]
struct M7 {
    queue: VecDeque<Vec<u8>>,
    eof: bool,
    errs: Vec<ErrTag>,
    /// sender dropped while neither eof nor an error had been signalled
    vanished: bool,
    /// an error was set / the sender vanished before eof was signalled
    cut: bool,
    sender_alive: bool,
    reader_alive: bool,
    /// reader already got None or Err
    terminal: bool,
    /// waker of the latest poll that returned Pending (cleared by a non-Pending poll / first event)
    reader_armed: Option<usize>,
    /// (waker, its count when Pause was answered) of the latest need_read that returned Pause
    io_armed: Option<(usize, usize)>,
    produced: usize,
}

impl M7 {
    fn bytes(&self) -> usize {
        self.queue.iter().map(|v| v.len()).sum()
    }
}

#[derive(Clone, Debug, PartialEq, Eq, Hash)]
pub struct Key7 {
    snapshot: Option<(usize, bool, bool, bool, bool, Vec<usize>, bool, bool)>,
    sender_alive: bool,
    reader_alive: bool,
    queue: Vec<usize>,
    eof: bool,
    errs: Vec<u8>,
    last_err: u8,
    vanished: bool,
    cut: bool,
    terminal: bool,
    reader_armed: Option<usize>,
    io_armed: Option<(usize, bool)>,
    /// which of the harness wakers the object currently holds a clone of (Arc strong count > 1;
    /// observed without the hook)
    held: Vec<bool>,
}

#[derive(Default, Clone, Debug)]
pub struct StepInfo {
    pub obs: String,
    /// an oracle clause was evaluated on an observation of the real object in this step
    pub judged: bool,
    pub reader_obligation_checked: bool,
    pub io_obligation_checked: bool,
    pub end_report_judged: bool,
    pub data_compared: bool,
    pub read_at_or_above_limit: bool,
}

pub struct Exec {
    /// key after ops[..n-1] (None if n == 0) and after all ops
    pub key_before: Option<Key7>,
    pub key: Key7,
    pub steps: Vec<StepInfo>,
    /// first failing step
    pub err: Option<(usize, StepErr)>,
    /// first op that was not enabled (nothing after it is executed)
    pub disabled_at: Option<usize>,
}

fn serr(clause: &str, sig: &str, what: String) -> StepErr {
    StepErr { clause: clause.into(), signature: sig.into(), what }
}

/// Execute a history on a fresh pair. Stops at the first disabled op or failing step.
pub fn exec(ops: &[Op]) -> Exec {
    let cnts: Vec<Arc<Cnt>> = (0..4).map(|_| Arc::new(Cnt::default())).collect();
    // wakers 0,1 = reader wakers R0,R1; 2,3 = io wakers I0,I1
    let wakers: Vec<Waker> = cnts.iter().map(|c| Waker::from(c.clone())).collect();
    let count = |i: usize| cnts[i].0.load(Ordering::SeqCst);

    let (max_items, max_bytes) = bounds();
    let (tx, rx) = Payload::create(false);
    let mut tx = Some(tx);
    let mut rx = Some(rx);
    let mut m = M7 { sender_alive: true, reader_alive: true, ..Default::default() };

    let mut steps: Vec<StepInfo> = Vec::with_capacity(ops.len());
    let mut err: Option<(usize, StepErr)> = None;
    let mut disabled_at = None;
    let mut key_before = None;

    macro_rules! key {
        () => {{
            let snapshot = rx.as_ref().map(|r| r.verif_snapshot());
            let mut e: Vec<u8> = m.errs.iter().map(|t| *t as u8).collect();
            let last_err = e.last().copied().unwrap_or(255);
            e.sort();
            e.dedup();
            Key7 {
                snapshot,
                sender_alive: m.sender_alive,
                reader_alive: m.reader_alive,
                queue: m.queue.iter().map(|v| v.len()).collect(),
                eof: m.eof,
                errs: e,
                last_err,
                vanished: m.vanished,
                cut: m.cut,
                terminal: m.terminal,
                reader_armed: m.reader_armed,
                io_armed: m.io_armed.map(|(w, c0)| (w, count(w) > c0)),
                // one clone is held by `wakers`, one by `cnts`
                held: cnts.iter().map(|c| Arc::strong_count(c) > 2).collect(),
            }
        }};
    }

    for (i, op) in ops.iter().enumerate() {
        if i + 1 == ops.len() {
            key_before = Some(key!());
        }
        let enabled = match op {
            Op::Feed(s) => {
                m.sender_alive
                    && (!m.reader_alive || (m.queue.len() < max_items && m.bytes() + s <= max_bytes))
            }
            Op::FeedEof | Op::SetError(_) | Op::DropSender | Op::NeedRead(_) => m.sender_alive,
            Op::Unread => m.reader_alive && m.queue.len() < max_items && m.bytes() + 1 <= max_bytes,
            Op::Poll(_) | Op::DropReader => m.reader_alive,
        };
        if !enabled {
            disabled_at = Some(i);
            break;
        }
        let mut info = StepInfo::default();
        let mut fail: Option<StepErr> = None;

        // ---- sender-side events that owe the reader a wake-up -------------------------------
        let is_event = matches!(op, Op::Feed(_) | Op::FeedEof | Op::SetError(_) | Op::DropSender);
        let armed_before = if is_event && m.reader_alive { m.reader_armed.map(|w| (w, count(w))) } else { None };

        match op {
            Op::Feed(s) => {
                let b = item(m.produced, *s);
                m.produced += 1;
                if m.reader_alive {
                    m.queue.push_back(b.to_vec());
                }
                tx.as_mut().unwrap().feed_data(b);
                info.obs = format!("feed_data({s})");
            }
            Op::FeedEof => {
                tx.as_mut().unwrap().feed_eof();
                m.eof = true;
                info.obs = "feed_eof".into();
            }
            Op::SetError(k) => {
                let (e, t) = if *k == 1 {
                    (PayloadError::Overflow, ErrTag::E1Overflow)
                } else {
                    (PayloadError::EncodingCorrupted, ErrTag::E2EncodingCorrupted)
                };
                tx.as_mut().unwrap().set_error(e);
                if !m.eof {
                    m.cut = true;
                }
                m.errs.push(t);
                info.obs = format!("set_error({t:?})");
            }
            Op::DropSender => {
                drop(tx.take());
                m.sender_alive = false;
                if !m.eof && m.errs.is_empty() {
                    m.vanished = true;
                    m.cut = true;
                }
                info.obs = "drop(sender)".into();
            }
            Op::NeedRead(w) => {
                let wi = 2 + *w as usize;
                let mut cx = Context::from_waker(&wakers[wi]);
                let t = tx.as_ref().unwrap();
                let st = t.need_read(&mut cx);
                let name = format!("{st:?}");
                let isd = t.is_dropped();
                info.obs = format!("need_read(I{w}) -> {name} (is_dropped={isd})");
                info.judged = true;
                if m.reader_alive {
                    if name == "Dropped" || isd {
                        fail = Some(serr("d", "dropped-while-reader-alive",
                            format!("need_read answered {name}, is_dropped()={isd}, but the reader is alive")));
                    }
                } else if name != "Dropped" || !isd {
                    fail = Some(serr("d", "not-dropped-after-reader-drop",
                        format!("need_read answered {name}, is_dropped()={isd}, but the reader was dropped")));
                }
                match name.as_str() {
                    "Pause" => m.io_armed = Some((wi, count(wi))),
                    _ => m.io_armed = None,
                }
                if name == "Read" && m.reader_alive && m.bytes() >= MAX_BUFFER {
                    info.read_at_or_above_limit = true;
                }
            }
            Op::Poll(w) => {
                let wi = *w as usize;
                let mut cx = Context::from_waker(&wakers[wi]);
                let r = Pin::new(rx.as_mut().unwrap()).poll_next(&mut cx);
                info.judged = true;
                let queued = m.queue.len();
                let mut drained = false;
                match r {
                    Poll::Ready(Some(Ok(b))) => {
                        info.obs = format!("poll_next(R{w}) -> Ok({} bytes)", b.len());
                        info.data_compared = true;
                        drained = true;
                        m.reader_armed = None;
                        match m.queue.pop_front() {
                            None => {
                                fail = Some(serr("a", "data-from-nowhere",
                                    format!("reader got {} bytes but everything fed had already been delivered", b.len())));
                            }
                            Some(exp) => {
                                if exp[..] != b[..] {
                                    let sig = if m.queue.iter().any(|q| q[..] == b[..]) {
                                        "out-of-order"
                                    } else if exp.len() != b.len() {
                                        "item-length-differs"
                                    } else {
                                        "bytes-differ"
                                    };
                                    fail = Some(serr("a", sig, format!(
                                        "reader got {} bytes that are not the oldest undelivered item ({} bytes expected)",
                                        b.len(), exp.len())));
                                }
                            }
                        }
                    }
                    other => {
                        let was_terminal = m.terminal;
                        let what = match &other {
                            Poll::Ready(None) => "None".to_string(),
                            Poll::Ready(Some(Err(e))) => format!("Err({:?})", tag(e)),
                            _ => "Pending".to_string(),
                        };
                        info.obs = format!("poll_next(R{w}) -> {what}");
                        if !was_terminal {
                            info.end_report_judged = true;
                            if queued > 0 {
                                fail = Some(serr("a", "data-skipped", format!(
                                    "reader got {what} while {queued} fed item(s) were still undelivered")));
                            }
                        }
                        match other {
                            Poll::Ready(None) => {
                                m.reader_armed = None;
                                if !was_terminal && fail.is_none() {
                                    if !m.eof {
                                        fail = Some(serr("b", "clean-end-without-eof",
                                            "reader got a clean end (None) although feed_eof never happened".into()));
                                    } else if m.cut {
                                        fail = Some(serr("b", "clean-end-alone-for-cut-body",
                                            "reader got a clean end (None) for a body that was cut short (error set / sender gone before the eof) without seeing the error first".into()));
                                    }
                                }
                                m.terminal = true;
                            }
                            Poll::Ready(Some(Err(e))) => {
                                m.reader_armed = None;
                                let t = tag(&e);
                                if !was_terminal && fail.is_none() {
                                    if !m.errs.is_empty() {
                                        if !m.errs.contains(&t) {
                                            fail = Some(serr("b", "wrong-error", format!(
                                                "reader got Err({t:?}) but the errors that were set are {:?}", m.errs)));
                                        }
                                    } else if m.vanished {
                                        if t != ErrTag::Incomplete {
                                            fail = Some(serr("b", "wrong-error-after-sender-drop", format!(
                                                "sender vanished without eof/error: reader got Err({t:?}), expected Incomplete")));
                                        }
                                    } else {
                                        fail = Some(serr("b", "error-from-nowhere", format!(
                                            "reader got Err({t:?}) although no error was set and the sender did not vanish before the end")));
                                    }
                                }
                                m.terminal = true;
                            }
                            Poll::Pending => {
                                drained = true;
                                if !was_terminal {
                                    if fail.is_none() {
                                        let why = if !m.errs.is_empty() {
                                            Some("error-set")
                                        } else if m.eof {
                                            Some("eof-signalled")
                                        } else if m.vanished {
                                            Some("sender-vanished")
                                        } else {
                                            None
                                        };
                                        if let Some(why) = why {
                                            fail = Some(serr("b", &format!("end-not-reported:{why}"), format!(
                                                "nothing is queued and the body has ended ({why}) but the reader got Pending instead of the end report")));
                                        }
                                    }
                                    m.reader_armed = Some(wi);
                                }
                            }
                            _ => unreachable!(),
                        }
                    }
                }
                // feeder obligation: told Pause, must have been woken by the time the reader has
                // drained the queue below the limit
                if let Some((v, c0)) = m.io_armed {
                    if count(v) > c0 {
                        m.io_armed = None;
                        info.io_obligation_checked = true;
                    } else if drained && m.bytes() < MAX_BUFFER {
                        info.io_obligation_checked = true;
                        if fail.is_none() {
                            fail = Some(serr("c", "feeder-not-woken-after-drain-below-limit", format!(
                                "feeder was told Pause (waker I{}), the reader has now drained the queue to {} bytes (< 32768) and the feeder's waker was never invoked",
                                v - 2, m.bytes())));
                        }
                    }
                }
            }
            Op::Unread => {
                let b = item(m.produced, 1);
                m.produced += 1;
                m.queue.push_front(b.to_vec());
                rx.as_mut().unwrap().unread_data(b);
                info.obs = "unread_data(1)".into();
            }
            Op::DropReader => {
                drop(rx.take());
                m.reader_alive = false;
                m.reader_armed = None;
                m.io_armed = None;
                m.queue.clear();
                info.obs = "drop(reader)".into();
                if let Some(t) = tx.as_ref() {
                    info.judged = true;
                    if !t.is_dropped() {
                        fail = Some(serr("d", "is_dropped-false-after-reader-drop",
                            "is_dropped() is false after the reader was dropped".into()));
                    }
                }
            }
        }

        if let Some((w, c0)) = armed_before {
            // the reader saw Pending with waker w and this is the next data/eof/error/sender drop
            info.reader_obligation_checked = true;
            info.judged = true;
            m.reader_armed = None;
            if count(w) <= c0 && fail.is_none() {
                let ev = match op {
                    Op::Feed(_) => "feed_data",
                    Op::FeedEof => "feed_eof",
                    Op::SetError(_) => "set_error",
                    _ => "sender-drop",
                };
                fail = Some(serr("c", &format!("reader-not-woken-by:{ev}"), format!(
                    "reader's latest poll returned Pending with waker R{w}; the next event ({ev}) did not invoke that waker")));
            }
        }

        // internal consistency of the hook's own view (never the main oracle)
        if fail.is_none() {
            if let Some(r) = rx.as_ref() {
                let s = r.verif_snapshot();
                let sum: usize = s.5.iter().sum();
                if s.0 != sum {
                    fail = Some(serr("inv", "len-not-sum-of-items", format!(
                        "Inner.len = {} but the queued items add up to {}", s.0, sum)));
                }
            }
        }

        steps.push(info);
        if let Some(f) = fail {
            err = Some((i, f));
            break;
        }
    }
    let key = key!();
    Exec { key_before, key, steps, err, disabled_at }
}

// ------------------------------------------------------------------------------------------------
// BFS to a fixpoint over canonical keys
// ------------------------------------------------------------------------------------------------

#[derive(Default)]
struct Cov7 {
    judged: u64,
    reader_obligations: u64,
    io_obligations: u64,
    end_reports: u64,
    data_compared: u64,
    read_at_or_above_limit: u64,
    distinct_judged: HashSet<u64>,
    samples: Vec<Value>,
    sample_kinds: HashSet<&'static str>,
    longest: usize,
}

fn machinery(msg: String) -> ! {
    eprintln!("MACHINERY: {msg}");
    std::process::exit(2)
}

fn trace_json(ops: &[Op], e: &Exec) -> Value {
    json!(ops
        .iter()
        .zip(e.steps.iter())
        .map(|(o, s)| json!({"op": o, "observed": s.obs}))
        .collect::<Vec<_>>())
}

impl Cov7 {
    fn record(&mut self, ops: &[Op], e: &Exec) {
        let last = e.steps.last().unwrap();
        if last.judged {
            self.judged += 1;
            let h = mc_core::fnv_str(&format!("{:?}|{:?}|{}|{:?}", e.key_before, ops.last(), last.obs, e.key));
            self.distinct_judged.insert(h);
        }
        let mut kinds: Vec<&'static str> = vec![];
        if last.reader_obligation_checked {
            self.reader_obligations += 1;
            kinds.push(match ops.last().unwrap() {
                Op::Feed(_) => "reader-woken-by-data",
                Op::FeedEof => "reader-woken-by-eof",
                Op::SetError(_) => "reader-woken-by-error",
                _ => "reader-woken-by-sender-drop",
            });
        }
        if last.io_obligation_checked {
            self.io_obligations += 1;
            kinds.push("feeder-woken-after-drain");
        }
        if last.end_report_judged {
            self.end_reports += 1;
            if last.obs.contains("Err(") {
                kinds.push(if ops.iter().any(|o| matches!(o, Op::Feed(_))) { "error-after-data" } else { "error" });
            } else if last.obs.contains("None") {
                kinds.push("clean-end");
            }
        }
        if last.data_compared {
            self.data_compared += 1;
        }
        if last.read_at_or_above_limit {
            self.read_at_or_above_limit += 1;
            kinds.push("read-answered-at-or-above-limit");
        }
        for k in kinds {
            if self.sample_kinds.insert(k) {
                self.samples.push(json!({"kind": k, "history": trace_json(ops, e)}));
            }
        }
        if ops.len() > self.longest {
            self.longest = ops.len();
        }
    }
}

struct Bfs7 {
    alphabet: Vec<Op>,
    cov: RefCell<Cov7>,
}

impl Model for Bfs7 {
    type State = Key7;
    type Key = Key7;
    type Action = Op;
    fn key(&self, s: &Key7) -> Key7 {
        s.clone()
    }
    fn actions(&self, s: &Key7) -> Vec<Op> {
        if !s.sender_alive && !s.reader_alive {
            vec![]
        } else {
            self.alphabet.clone()
        }
    }
    fn step(&self, s: &Key7, a: &Op, path: &[Op]) -> Result<Option<Key7>, StepErr> {
        let mut ops = path.to_vec();
        ops.push(a.clone());
        let e = guarded(|| exec(&ops))?;
        let last = ops.len() - 1;
        match e.disabled_at {
            Some(i) if i == last => return Ok(None),
            Some(i) => machinery(format!("replay divergence: op {i} of {ops:?} is disabled on re-execution")),
            None => {}
        }
        if e.key_before.as_ref() != Some(s) {
            machinery(format!(
                "replay divergence: re-executing {path:?} gives state {:?}, the search recorded {s:?}",
                e.key_before
            ));
        }
        if let Some((i, err)) = e.err {
            if i != last {
                machinery(format!("nondeterminism: step {i} of {ops:?} fails now but passed when it was explored"));
            }
            return Err(err);
        }
        self.cov.borrow_mut().record(&ops, &e);
        Ok(Some(e.key))
    }
}

// ------------------------------------------------------------------------------------------------
// un-merged twin: every history up to a depth, no keys involved
// ------------------------------------------------------------------------------------------------

#[derive(Default)]
struct Twin {
    histories: u64,
    steps_executed: u64,
    classes: HashSet<u64>,
    viol: Vec<(Vec<Op>, StepErr)>,
    capped: bool,
}

fn twin_rec(hist: &mut Vec<Op>, alphabet: &[Op], depth: usize, deadline: Instant, t: &mut Twin) {
    for a in alphabet {
        if t.capped {
            return;
        }
        hist.push(a.clone());
        match guarded(|| exec(hist)) {
            Err(pe) => {
                t.histories += 1;
                t.viol.push((hist.clone(), pe));
            }
            Ok(e) => {
                if e.disabled_at.is_none() {
                    t.histories += 1;
                    t.steps_executed += hist.len() as u64;
                    let mut h = String::new();
                    for s in &e.steps {
                        h.push_str(&s.obs);
                        h.push('|');
                    }
                    t.classes.insert(mc_core::fnv_str(&h));
                    if let Some((_, err)) = e.err {
                        t.viol.push((hist.clone(), err));
                    } else if hist.len() < depth {
                        twin_rec(hist, alphabet, depth, deadline, t);
                    }
                }
            }
        }
        hist.pop();
        if t.histories % 4096 == 0 && Instant::now() > deadline {
            t.capped = true;
        }
    }
}

fn twin(alphabet: &[Op], depth: usize, threads: usize, deadline: Instant) -> Twin {
    // level 1 nodes are executed here, each subtree by a worker
    let seed: usize = std::env::var("VERIF_SEED").ok().and_then(|s| s.parse().ok()).unwrap_or(0);
    let mut total = Twin::default();
    let mut roots: Vec<Vec<Op>> = vec![];
    for a in alphabet {
        for b in alphabet {
            roots.push(vec![a.clone(), b.clone()]);
        }
    }
    // depth-1 histories
    for a in alphabet {
        let h = vec![a.clone()];
        if let Ok(e) = guarded(|| exec(&h)) {
            if e.disabled_at.is_none() {
                total.histories += 1;
                total.steps_executed += 1;
                if let Some((_, err)) = e.err {
                    total.viol.push((h.clone(), err));
                }
            }
        }
    }
    if !roots.is_empty() {
        let r = seed % roots.len();
        roots.rotate_left(r);
    }
    let next = AtomicUsize::new(0);
    let merged = Mutex::new(&mut total);
    std::thread::scope(|s| {
        for _ in 0..threads.max(1) {
            s.spawn(|| {
                mc_core::explore::install_panic_hook();
                let mut t = Twin::default();
                loop {
                    let i = next.fetch_add(1, Ordering::SeqCst);
                    if i >= roots.len() || t.capped {
                        break;
                    }
                    let root = &roots[i];
                    // the depth-2 node itself
                    let e = match guarded(|| exec(root)) {
                        Ok(e) => e,
                        Err(pe) => {
                            t.viol.push((root.clone(), pe));
                            continue;
                        }
                    };
                    if e.disabled_at.is_some() {
                        continue;
                    }
                    t.histories += 1;
                    t.steps_executed += 2;
                    if let Some((i, err)) = e.err {
                        if i == 1 {
                            t.viol.push((root.clone(), err));
                        }
                        continue;
                    }
                    if depth > 2 {
                        let mut h = root.clone();
                        twin_rec(&mut h, alphabet, depth, deadline, &mut t);
                    }
                }
                let mut g = merged.lock().unwrap();
                g.histories += t.histories;
                g.steps_executed += t.steps_executed;
                g.classes.extend(t.classes);
                g.viol.extend(t.viol);
                g.capped |= t.capped;
            });
        }
    });
    total
}

// ------------------------------------------------------------------------------------------------

fn violation(ops: &[Op], err: &StepErr, source: &str) -> Violation {
    let e = exec(ops);
    Violation {
        property: "C07".into(),
        clause: err.clause.clone(),
        signature: err.signature.clone(),
        what: format!("{} [history of {} ops, found by {source}]", err.what, ops.len()),
        replay: json!({"engine": "seqx", "property": "C07", "bounds": [bounds().0, bounds().1], "ops": ops, "trace": trace_json(ops, &e)}),
        weight: ops.len() as u64,
    }
}

/// re-execute a failing history: it must fail the same way (else exit 2)
fn confirm(ops: &[Op], err: &StepErr) {
    let again = match guarded(|| exec(ops)) {
        Ok(e) => e.err.map(|(_, s)| (s.clause, s.signature)),
        Err(pe) => Some((pe.clause, pe.signature)),
    };
    if again != Some((err.clause.clone(), err.signature.clone())) {
        machinery(format!(
            "nondeterminism: history {ops:?} failed with {}/{} and on re-execution gives {again:?}",
            err.clause, err.signature
        ));
    }
}

pub fn replay(path: &str) -> i32 {
    let v = mc_core::report::read_replay(path);
    let ops: Vec<Op> = match serde_json::from_value(v["replay"]["ops"].clone()) {
        Ok(o) => o,
        Err(e) => machinery(format!("replay file {path} has no usable op list: {e}")),
    };
    let b = (
        v["replay"]["bounds"][0].as_u64().unwrap_or(4) as usize,
        v["replay"]["bounds"][1].as_u64().unwrap_or(128 * 1024) as usize,
    );
    let _ = BOUNDS.set(b);
    println!("replaying {} ops on a fresh h1::Payload::create(false) pair", ops.len());
    match guarded(|| exec(&ops)) {
        Err(pe) => {
            println!("  {}", pe.what);
            println!("STILL FAILS: clause={} signature={}", pe.clause, pe.signature);
            1
        }
        Ok(e) => {
            for (i, s) in e.steps.iter().enumerate() {
                println!("  step {i}: {}", s.obs);
            }
            if let Some(i) = e.disabled_at {
                machinery(format!("replay divergence: op {i} ({:?}) is not enabled", ops[i]));
            }
            match e.err {
                Some((i, err)) => {
                    println!("  step {i} violates clause ({}) [{}]: {}", err.clause, err.signature, err.what);
                    println!("STILL FAILS: clause={} signature={}", err.clause, err.signature);
                    1
                }
                None => {
                    println!("no oracle clause fails on this history");
                    0
                }
            }
        }
    }
}

pub fn main(args: &mc_core::cli::Args) -> i32 {
    if let Some(p) = &args.replay {
        return replay(p);
    }
    let start = Instant::now();
    let thorough = args.tier == "thorough";
    let wall = Duration::from_secs(args.wall_s.unwrap_or(if thorough { 1500 } else { 50 }));
    let deadline = start + wall;
    let _ = BOUNDS.set(if thorough { (5, 192 * 1024) } else { (4, 128 * 1024) });
    let wakers: u8 = 2;
    let alpha = alphabet(wakers, thorough);
    let twin_depth = if thorough { 6 } else { 5 };
    let threads = mc_core::cli::threads();

    let mut reporter = Reporter::new("C07");

    // 1. un-merged twin on worker threads while the BFS runs on this one
    let (tw, (stats, viols, cov)) = std::thread::scope(|s| {
        let a2 = alpha.clone();
        let h = s.spawn(move || twin(&a2, twin_depth, threads.saturating_sub(1).max(1), deadline));
        let m = Bfs7 { alphabet: alpha.clone(), cov: RefCell::new(Cov7::default()) };
        let init = exec(&[]).key;
        let (stats, viols) = bfs::bfs(&m, init, u64::MAX, u32::MAX, Some(deadline));
        let cov = m.cov.into_inner();
        (h.join().unwrap(), (stats, viols, cov))
    });

    for v in &viols {
        confirm(&v.path, &v.err);
        reporter.add(violation(&v.path, &v.err, "BFS"));
    }
    for (ops, err) in &tw.viol {
        confirm(ops, err);
        reporter.add(violation(ops, err, "un-merged twin"));
    }

    let bfs_viol_transitions = viols.len() as u64;
    let mut ev = Evidence::new("C07", &args.tier, "model_checking");
    let validated = stats.transitions;
    ev.set("states", stats.states);
    ev.set("transitions", stats.transitions);
    ev.set("traces_validated_against_impl", validated);
    ev.set("bfs_max_depth", stats.max_depth as u64);
    ev.set("bfs_fixpoint_reached", !stats.capped);
    ev.set("bfs_terminal_states", stats.terminal_states);
    ev.set("evaluations", stats.transitions + tw.histories);
    ev.set("distinct_nontrivial", cov.distinct_judged.len() as u64);
    ev.set("rule", "BFS: every enabled op of the alphabet is applied to every canonical state by re-executing the shortest history of that state plus the op on a fresh real (sender, reader) pair; a transition is non-trivial when the step judged an observation of the real object (a poll_next result, a need_read/is_dropped answer, or a due wake obligation), and transitions are distinct by (state before, op, observation, state after). Twin: every enabled history up to twin_depth, no keys.");
    ev.set("transitions_judged", cov.judged);
    ev.set("reader_wake_obligations_checked", cov.reader_obligations);
    ev.set("feeder_wake_obligations_checked", cov.io_obligations);
    ev.set("end_reports_judged", cov.end_reports);
    ev.set("data_items_compared", cov.data_compared);
    ev.set("need_read_answered_Read_at_or_above_limit_not_judged", cov.read_at_or_above_limit);
    ev.set("bfs_violating_transitions_distinct", bfs_viol_transitions);
    ev.set("alphabet", json!(alpha));
    ev.set("bounds", json!({"max_queued_items": bounds().0, "max_queued_bytes": bounds().1, "reader_wakers": wakers, "io_wakers": wakers}));
    ev.set("twin", json!({
        "depth": twin_depth,
        "histories": tw.histories,
        "steps_executed": tw.steps_executed,
        "distinct_observation_sequences": tw.classes.len(),
        "capped": tw.capped,
    }));
    let mut samples = cov.samples.clone();
    samples.truncate(12);
    if samples.is_empty() {
        samples.push(json!({"kind": "initial", "history": []}));
    }
    ev.set("samples", Value::Array(samples));
    let capped = stats.capped || tw.capped;
    ev.set("capped", capped);
    ev.set("exhaustive", !capped);
    if capped {
        ev.set("capped_note", format!(
            "wall cap fired: BFS fully covered depth < {} ({} states), twin {}",
            stats.max_depth, stats.states, if tw.capped { "incomplete" } else { "complete" }));
    }
    ev.set("violations_found", json!(reporter.summaries()));
    ev.assume("state key = hook snapshot (len, eof, err?, sender_closed, need_read, item lengths, wakers registered) + which harness wakers the object holds (Arc strong counts) + reference-model state; item contents do not influence the channel (it never looks into Bytes), so they are not part of the key; the un-merged twin does not use the key at all");
    ev.assume(&format!("bounded alphabet: feed sizes {{1,16384,32767,32768{}}}, at most {} queued items / {} KiB, two reader wakers and two io wakers, errors Overflow and EncodingCorrupted", if thorough { ",32769" } else { "" }, bounds().0, bounds().1 / 1024));
    ev.assume("nothing is demanded of polls after the reader got None or Err (the statement does not say)");
    ev.wall_s = start.elapsed().as_secs_f64();
    ev.violations = reporter.distinct() as i64;
    ev.write();

    println!(
        "C07 {}: BFS {} states, {} transitions (max depth {}, fixpoint {}), twin depth {}: {} histories{}; {} reader / {} feeder wake obligations checked; {:.1}s",
        args.tier, stats.states, stats.transitions, stats.max_depth, !stats.capped, twin_depth, tw.histories,
        if tw.capped { " (capped)" } else { "" }, cov.reader_obligations, cov.io_obligations, ev.wall_s
    );
    reporter.finish()
}
