//! Oracle for C17, evaluated on the observation of one execution. Every clause is a literal
//! reading of the property text:
//!  (a) a request yields the body exactly as framed, or an error; a connection that ends before
//!      the framed end is never a success;
//!  (b) a connection carries a further request only if the previous response on it was read to
//!      its end and left a persistent connection, no arrived bytes are unread when the next
//!      request is written, and every response handed out belongs to its own request;
//!  (c) connections that are open (created, not dropped, not handed to shutdown) never exceed the
//!      configured limit at any quiescent point.

use crate::exec::{BodyOut, Consumer, Fault, Interim, Obs, ReqOut, ReqSpec, Scen};
use crate::framing::{build, Kind, Leftover, Resp, STALE_TAG_BASE};
use mc_core::report::Violation;
use serde_json::{json, Value};

fn viol(clause: &str, signature: String, what: String) -> Violation {
    Violation {
        property: "C17".into(),
        clause: clause.into(),
        signature,
        what,
        replay: Value::Null,
        weight: 0,
    }
}

pub fn region(spec: &ReqSpec, r: &Resp) -> String {
    let (tag, k) = match spec.fault {
        Fault::None => return "none".into(),
        Fault::Fin(k) => ("fin", k),
        Fault::Reset(k) => ("reset", k),
    };
    let reg = if k == 0 {
        "before-head"
    } else if k < r.head_len {
        "in-head"
    } else if k >= r.framed_len {
        "at-framed-end"
    } else if k == r.head_len {
        "at-head-end"
    } else {
        "in-body"
    };
    format!("{tag}@{reg}")
}

fn outcome_class(o: &ReqOut, r: &Resp) -> String {
    match o {
        ReqOut::NotStarted => "not-started".into(),
        ReqOut::Sending => "send-pending".into(),
        ReqOut::SendErr(k) => format!("send-err:{k}"),
        ReqOut::Head { status, tag, body, .. } => {
            let b = match body {
                BodyOut::Pending(g) => format!("body-pending:{}", g.len().min(9)),
                BodyOut::Ok(b) => {
                    if *b == r.body {
                        "ok-complete".into()
                    } else if r.body.starts_with(b) {
                        "ok-short".into()
                    } else {
                        "ok-wrong".into()
                    }
                }
                BodyOut::Err { kind, .. } => format!("body-err:{kind}"),
                BodyOut::Dropped => "dropped".into(),
                BodyOut::Partial(None) => "partial:end".into(),
                BodyOut::Partial(Some(Ok(b))) => {
                    format!("partial:{}", if *b == r.body { "all" } else { "some" })
                }
                BodyOut::Partial(Some(Err(k))) => format!("partial-err:{k}"),
            };
            format!("{status}/{}/{b}", tag.clone().unwrap_or_else(|| "-".into()))
        }
    }
}

/// Did the consumer of request p receive the whole framed response?
fn read_to_end(o: &ReqOut, r: &Resp, complete: bool, p: usize) -> bool {
    let ReqOut::Head { tag, body, .. } = o else { return false };
    if tag.as_deref() != Some(&p.to_string()) || !complete {
        return false;
    }
    match body {
        BodyOut::Ok(b) => *b == r.body,
        BodyOut::Dropped | BodyOut::Partial(None) => r.body.is_empty(),
        BodyOut::Partial(Some(Ok(b))) => *b == r.body,
        _ => false,
    }
}

pub fn check(sc: &Scen, obs: &Obs) -> Vec<Violation> {
    let mut out = Vec::new();
    let resps: Vec<Resp> = sc.reqs.iter().enumerate().map(|(j, s)| build(s.framing, j, s.leftover)).collect();
    // A leftover that reached the client only after the next request had been written on the
    // connection is taken for that request's response by any client; from there on every exchange
    // on that connection is shifted by one through the server's doing: (connection, first position
    // from which nothing is judged any more)
    let mut desynced: std::collections::HashMap<usize, usize> = std::collections::HashMap::new();
    for (j, _) in sc.reqs.iter().enumerate() {
        let sv = &obs.served[j];
        if let (ReqOut::Head { tag, .. }, Some(ci)) = (&obs.outs[j], sv.conn) {
            let stale = tag.as_deref().and_then(|t| t.parse::<usize>().ok()).map_or(false, |t| t >= STALE_TAG_BASE);
            let late = obs.conn_starts[ci].iter().find(|s| s.ordinal == sv.ordinal).map_or(false, |s| s.unread == 0 && !s.fin_seen);
            if stale && late {
                let e = desynced.entry(ci).or_insert(sv.ordinal);
                *e = (*e).min(sv.ordinal);
            }
        }
    }
    // where each request was written (the scripted server may never get to answer a request whose
    // "response" the client has already taken from the shifted stream)
    let mut written: std::collections::HashMap<usize, (usize, usize)> = std::collections::HashMap::new();
    for (ci, reqs) in obs.conn_reqs.iter().enumerate() {
        for (pos, &j) in reqs.iter().enumerate() {
            written.entry(j).or_insert((ci, pos));
        }
    }
    let is_desynced = |j: usize| written.get(&j).map_or(false, |(ci, pos)| desynced.get(ci).map_or(false, |&from| *pos > from));
    for (j, spec) in sc.reqs.iter().enumerate() {
        let r = &resps[j];
        let sv = &obs.served[j];
        if is_desynced(j) {
            continue;
        }
        let complete = sv.conn.is_some() && sv.delivered >= r.framed_len;
        let kind = r.kind;
        let describe = || {
            format!(
                "request {j} ({}{} {} / consumer {} / {} / leftover {:?}; server delivered {} of {} framed bytes)",
                spec.kind.label(),
                spec.interim.label(),
                spec.framing.label(),
                spec.consumer.label(),
                region(spec, r),
                spec.leftover,
                sv.delivered.min(r.framed_len),
                r.framed_len
            )
        };
        match &obs.outs[j] {
            ReqOut::NotStarted | ReqOut::SendErr(_) => {}
            ReqOut::Sending => {
                if obs.stalled && sv.conn.is_some() {
                    if sv.fault_applied {
                        out.push(viol("a", "no-result:send:after-close".into(), format!("{}: send() neither resolved nor failed although the server closed the connection", describe())));
                    } else if complete && kind != Kind::Eof {
                        out.push(viol("a", "no-result:send:after-complete-response".into(), format!("{}: send() never resolved although the complete response had arrived", describe())));
                    }
                }
            }
            ReqOut::Head { status, tag, body, .. } => {
                let own = tag.as_deref() == Some(&j.to_string());
                if !own {
                    let how = match tag.as_deref().and_then(|t| t.parse::<usize>().ok()) {
                        Some(t) if t >= STALE_TAG_BASE => "leftover-of-earlier-exchange",
                        Some(t) if t < sc.reqs.len() && sc.reqs[t].interim != Interim::None && !sc.reqs[t].kind.expects() => {
                            "final-response-of-earlier-request-after-interim"
                        }
                        Some(_) => "response-of-another-request",
                        None => "untagged-bytes",
                    };
                    // a leftover that reached the client only after this request had been written
                    // on the connection cannot be told from its response by any client
                    let arrived_after_start = how == "leftover-of-earlier-exchange"
                        && sv.conn.map_or(false, |ci| {
                            obs.conn_starts[ci].iter().find(|s| s.ordinal == sv.ordinal).map_or(false, |s| s.unread == 0 && !s.fin_seen)
                        });
                    if arrived_after_start {
                        continue;
                    }
                    out.push(viol(
                        "b",
                        format!("foreign-response:{how}"),
                        format!("{}: the response handed to this request carries tag {:?}: it read bytes of another exchange", describe(), tag),
                    ));
                    continue;
                }
                if *status != r.status {
                    if (100..200).contains(status) {
                        // RFC 7231 6.2: a client must be able to parse 1xx responses received
                        // prior to the final response; handing the interim head out as THE
                        // response means the framed body of the final response is never delivered
                        out.push(viol(
                            "a",
                            "interim-response-delivered-as-final".into(),
                            format!("{}: the interim {} response was handed out as the final response (empty body); the final {} response and its framed body were not delivered", describe(), status, r.status),
                        ));
                        continue;
                    }
                    out.push(viol("a", "wrong-status".into(), format!("{}: status {} instead of {}", describe(), status, r.status)));
                }
                let success = |b: &Vec<u8>, out: &mut Vec<Violation>| {
                    if kind == Kind::Eof {
                        let delivered_body = &r.bytes[r.head_len.min(sv.delivered)..sv.delivered.max(r.head_len).min(r.bytes.len())];
                        let ok = match spec.fault {
                            Fault::Fin(_) => b.as_slice() == delivered_body,
                            _ => delivered_body.starts_with(b),
                        };
                        if !ok {
                            out.push(viol("a", "wrong-body:close-delimited".into(), format!("{}: body {:?} but the server sent {:?} before closing", describe(), mc_core::show_short(b, 40), mc_core::show_short(delivered_body, 40))));
                        }
                    } else if b.is_empty() && !r.body.is_empty() && spec.framing.has_upgrade_header() && sv.delivered >= r.head_len {
                        out.push(viol(
                            "a",
                            "body-ignored:response-with-upgrade-websocket-header".into(),
                            format!("{}: the response carries `upgrade: websocket` and a Content-Length body of {} bytes; the body was not delivered (empty success at the head end)", describe(), r.body.len()),
                        ));
                    } else if !complete {
                        out.push(viol(
                            "a",
                            // a reset can never look like a clean end through the known root cause
                            // (EOF with an empty read buffer), so it gets its own signature
                            format!("short-success{}:{}", if matches!(spec.fault, Fault::Reset(_)) { "-on-reset" } else { "" }, kind.label()),
                            format!(
                                "{}: the connection ended before the framed end, yet the body was delivered as a clean success ({} bytes: {:?})",
                                describe(),
                                b.len(),
                                mc_core::show_short(b, 40)
                            ),
                        ));
                    } else if *b != r.body {
                        out.push(viol(
                            "a",
                            format!("wrong-body:{}", kind.label()),
                            format!("{}: delivered {:?} ({} bytes) instead of the framed body ({} bytes)", describe(), mc_core::show_short(b, 40), b.len(), r.body.len()),
                        ));
                    }
                };
                let prefix = |g: &Vec<u8>, out: &mut Vec<Violation>| {
                    if !r.body.starts_with(g) {
                        out.push(viol("a", format!("wrong-body:{}", kind.label()), format!("{}: delivered bytes {:?} are not a prefix of the framed body", describe(), mc_core::show_short(g, 40))));
                    }
                };
                match body {
                    BodyOut::Ok(b) => success(b, &mut out),
                    BodyOut::Partial(None) => success(&Vec::new(), &mut out),
                    BodyOut::Partial(Some(Ok(g))) => prefix(g, &mut out),
                    BodyOut::Err { got, .. } => prefix(got, &mut out),
                    BodyOut::Pending(g) => {
                        prefix(g, &mut out);
                        if obs.stalled && matches!(spec.consumer, Consumer::Full | Consumer::Stream) {
                            if sv.fault_applied {
                                out.push(viol("a", "no-result:body:after-close".into(), format!("{}: the body neither ended nor failed although the server closed the connection", describe())));
                            } else if complete && kind != Kind::Eof {
                                out.push(viol("a", "no-result:body:after-complete-response".into(), format!("{}: the body never ended although the complete response had arrived", describe())));
                            }
                        }
                    }
                    BodyOut::Dropped | BodyOut::Partial(Some(Err(_))) => {}
                }
            }
        }
    }

    // (b) reuse discipline
    for (ci, reqs) in obs.conn_reqs.iter().enumerate() {
        for m in 1..reqs.len() {
            let (p, j) = (reqs[m - 1], reqs[m]);
            if p >= sc.reqs.len() || j >= sc.reqs.len() {
                continue;
            }
            if desynced.get(&ci).map_or(false, |&from| m - 1 >= from) {
                continue;
            }
            let rp = &resps[p];
            let svp = &obs.served[p];
            let complete_p = svp.conn == Some(ci) && svp.delivered >= rp.framed_len;
            let ctx = format!(
                "request {j} was written on connection {ci} after request {p} ({}{} {} / consumer {} / {} / leftover {:?})",
                sc.reqs[p].kind.label(),
                sc.reqs[p].interim.label(),
                sc.reqs[p].framing.label(),
                sc.reqs[p].consumer.label(),
                region(&sc.reqs[p], rp),
                sc.reqs[p].leftover
            );
            let interim_as_final = matches!(&obs.outs[p], ReqOut::Head { status, .. } if (100..200).contains(status) && *status != rp.status);
            let upgrade_body_ignored = sc.reqs[p].framing.has_upgrade_header()
                && !rp.body.is_empty()
                && matches!(&obs.outs[p], ReqOut::Head { body, .. } if match body {
                    BodyOut::Ok(b) => b.is_empty(),
                    BodyOut::Dropped | BodyOut::Partial(None) => true,
                    _ => false,
                });
            if interim_as_final {
                out.push(viol("b", "reuse:response-not-read-to-end:interim-taken-as-final".into(), format!("{ctx}: an interim 1xx response had been taken for the final response; the final response of that exchange was not read")));
            } else if upgrade_body_ignored {
                out.push(viol("b", "reuse:response-not-read-to-end:body-ignored-upgrade-websocket-header".into(), format!("{ctx}: the Content-Length body of that response (which carries `upgrade: websocket`) was never read")));
            } else if let Some(why) = rp.not_persistent {
                out.push(viol("b", format!("reuse:non-persistent:{why}"), format!("{ctx}: that exchange did not leave a persistent connection ({why})")));
            } else if !read_to_end(&obs.outs[p], rp, complete_p, p) {
                let how = match &obs.outs[p] {
                    ReqOut::Head { body: BodyOut::Dropped, .. } => "dropped-after-head",
                    ReqOut::Head { body: BodyOut::Partial(_), .. } => "dropped-after-partial-read",
                    ReqOut::Head { body: BodyOut::Err { .. }, .. } => "body-error",
                    ReqOut::Head { body: BodyOut::Ok(_), .. } => "incomplete-or-wrong-body",
                    ReqOut::SendErr(_) => "send-error",
                    _ => "other",
                };
                out.push(viol("b", format!("reuse:response-not-read-to-end:{how}"), format!("{ctx}: that response had not been read to its end ({how})")));
            }
            if let Some(s) = obs.conn_starts[ci].iter().find(|s| s.ordinal == m) {
                // (when the earlier exchange was mis-framed by one of the two causes above, the
                // unread bytes are its real response: already reported there)
                if s.unread > 0 && !interim_as_final && !upgrade_body_ignored {
                    out.push(viol(
                        "b",
                        "reuse:unread-bytes-on-connection".into(),
                        format!("{ctx}: {} bytes of the earlier exchange had arrived and were unread when the new request was written; it will read them as its response", s.unread),
                    ));
                }
            }
        }
    }

    // (c) limit
    if obs.max_open > sc.limit {
        out.push(viol(
            "c",
            "open-connections-exceed-limit".into(),
            format!("{} connections were open (created by the connector, not dropped, not handed to shutdown) at a quiescent point; the configured limit is {}", obs.max_open, sc.limit),
        ));
    }
    if let Some((loc, msg)) = &obs.background_panic {
        out.push(viol("panic", format!("panic@{}", loc.rsplit("/repo/").next().unwrap_or(loc)), format!("a task of the client panicked at {loc}: {msg}")));
    }
    out
}

pub fn tally(sc: &Scen, obs: &Obs) {
    use std::sync::atomic::Ordering::Relaxed;
    for (j, spec) in sc.reqs.iter().enumerate() {
        let r = build(spec.framing, j, spec.leftover);
        match &obs.outs[j] {
            ReqOut::SendErr(_) | ReqOut::Head { body: BodyOut::Err { .. }, .. } => {
                crate::REPORTED_ERRORS.fetch_add(1, Relaxed);
            }
            ReqOut::Head { body: BodyOut::Ok(b), .. } if *b == r.body && obs.served[j].delivered >= r.framed_len => {
                crate::COMPLETE_SUCCESSES.fetch_add(1, Relaxed);
            }
            _ => {}
        }
        if j > 0 && !sc.concurrent {
            if let Some(_c) = obs.served[j].conn {
                if obs.served[j].ordinal > 0 {
                    crate::REUSES.fetch_add(1, Relaxed);
                } else {
                    crate::FRESH_FOR_LATER_REQUEST.fetch_add(1, Relaxed);
                }
            }
        }
    }
    for reqs in &obs.conn_reqs {
        for m in 1..reqs.len() {
            if let Some(p) = sc.reqs.get(reqs[m - 1]) {
                if p.kind.expects() && p.interim == Interim::None {
                    crate::REUSE_AFTER_UNSENT_BODY.fetch_add(1, Relaxed);
                }
            }
        }
    }
    if obs.max_open_strict > sc.limit {
        crate::CLOSING_BEYOND_LIMIT.fetch_add(1, Relaxed);
    }
    if obs.stalled {
        crate::WAITING_FOR_SERVER.fetch_add(1, Relaxed);
    }
}

pub fn canonical(sc: &Scen, obs: &Obs) -> String {
    let mut s = format!("{}|conc={}|lim={}|", sc.group, sc.concurrent, sc.limit);
    for (j, spec) in sc.reqs.iter().enumerate() {
        let r = build(spec.framing, j, spec.leftover);
        let sv = &obs.served[j];
        s.push_str(&format!(
            "[{}{}:{}:{}:{}:{:?}:{}:c{:?}o{}]",
            spec.kind.label(),
            spec.interim.label(),
            spec.framing.label(),
            spec.consumer.label(),
            region(spec, &r),
            spec.leftover,
            outcome_class(&obs.outs[j], &r),
            sv.conn,
            sv.ordinal
        ));
    }
    s.push_str(&format!("|conns={}|open={}|stalled={}", obs.conns_created, obs.max_open, obs.stalled));
    s
}

pub fn nontrivial(sc: &Scen, deviations: u32) -> bool {
    deviations > 0
        || sc.reqs.iter().any(|r| r.interim != Interim::None)
        || sc.reqs.len() > 1
        || sc.reqs.iter().any(|r| r.fault != Fault::None || r.leftover != Leftover::None)
}

pub fn summary(sc: &Scen, obs: &Obs) -> Value {
    let reqs: Vec<Value> = sc
        .reqs
        .iter()
        .enumerate()
        .map(|(j, spec)| {
            let r = build(spec.framing, j, spec.leftover);
            let sv = &obs.served[j];
            let detail = match &obs.outs[j] {
                ReqOut::Head { body: BodyOut::Ok(b), .. } => format!("Ok({:?})", mc_core::show_short(b, 32)),
                ReqOut::Head { body, .. } => {
                    let s = format!("{body:?}");
                    s.chars().take(80).collect()
                }
                o => format!("{o:?}"),
            };
            json!({
                "request": j,
                "request_kind": spec.kind.label(),
                "server_interim": format!("{:?}", spec.interim),
                "framing": spec.framing.label(),
                "consumer": spec.consumer.label(),
                "fault": region(spec, &r),
                "fault_offset": match spec.fault { Fault::None => Value::Null, Fault::Fin(k) | Fault::Reset(k) => json!(k) },
                "response_len": r.framed_len,
                "head_len": r.head_len,
                "leftover": format!("{:?}", spec.leftover),
                "outcome": outcome_class(&obs.outs[j], &r),
                "detail": detail,
                "connection": sv.conn,
                "position_on_connection": sv.ordinal,
                "delivered": sv.delivered,
            })
        })
        .collect();
    json!({
        "requests": reqs,
        "connections_created": obs.conns_created,
        "requests_per_connection": obs.conn_reqs,
        "max_open": obs.max_open,
        "max_open_counting_shutdown_in_progress": obs.max_open_strict,
        "limit": sc.limit,
        "stalled": obs.stalled,
        "steps": obs.steps,
        "not_closed_after_client_drop": obs.leaked,
        "client_wrote_unparsable_request": obs.unparsable_request,
        "request_starts": obs.conn_starts.iter().map(|v| v.iter().map(|s| json!({"position": s.ordinal, "unread_arrived_bytes": s.unread, "peer_closed_seen": s.fin_seen})).collect::<Vec<_>>()).collect::<Vec<_>>(),
    })
}
