//! Scenario enumeration for C17 (DESIGN.md §4 C17) and the per-scenario deviation bounds.

use crate::exec::{Consumer, Fault, Interim, ReqKind, ReqSpec, Scen};
use crate::framing::{build, Framing, Kind, Leftover};
use serde_json::{json, Value};

pub fn name(sc: &Scen) -> String {
    let mut s = format!("{}|", sc.group);
    for r in &sc.reqs {
        let f = match r.fault {
            Fault::None => "open".to_string(),
            Fault::Fin(k) => format!("fin{k}"),
            Fault::Reset(k) => format!("rst{k}"),
        };
        let l = match r.leftover {
            Leftover::None => "",
            Leftover::Junk => "+junk",
            Leftover::Stale => "+stale",
            Leftover::CrlfStale => "+crlf+stale",
        };
        let k = if r.kind == ReqKind::Get && r.interim == Interim::None {
            String::new()
        } else {
            format!("{}{}>", r.kind.label(), r.interim.label())
        };
        s.push_str(&format!("{}{}:{}:{}{} ", k, r.framing.label(), r.consumer.label(), f, l));
    }
    s.push_str(&format!(
        "|{}lim{}{}{}",
        if sc.concurrent { "conc " } else { "" },
        sc.limit,
        if sc.every_offset { " every-offset" } else { "" },
        if sc.alts { "" } else { " no-alts" }
    ));
    s
}

fn req(framing: Framing, consumer: Consumer, fault: Fault, leftover: Leftover) -> ReqSpec {
    ReqSpec { framing, consumer, fault, leftover, kind: ReqKind::Get, interim: Interim::None }
}

fn reqk(kind: ReqKind, interim: Interim, framing: Framing, consumer: Consumer, fault: Fault) -> ReqSpec {
    ReqSpec { framing, consumer, fault, leftover: Leftover::None, kind, interim }
}

fn one(group: &str, r: ReqSpec) -> Scen {
    Scen { group: group.into(), reqs: vec![r], concurrent: false, limit: 1, every_offset: false, alts: true }
}

const SMALL: [Framing; 18] = [
    Framing::S426Upgrade,
    Framing::S200Upgrade,
    Framing::Cl0,
    Framing::Cl0Close,
    Framing::S204Close,
    Framing::Cl5,
    Framing::Cl5Close,
    Framing::Cl5ReqClose,
    Framing::Chunked,
    Framing::ChunkedExt,
    Framing::ChunkedTrailer,
    Framing::ChunkedClose,
    Framing::Head,
    Framing::S204,
    Framing::S304,
    Framing::H10Eof,
    Framing::H10Cl,
    Framing::H10Ka,
];

/// (scenarios, bounds, description of the groups for the evidence file)
pub fn enumerate(thorough: bool) -> (Vec<Scen>, Vec<u32>, Value) {
    let mut scs: Vec<Scen> = Vec::new();
    let mut bounds: Vec<u32> = Vec::new();
    let mut groups: Vec<Value> = Vec::new();
    let mut add_group = |name: &str, what: &str, list: Vec<Scen>, bound: u32, scs: &mut Vec<Scen>, bounds: &mut Vec<u32>| {
        groups.push(json!({"group": name, "scenarios": list.len(), "deviation_bound": bound, "what": what}));
        for s in list {
            scs.push(s);
            bounds.push(bound);
        }
    };

    // ---- single: one request, close at EVERY byte offset, every read cut -----------------------
    let mut single = Vec::new();
    for f in SMALL {
        let r = build(f, 0, Leftover::None);
        for c in [Consumer::Full, Consumer::Stream] {
            let mut faults = vec![];
            if r.kind != Kind::Eof {
                faults.push(Fault::None);
            }
            for k in 0..=r.framed_len {
                faults.push(Fault::Fin(k));
                faults.push(Fault::Reset(k));
            }
            for fault in faults {
                single.push(Scen {
                    group: "single".into(),
                    reqs: vec![req(f, c, fault, Leftover::None)],
                    concurrent: false,
                    limit: 1,
                    every_offset: true,
                    alts: true,
                });
            }
        }
        for c in [Consumer::DropHead, Consumer::Partial] {
            for fault in [Fault::None, Fault::Fin(r.framed_len), Fault::Fin(r.head_len), Fault::Reset(r.head_len)] {
                single.push(Scen {
                    group: "single".into(),
                    reqs: vec![req(f, c, fault, Leftover::None)],
                    concurrent: false,
                    limit: 1,
                    every_offset: true,
                    alts: true,
                });
            }
        }
    }
    add_group(
        "single",
        "1 request; 18 framings x {body(), stream} x {no close, FIN at k, reset at k for every k in 0..=response length}; every byte offset offered as read cut; + dropped/partial consumers",
        single,
        if thorough { 2 } else { 1 },
        &mut scs,
        &mut bounds,
    );

    // ---- big bodies ---------------------------------------------------------------------------
    let mut big = Vec::new();
    let mut big_dev = Vec::new();
    for f in [Framing::Cl70k, Framing::Chunked70k] {
        let r = build(f, 0, Leftover::None);
        let mut offsets: Vec<usize> = Vec::new();
        if thorough {
            offsets.extend(0..=r.framed_len);
        } else {
            offsets.extend(0..=r.head_len + 8);
            for x in [1usize, 2, 1024, 4095, 4096, 4097, 8192, 0x3000, 0x3001, 0x3008, 16384, 32768, 0xB000, 65535, 65536, 69_999] {
                for d in [0usize, 1, 2, 3, 4, 5, 6, 7, 8] {
                    offsets.push(r.head_len + x + d);
                }
            }
            offsets.extend(r.framed_len - 12..=r.framed_len);
        }
        offsets.sort();
        offsets.dedup();
        offsets.retain(|&k| k <= r.framed_len);
        for c in [Consumer::Full, Consumer::Stream] {
            big_dev.push(Scen {
                group: "big-dev".into(),
                reqs: vec![req(f, c, Fault::None, Leftover::None)],
                concurrent: false,
                limit: 1,
                every_offset: false,
                alts: true,
            });
            for &k in &offsets {
                let kinds: &[u8] = if c == Consumer::Full { &[0, 1] } else { &[0] };
                for &t in kinds {
                    big.push(Scen {
                        group: "big".into(),
                        reqs: vec![req(f, c, if t == 0 { Fault::Fin(k) } else { Fault::Reset(k) }, Leftover::None)],
                        concurrent: false,
                        limit: 1,
                        every_offset: false,
                        alts: false,
                    });
                }
            }
        }
        for &k in r.cuts.iter().filter(|&&k| k <= r.framed_len) {
            big_dev.push(Scen {
                group: "big-dev".into(),
                reqs: vec![req(f, Consumer::Full, Fault::Fin(k), Leftover::None)],
                concurrent: false,
                limit: 1,
                every_offset: false,
                alts: true,
            });
        }
    }
    add_group(
        "big",
        if thorough {
            "1 request, 70000-byte body (content-length; chunked 0x3000/1/0x8000/rest): FIN at EVERY byte offset (body() and stream) and reset at every offset (body()), default socket answers"
        } else {
            "1 request, 70000-byte body (content-length; chunked): FIN/reset at every head offset and at selected body offsets (buffer and chunk boundaries +0..8, last 12), default socket answers"
        },
        big,
        0,
        &mut scs,
        &mut bounds,
    );
    add_group(
        "big-dev",
        "70000-byte bodies: no close, and FIN at each structural cut, with socket-answer deviations",
        big_dev,
        if thorough { 2 } else { 1 },
        &mut scs,
        &mut bounds,
    );

    // ---- requests with bodies, Expect: 100-continue, interim responses ---------------------------
    // (kind, interim) pairs; the first gets the full product in both tiers
    let body_kinds_full = [(ReqKind::ExpectSized, Interim::Continue100)];
    let body_kinds_more = [
        (ReqKind::ExpectStream, Interim::Continue100),
        (ReqKind::ExpectSized, Interim::None),
        (ReqKind::ExpectStream, Interim::None),
        (ReqKind::Sized, Interim::None),
        (ReqKind::Stream, Interim::None),
    ];
    let reduced = [Framing::Cl0, Framing::Cl5, Framing::Cl5Close, Framing::Chunked, Framing::ChunkedExt, Framing::S204, Framing::H10Eof];
    let mut body = Vec::new();
    let push_all = |list: &mut Vec<Scen>, group: &str, kind: ReqKind, interim: Interim, framings: &[Framing], consumers: &[Consumer], resets: bool| {
        for &f in framings {
            if f.method_head() {
                continue;
            }
            let r = build(f, 0, Leftover::None);
            for &c in consumers {
                if r.kind != Kind::Eof {
                    list.push(one(group, reqk(kind, interim, f, c, Fault::None)));
                }
                for k in 0..=r.framed_len {
                    list.push(one(group, reqk(kind, interim, f, c, Fault::Fin(k))));
                    if resets {
                        list.push(one(group, reqk(kind, interim, f, c, Fault::Reset(k))));
                    }
                }
            }
        }
    };
    for (k, i) in body_kinds_full {
        push_all(&mut body, "single-body", k, i, &SMALL, &[Consumer::Full, Consumer::Stream], true);
    }
    for (k, i) in body_kinds_more {
        if thorough {
            push_all(&mut body, "single-body", k, i, &SMALL, &[Consumer::Full, Consumer::Stream], true);
        } else {
            push_all(&mut body, "single-body", k, i, &reduced, &[Consumer::Full], false);
        }
    }
    for k in [ReqKind::ExpectSized, ReqKind::ExpectStream, ReqKind::Sized] {
        for c in [Consumer::Full, Consumer::DropHead] {
            body.push(one("single-body", reqk(k, Interim::ContinueThenClose, Framing::Cl5, c, Fault::None)));
        }
    }
    add_group(
        "single-body",
        if thorough {
            "1 POST; {Expect+sized, Expect+chunked} x server {100 then final, final at once, 100 then close} and {sized, chunked} bodies without Expect; 17 framings x {body(), stream} x {no close, FIN at k, reset at k for every k}; the server waits for the request body where it has to"
        } else {
            "1 POST; Expect+sized with '100 then final': 17 framings x {body(), stream} x {no close, FIN/reset at every k}; Expect+chunked/100, Expect final-at-once, sized and chunked bodies without Expect: 7 framings x body() x {no close, FIN at every k}; '100 then close'"
        },
        body,
        if thorough { 2 } else { 1 },
        &mut scs,
        &mut bounds,
    );

    let mut interim = Vec::new();
    for i in [Interim::Early103, Interim::Continue100] {
        let (framings, consumers): (&[Framing], &[Consumer]) = if thorough || i == Interim::Early103 {
            (&SMALL, &[Consumer::Full, Consumer::Stream])
        } else {
            (&reduced, &[Consumer::Full])
        };
        push_all(&mut interim, "single-interim", ReqKind::Get, i, framings, consumers, thorough);
    }
    add_group(
        "single-interim",
        "1 GET answered with an unsolicited interim response (103 Early Hints | 100 Continue) before the final response (one quiescent point earlier or in the same segment: choice point); framings x consumers x FIN at every k",
        interim,
        if thorough { 2 } else { 1 },
        &mut scs,
        &mut bounds,
    );

    let mut seq2b = Vec::new();
    let firsts = [
        (ReqKind::ExpectSized, Interim::Continue100),
        (ReqKind::ExpectSized, Interim::None),
        (ReqKind::ExpectStream, Interim::Continue100),
        (ReqKind::ExpectStream, Interim::None),
        (ReqKind::Sized, Interim::None),
        (ReqKind::Stream, Interim::None),
        (ReqKind::Get, Interim::Early103),
        (ReqKind::Get, Interim::Continue100),
        (ReqKind::Sized, Interim::Early103),
    ];
    for (k, i) in firsts {
        for f in [Framing::Cl5, Framing::Chunked, Framing::Cl5Close, Framing::Cl0, Framing::S204, Framing::S426Upgrade] {
            let r = build(f, 0, Leftover::None);
            for c in [Consumer::Full, Consumer::DropHead] {
                let mut faults = vec![Fault::None, Fault::Fin(r.framed_len)];
                if r.framed_len > r.head_len {
                    faults.push(Fault::Fin(r.head_len + (r.framed_len - r.head_len) / 2));
                }
                for fault in faults {
                    let seconds: &[(ReqKind, Interim)] = if thorough {
                        &[(ReqKind::Get, Interim::None), (ReqKind::ExpectSized, Interim::Continue100), (ReqKind::Sized, Interim::None)]
                    } else {
                        &[(ReqKind::Get, Interim::None), (ReqKind::ExpectSized, Interim::Continue100)]
                    };
                    for &(k2, i2) in seconds {
                        seq2b.push(Scen {
                            group: "seq2-body".into(),
                            reqs: vec![reqk(k, i, f, c, fault), reqk(k2, i2, Framing::Cl5, Consumer::Full, Fault::None)],
                            concurrent: false,
                            limit: 1,
                            every_offset: false,
                            alts: true,
                        });
                    }
                }
            }
        }
    }
    add_group(
        "seq2-body",
        "2 sequential requests, limit 1; first: {Expect sized/chunked x (100 then final | final at once), sized, chunked, GET+103, GET+100, POST+103} x {cl5, chunked, cl5+close, cl0, 204, 426+upgrade} x {read fully, dropped after head} x {open, FIN after the response, FIN mid-body}; second: GET | Expect POST, cl5, read fully",
        seq2b,
        if thorough { 2 } else { 1 },
        &mut scs,
        &mut bounds,
    );

    // ---- seq2: reuse decisions ----------------------------------------------------------------
    let mut seq2 = Vec::new();
    let seconds: &[Framing] = if thorough { &[Framing::Cl5, Framing::Chunked, Framing::Head, Framing::Cl0] } else { &[Framing::Cl5, Framing::Head] };
    for f in SMALL {
        let r = build(f, 0, Leftover::None);
        for c in [Consumer::Full, Consumer::Stream, Consumer::DropHead, Consumer::Partial] {
            let mut variants: Vec<(Fault, Leftover)> = vec![];
            if r.kind != Kind::Eof {
                variants.push((Fault::None, Leftover::None));
                variants.push((Fault::None, Leftover::Junk));
                variants.push((Fault::None, Leftover::Stale));
                variants.push((Fault::None, Leftover::CrlfStale));
            }
            variants.push((Fault::Fin(r.framed_len), Leftover::None));
            variants.push((Fault::Reset(r.framed_len), Leftover::None));
            if r.framed_len > r.head_len {
                variants.push((Fault::Fin(r.head_len + (r.framed_len - r.head_len) / 2), Leftover::None));
                variants.push((Fault::Fin(r.framed_len - 1), Leftover::None));
            }
            variants.push((Fault::Fin(r.head_len), Leftover::None));
            variants.push((Fault::Fin(r.head_len - 1), Leftover::None));
            if thorough && r.kind != Kind::Eof {
                let with_left = build(f, 0, Leftover::Stale);
                variants.push((Fault::Fin(with_left.bytes.len()), Leftover::Stale));
                variants.push((Fault::Fin(r.framed_len + 3), Leftover::Stale));
                variants.push((Fault::Fin(r.framed_len + 3), Leftover::Junk));
            }
            for (fault, left) in variants {
                for &f2 in seconds {
                    seq2.push(Scen {
                        group: "seq2".into(),
                        reqs: vec![req(f, c, fault, left), req(f2, Consumer::Full, Fault::None, Leftover::None)],
                        concurrent: false,
                        limit: 1,
                        every_offset: false,
                        alts: true,
                    });
                }
            }
        }
    }
    add_group(
        "seq2",
        "2 sequential requests to one authority, limit 1; first: 18 framings x {body(), stream, dropped after head, partial then dropped} x {open, FIN/reset after the complete response, FIN mid-body / 1 before end / at head end / in head} x leftover {none, junk, stale response}; second: cl5 | HEAD (thorough: + chunked, cl0) read fully",
        seq2,
        if thorough { 3 } else { 2 },
        &mut scs,
        &mut bounds,
    );

    // ---- seq3 ---------------------------------------------------------------------------------
    let mut seq3 = Vec::new();
    let f3 = [Framing::Cl5, Framing::Chunked, Framing::Cl5Close, Framing::Head];
    let c3 = [Consumer::Full, Consumer::DropHead, Consumer::Partial];
    for a in f3 {
        for ca in c3 {
            for b in f3 {
                for cb in c3 {
                    for c in f3 {
                        let lasts: &[Consumer] = if thorough { &c3 } else { &[Consumer::Full] };
                        for &cc in lasts {
                            seq3.push(Scen {
                                group: "seq3".into(),
                                reqs: vec![
                                    req(a, ca, Fault::None, Leftover::None),
                                    req(b, cb, Fault::None, Leftover::None),
                                    req(c, cc, Fault::None, Leftover::None),
                                ],
                                concurrent: false,
                                limit: 2,
                                every_offset: false,
                                alts: true,
                            });
                        }
                    }
                }
            }
        }
    }
    if thorough {
        for left in [Leftover::Junk, Leftover::Stale] {
            for a in [Framing::Cl5, Framing::Chunked, Framing::Head] {
                for b in [Framing::Cl5, Framing::Chunked] {
                    for cb in c3 {
                        seq3.push(Scen {
                            group: "seq3".into(),
                            reqs: vec![
                                req(a, Consumer::Full, Fault::None, left),
                                req(b, cb, Fault::None, left),
                                req(Framing::Cl5, Consumer::Full, Fault::None, Leftover::None),
                            ],
                            concurrent: false,
                            limit: 2,
                            every_offset: false,
                            alts: true,
                        });
                    }
                }
            }
        }
    }
    add_group(
        "seq3",
        "3 sequential requests, limit 2; each: {cl5, chunked, cl5+close, HEAD} x {read fully, dropped after head, partial then dropped} (third consumer only 'fully' in quick); thorough adds leftover variants",
        seq3,
        if thorough { 2 } else { 1 },
        &mut scs,
        &mut bounds,
    );

    // ---- conc: 3 concurrent requests above the pool limit ----------------------------------------
    let mut conc = Vec::new();
    let fc = [Framing::Cl5, Framing::Cl5Close, Framing::Chunked];
    let cc = [Consumer::Full, Consumer::DropHead];
    for limit in [1usize, 2] {
        for a in fc {
            for ca in cc {
                for b in fc {
                    for cb in cc {
                        for c in fc {
                            for cc_ in cc {
                                for fault0 in [0u8, 1, 2] {
                                    let ra = build(a, 0, Leftover::None);
                                    let fault = match fault0 {
                                        0 => Fault::None,
                                        1 => Fault::Fin(ra.framed_len),
                                        _ => Fault::Fin(ra.framed_len - 2),
                                    };
                                    if fault0 == 2 && !thorough && (b != Framing::Cl5 || c != Framing::Cl5) {
                                        continue;
                                    }
                                    conc.push(Scen {
                                        group: "conc".into(),
                                        reqs: vec![
                                            req(a, ca, fault, Leftover::None),
                                            req(b, cb, Fault::None, Leftover::None),
                                            req(c, cc_, Fault::None, Leftover::None),
                                        ],
                                        concurrent: true,
                                        limit,
                                        every_offset: false,
                                        alts: true,
                                    });
                                }
                            }
                        }
                    }
                }
            }
        }
    }
    add_group(
        "conc",
        "3 requests issued at once from 3 tasks, connector limit 1 and 2; each {cl5, cl5+close, chunked} x {read fully, dropped after head}; first response open / FIN after it / FIN 2 bytes before its end",
        conc,
        if thorough { 2 } else { 1 },
        &mut scs,
        &mut bounds,
    );

    (scs, bounds, Value::Array(groups))
}
