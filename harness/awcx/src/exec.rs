//! One execution: the real `awc::Client` on a paused-clock current-thread runtime, talking to a
//! scripted in-memory server through `Connector::connector(..)`. The harness is the only source of
//! bytes, readiness, closes and time; the code under test is reached through the public API only.

use crate::framing::{build, interim_bytes, Framing, Leftover, Resp};
use actix_tls::connect::{ConnectError as TcpConnectError, ConnectInfo, Connection as TcpConnection};
use futures_util::StreamExt as _;
use mc_core::io::{IoOpts, IoState, ScriptIo};
use mc_core::Chooser;
use serde::{Deserialize, Serialize};
use std::cell::{Cell, RefCell};
use std::collections::VecDeque;
use std::io;
use std::pin::Pin;
use std::rc::Rc;
use std::task::{Context, Poll};
use std::time::Duration;
use tokio::io::{AsyncRead, AsyncWrite, ReadBuf};

#[derive(Clone, Copy, Debug, Serialize, Deserialize, PartialEq, Eq, Hash)]
pub enum Consumer {
    /// `send().await` then `body().limit(1 MiB).await`
    Full,
    /// `send().await` then the payload stream item by item until it ends
    Stream,
    /// the response is dropped as soon as `send()` returned it
    DropHead,
    /// one item of the payload stream is read, then the response is dropped
    Partial,
}

impl Consumer {
    pub fn label(self) -> &'static str {
        match self {
            Consumer::Full => "full",
            Consumer::Stream => "stream",
            Consumer::DropHead => "drophead",
            Consumer::Partial => "partial",
        }
    }
}

#[derive(Clone, Copy, Debug, Serialize, Deserialize, PartialEq, Eq, Hash)]
pub enum Fault {
    /// the server sends everything and leaves the connection open
    None,
    /// the server sends the first k bytes of the response, then closes its side (FIN)
    Fin(usize),
    /// the server sends the first k bytes of the response, then the connection is reset
    Reset(usize),
}

/// what the client sends
#[derive(Clone, Copy, Debug, Default, Serialize, Deserialize, PartialEq, Eq, Hash)]
pub enum ReqKind {
    /// bodiless GET (HEAD for the HEAD framing)
    #[default]
    Get,
    /// POST with `send_body` (Content-Length request body)
    Sized,
    /// POST with `send_stream` (chunked request body, two chunks)
    Stream,
    /// POST, `Expect: 100-continue`, Content-Length body
    ExpectSized,
    /// POST, `Expect: 100-continue`, chunked body
    ExpectStream,
}

impl ReqKind {
    pub fn label(self) -> &'static str {
        match self {
            ReqKind::Get => "get",
            ReqKind::Sized => "post-sized",
            ReqKind::Stream => "post-stream",
            ReqKind::ExpectSized => "expect-sized",
            ReqKind::ExpectStream => "expect-stream",
        }
    }
    pub fn expects(self) -> bool {
        matches!(self, ReqKind::ExpectSized | ReqKind::ExpectStream)
    }
}

/// interim (1xx) behaviour of the scripted server before the final response.
/// For `Expect` requests: `None` = final response at once, without waiting for the body;
/// `Continue100` = `100 Continue`, wait for the body, final response; `ContinueThenClose` =
/// `100 Continue`, then the server closes. For all other requests the interim response is
/// unsolicited and is sent after the complete request, before the final response.
#[derive(Clone, Copy, Debug, Default, Serialize, Deserialize, PartialEq, Eq, Hash)]
pub enum Interim {
    #[default]
    None,
    Continue100,
    Early103,
    ContinueThenClose,
}

impl Interim {
    pub fn label(self) -> &'static str {
        match self {
            Interim::None => "",
            Interim::Continue100 => "+100",
            Interim::Early103 => "+103",
            Interim::ContinueThenClose => "+100close",
        }
    }
}

#[derive(Clone, Debug, Serialize, Deserialize)]
pub struct ReqSpec {
    pub framing: Framing,
    pub consumer: Consumer,
    pub fault: Fault,
    pub leftover: Leftover,
    #[serde(default)]
    pub kind: ReqKind,
    #[serde(default)]
    pub interim: Interim,
}

#[derive(Clone, Debug, Serialize, Deserialize)]
pub struct Scen {
    pub group: String,
    pub reqs: Vec<ReqSpec>,
    /// all requests are issued at once from separate tasks (otherwise one after the other)
    pub concurrent: bool,
    pub limit: usize,
    /// every byte offset is a read cut point (otherwise the structural ones)
    pub every_offset: bool,
    /// socket answers (short read, Pending, partial write, ...) are choice points
    pub alts: bool,
}

// ------------------------------------------------------------------------------------------
// socket handed to awc

#[derive(Default)]
pub struct Meta {
    /// absolute inbound offset at which the framed message of the latest response ends; bytes at
    /// or beyond it are leftovers of that exchange until a new request has been answered
    pub framed_end: Cell<usize>,
    /// one entry per request whose first byte was written on this connection
    pub starts: RefCell<Vec<StartSnap>>,
}

#[derive(Clone, Debug)]
pub struct StartSnap {
    /// how many complete requests had been written on this connection before
    pub ordinal: usize,
    /// bytes that had arrived and were unread when the request began to be written
    pub unread: usize,
    pub fin_seen: bool,
}

pub struct TagIo {
    io: ScriptIo,
    meta: Rc<Meta>,
    sc: Rc<Scen>,
}

impl std::fmt::Debug for TagIo {
    fn fmt(&self, f: &mut std::fmt::Formatter<'_>) -> std::fmt::Result {
        f.write_str("TagIo")
    }
}

/// One request found in the bytes the client wrote on a connection (head complete).
pub struct PReq {
    pub j: Option<usize>,
    pub expect: bool,
    /// offset just after the request (head + body); None while the body is incomplete
    pub end: Option<usize>,
}

fn find(hay: &[u8], from: usize, needle: &[u8]) -> Option<usize> {
    if hay.len() < needle.len() {
        return None;
    }
    (from..=hay.len() - needle.len()).find(|&i| &hay[i..i + needle.len()] == needle)
}

fn chunked_end(out: &[u8], mut at: usize) -> Option<usize> {
    loop {
        let le = find(out, at, b"\r\n")?;
        let line = std::str::from_utf8(&out[at..le]).ok()?;
        let size = usize::from_str_radix(line.split(';').next()?.trim(), 16).ok()?;
        at = le + 2;
        if size == 0 {
            // no trailers are ever sent by awc
            return if out.len() >= at + 2 { Some(at + 2) } else { None };
        }
        if out.len() < at + size + 2 {
            return None;
        }
        at += size + 2;
    }
}

/// Requests written so far (those whose head is complete), and whether the written bytes end
/// exactly at a request boundary.
pub fn parse_out(out: &[u8], sc: &Scen) -> (Vec<PReq>, bool) {
    let mut v = Vec::new();
    let mut at = 0;
    loop {
        if at == out.len() {
            return (v, true);
        }
        let Some(he) = find(out, at, b"\r\n\r\n") else { return (v, false) };
        let head_end = he + 4;
        let head = String::from_utf8_lossy(&out[at..head_end]).to_ascii_lowercase();
        let j = request_number(&out[at..head_end]);
        let mut cl: Option<usize> = None;
        let mut chunked = false;
        let mut expect = false;
        for line in head.split("\r\n").skip(1) {
            if let Some(v) = line.strip_prefix("content-length:") {
                cl = v.trim().parse().ok();
            } else if let Some(v) = line.strip_prefix("transfer-encoding:") {
                chunked = v.trim() == "chunked";
            } else if line.starts_with("expect:") {
                expect = true;
            }
        }
        // the server answered this request without waiting for its body: what follows is the
        // body only if it does not look like a new request
        let answered_early = expect
            && j.and_then(|j| sc.reqs.get(j)).map(|s| s.kind.expects() && s.interim == Interim::None).unwrap_or(false);
        let body_absent = answered_early && (head_end == out.len() || matches!(out[head_end], b'G' | b'H' | b'P'));
        let end = if body_absent {
            Some(head_end)
        } else if chunked {
            chunked_end(out, head_end)
        } else {
            let n = cl.unwrap_or(0);
            if out.len() >= head_end + n { Some(head_end + n) } else { None }
        };
        v.push(PReq { j, expect, end });
        match end {
            Some(e) => at = e,
            None => return (v, false),
        }
    }
}

impl AsyncRead for TagIo {
    fn poll_read(mut self: Pin<&mut Self>, cx: &mut Context<'_>, buf: &mut ReadBuf<'_>) -> Poll<io::Result<()>> {
        // Leftover bytes that have arrived are visible to the client: "not readable yet" is not
        // offered for them (a late arrival is a different, unenumerated, event).
        let saved = {
            let mut st = self.io.0.borrow_mut();
            let zone = st.unread() > 0 && st.rpos >= self.meta.framed_end.get();
            let saved = st.opts.read_alts;
            if zone {
                st.opts.read_alts = false;
            }
            saved
        };
        let r = Pin::new(&mut self.io).poll_read(cx, buf);
        self.io.0.borrow_mut().opts.read_alts = saved;
        r
    }
}

impl AsyncWrite for TagIo {
    fn poll_write(mut self: Pin<&mut Self>, cx: &mut Context<'_>, buf: &[u8]) -> Poll<io::Result<usize>> {
        if !buf.is_empty() {
            let st = self.io.0.borrow();
            let (reqs, at_boundary) = parse_out(&st.out, &self.sc);
            let n = reqs.len();
            if at_boundary {
                let mut starts = self.meta.starts.borrow_mut();
                if !starts.iter().any(|s| s.ordinal == n) {
                    starts.push(StartSnap { ordinal: n, unread: st.unread(), fin_seen: st.read_eof || st.reset });
                }
            }
        }
        Pin::new(&mut self.io).poll_write(cx, buf)
    }
    fn poll_flush(mut self: Pin<&mut Self>, cx: &mut Context<'_>) -> Poll<io::Result<()>> {
        Pin::new(&mut self.io).poll_flush(cx)
    }
    fn poll_shutdown(mut self: Pin<&mut Self>, cx: &mut Context<'_>) -> Poll<io::Result<()>> {
        Pin::new(&mut self.io).poll_shutdown(cx)
    }
}

impl actix_rt::net::ActixStream for TagIo {
    fn poll_read_ready(&self, cx: &mut Context<'_>) -> Poll<io::Result<actix_rt::net::Ready>> {
        self.io.poll_read_ready(cx)
    }
    fn poll_write_ready(&self, cx: &mut Context<'_>) -> Poll<io::Result<actix_rt::net::Ready>> {
        self.io.poll_write_ready(cx)
    }
}

// ------------------------------------------------------------------------------------------
// observations

#[derive(Clone, Debug, PartialEq, Eq)]
pub enum BodyOut {
    /// the consumer was still waiting when the execution ended
    Pending(Vec<u8>),
    Ok(Vec<u8>),
    Err { kind: String, got: Vec<u8> },
    Dropped,
    /// first stream item (None = the stream ended at once)
    Partial(Option<Result<Vec<u8>, String>>),
}

#[derive(Clone, Debug, PartialEq, Eq)]
pub enum ReqOut {
    NotStarted,
    /// `send()` had not resolved when the execution ended
    Sending,
    SendErr(String),
    Head { status: u16, tag: Option<String>, http10: bool, body: BodyOut },
}

enum Act {
    Fin,
    Reset,
    /// bytes that arrive one quiescent point later (a leftover that reaches the client only
    /// after it has consumed the response)
    Bytes(Vec<u8>),
}

struct ConnRec {
    st: Rc<RefCell<IoState>>,
    meta: Rc<Meta>,
    answered: usize,
    /// 0 = waiting for the next request; 1 = `100 Continue` sent, waiting for the body;
    /// 2 = unsolicited interim response sent, the final response follows at the next step
    stage: u8,
    queue: VecDeque<Act>,
    server_closed: bool,
}

/// what the server did for request j
#[derive(Clone, Debug, Default)]
pub struct Served {
    pub conn: Option<usize>,
    /// position of the request on its connection (0 = first)
    pub ordinal: usize,
    /// bytes of the scripted response handed to the socket
    pub delivered: usize,
    /// FIN / reset was applied
    pub fault_applied: bool,
}

pub struct Obs {
    pub outs: Vec<ReqOut>,
    pub served: Vec<Served>,
    /// per connection: request numbers in wire order, and the start snapshots
    pub conn_reqs: Vec<Vec<usize>>,
    pub conn_starts: Vec<Vec<StartSnap>>,
    pub conns_created: usize,
    /// max over all quiescent points of connections neither dropped nor handed to shutdown
    pub max_open: usize,
    /// same, counting a connection until its shutdown completed
    pub max_open_strict: usize,
    /// connections neither dropped nor shut down after the client was dropped
    pub leaked: usize,
    pub steps: usize,
    /// nothing could make progress any more while a consumer was unfinished
    pub stalled: bool,
    pub step_cap: bool,
    /// garbage written by the client that is not a request
    pub unparsable_request: bool,
    pub background_panic: Option<(String, String)>,
}

fn err_kind(dbg: String) -> String {
    // variant path only: cut at the first character that could carry run data
    let cut = dbg.find(['{', '"', '\'']).unwrap_or(dbg.len());
    let mut s: String = dbg[..cut].trim().to_string();
    s.truncate(60);
    s
}

const HOUR: Duration = Duration::from_secs(3600);
const MAX_STEPS: usize = 400;

async fn settle() {
    // paused clock: completes only when every other task is idle (run-until-stalled)
    tokio::time::sleep(Duration::from_millis(1)).await;
}

async fn consume(
    client: awc::Client,
    idx: Vec<usize>,
    sc: Rc<Scen>,
    outs: Rc<RefCell<Vec<ReqOut>>>,
    chooser: Rc<RefCell<Chooser>>,
) {
    for (n, &j) in idx.iter().enumerate() {
        if n > 0 {
            // the next request follows at once (0) or after everything else has settled (1)
            let gap = chooser.borrow_mut().choose("gap", 2);
            if gap == 1 {
                settle().await;
            }
        }
        let spec = sc.reqs[j].clone();
        let url = format!("http://srv.test/r{j}");
        let mut rq = if spec.framing.method_head() {
            client.head(url)
        } else if spec.kind == ReqKind::Get {
            client.get(url)
        } else {
            client.post(url)
        };
        if spec.framing.request_close() {
            rq = rq.force_close();
        }
        if spec.kind.expects() {
            rq = rq.insert_header(("expect", "100-continue"));
        }
        outs.borrow_mut()[j] = ReqOut::Sending;
        let body = request_body(j);
        let fut = match spec.kind {
            ReqKind::Get => rq.send(),
            ReqKind::Sized | ReqKind::ExpectSized => rq.send_body(body),
            ReqKind::Stream | ReqKind::ExpectStream => {
                let (a, b) = body.split_at(5);
                let items: Vec<Result<bytes::Bytes, std::io::Error>> =
                    vec![Ok(bytes::Bytes::copy_from_slice(a)), Ok(bytes::Bytes::copy_from_slice(b))];
                rq.send_stream(futures_util::stream::iter(items))
            }
        };
        let res = fut.await;
        let mut resp = match res {
            Err(e) => {
                outs.borrow_mut()[j] = ReqOut::SendErr(err_kind(format!("{e:?}")));
                continue;
            }
            Ok(r) => r,
        };
        let tag = resp.headers().get("x-req").and_then(|v| v.to_str().ok()).map(|s| s.to_string());
        let status = resp.status().as_u16();
        let http10 = resp.version() == awc::http::Version::HTTP_10;
        let set = |b: BodyOut| {
            outs.borrow_mut()[j] = ReqOut::Head { status, tag: tag.clone(), http10, body: b };
        };
        set(BodyOut::Pending(vec![]));
        match spec.consumer {
            Consumer::Full => {
                let r = resp.body().limit(1 << 20).await;
                match r {
                    Ok(b) => set(BodyOut::Ok(b.to_vec())),
                    Err(e) => set(BodyOut::Err { kind: err_kind(format!("{e:?}")), got: vec![] }),
                }
            }
            Consumer::Stream => {
                let mut got = Vec::new();
                loop {
                    match resp.next().await {
                        Some(Ok(b)) => {
                            got.extend_from_slice(&b);
                            set(BodyOut::Pending(got.clone()));
                        }
                        Some(Err(e)) => {
                            set(BodyOut::Err { kind: err_kind(format!("{e:?}")), got: got.clone() });
                            break;
                        }
                        None => {
                            set(BodyOut::Ok(got.clone()));
                            break;
                        }
                    }
                }
            }
            Consumer::DropHead => {
                set(BodyOut::Dropped);
            }
            Consumer::Partial => {
                let first = resp.next().await;
                set(BodyOut::Partial(first.map(|r| r.map(|b| b.to_vec()).map_err(|e| err_kind(format!("{e:?}"))))));
            }
        }
        drop(resp);
    }
}

/// request body of request j (never starts with a method letter)
pub fn request_body(j: usize) -> Vec<u8> {
    format!("body-{j}-0123456789").into_bytes()
}

fn request_number(req: &[u8]) -> Option<usize> {
    // "GET /r<j> HTTP/1.1"
    let line_end = req.iter().position(|&b| b == b'\r')?;
    let line = std::str::from_utf8(&req[..line_end]).ok()?;
    let mut it = line.split(' ');
    let _m = it.next()?;
    let path = it.next()?;
    path.strip_prefix("/r")?.parse().ok()
}

pub fn run(sc: &Scen, ch: &mut Chooser) -> Obs {
    let chooser = Rc::new(RefCell::new(std::mem::replace(ch, Chooser::new(vec![]))));
    let rt = tokio::runtime::Builder::new_current_thread()
        .enable_time()
        .start_paused(true)
        .build()
        .expect("runtime");
    let local = tokio::task::LocalSet::new();
    let obs = local.block_on(&rt, drive(Rc::new(sc.clone()), chooser.clone()));
    drop(local);
    drop(rt);
    *ch = std::mem::replace(&mut *chooser.borrow_mut(), Chooser::new(vec![]));
    obs
}

async fn drive(sc: Rc<Scen>, chooser: Rc<RefCell<Chooser>>) -> Obs {
    let nreq = sc.reqs.len();
    let conns: Rc<RefCell<Vec<ConnRec>>> = Rc::new(RefCell::new(Vec::new()));
    let opts = IoOpts {
        read_alts: sc.alts,
        read_faults: false,
        write_alts: sc.alts,
        flush_alts: sc.alts,
        shutdown_alts: sc.alts,
        every_offset: sc.every_offset,
        buffered: false,
    };
    let svc = {
        let conns = conns.clone();
        let chooser = chooser.clone();
        let sc_for_io = sc.clone();
        actix_service::fn_service(move |info: ConnectInfo<awc::http::Uri>| {
            let st = Rc::new(RefCell::new(IoState::new(chooser.clone(), opts.clone())));
            let meta = Rc::new(Meta::default());
            conns.borrow_mut().push(ConnRec {
                st: st.clone(),
                meta: meta.clone(),
                answered: 0,
                stage: 0,
                queue: VecDeque::new(),
                server_closed: false,
            });
            let io = TagIo { io: ScriptIo::new(st), meta, sc: sc_for_io.clone() };
            let uri = info.request().clone();
            async move { Ok::<_, TcpConnectError>(TcpConnection::new(uri, io)) }
        })
    };
    let connector = awc::Connector::new()
        .connector(svc)
        .limit(sc.limit)
        .timeout(HOUR)
        .conn_keep_alive(HOUR)
        .conn_lifetime(HOUR);
    let client = awc::Client::builder().connector(connector).timeout(HOUR).disable_redirects().finish();

    let outs = Rc::new(RefCell::new(vec![ReqOut::NotStarted; nreq]));
    let mut handles = Vec::new();
    if sc.concurrent {
        for j in 0..nreq {
            handles.push(tokio::task::spawn_local(consume(
                client.clone(),
                vec![j],
                sc.clone(),
                outs.clone(),
                chooser.clone(),
            )));
        }
    } else {
        handles.push(tokio::task::spawn_local(consume(
            client.clone(),
            (0..nreq).collect(),
            sc.clone(),
            outs.clone(),
            chooser.clone(),
        )));
    }

    let mut served = vec![Served::default(); nreq];
    let mut max_open = 0usize;
    let mut max_open_strict = 0usize;
    let mut stalled = false;
    let mut step_cap = true;
    let mut unparsable = false;
    let mut idle_rounds = 0;
    let mut last_sig = (0u64, 0u64, 0usize, 0usize);
    let mut steps = 0;

    let count_open = |conns: &Vec<ConnRec>| -> (usize, usize) {
        let mut a = 0;
        let mut b = 0;
        for c in conns.iter() {
            let st = c.st.borrow();
            if !st.dropped && st.shutdown_calls == 0 {
                a += 1;
            }
            if !st.dropped && !st.shutdown_done {
                b += 1;
            }
        }
        (a, b)
    };
    let fire = |conns: &Vec<ConnRec>| -> bool {
        let mut acted = false;
        for c in conns.iter() {
            let mut st = c.st.borrow_mut();
            if st.read_parked_by_choice {
                st.fire_readable();
                acted = true;
            }
            if st.write_waker.is_some() {
                st.fire_writable();
                acted = true;
            }
        }
        acted
    };

    for step in 0..MAX_STEPS {
        steps = step + 1;
        settle().await;
        let mut cs = conns.borrow_mut();
        let (a, b) = count_open(&cs);
        max_open = max_open.max(a);
        max_open_strict = max_open_strict.max(b);
        let mut acted = fire(&cs);
        for ci in 0..cs.len() {
            let c = &mut cs[ci];
            if let Some(act) = c.queue.pop_front() {
                let mut st = c.st.borrow_mut();
                match act {
                    Act::Fin => {
                        st.peer_fin();
                        c.server_closed = true;
                    }
                    Act::Reset => {
                        st.peer_reset();
                        c.server_closed = true;
                    }
                    Act::Bytes(b) => st.arrive(&b),
                }
                acted = true;
                continue;
            }
            if c.server_closed {
                continue;
            }
            let mut st = c.st.borrow_mut();
            let (reqs, _) = parse_out(&st.out, &sc);
            let Some(rq) = reqs.get(c.answered) else { continue };
            let Some(j) = rq.j.filter(|&j| j < nreq) else {
                // not one of ours: answer nothing, close
                unparsable = true;
                st.peer_fin();
                c.server_closed = true;
                c.answered += 1;
                acted = true;
                continue;
            };
            let spec = &sc.reqs[j];
            let ordinal = c.answered;
            let mut final_prefix: Option<Vec<u8>> = None;
            match c.stage {
                0 => {
                    if spec.kind.expects() && rq.expect {
                        match spec.interim {
                            Interim::None => final_prefix = Some(Vec::new()),
                            Interim::Continue100 | Interim::Early103 => {
                                c.meta.framed_end.set(usize::MAX);
                                st.arrive(b"HTTP/1.1 100 Continue\r\n\r\n");
                                c.stage = 1;
                                acted = true;
                            }
                            Interim::ContinueThenClose => {
                                c.meta.framed_end.set(usize::MAX);
                                st.arrive(b"HTTP/1.1 100 Continue\r\n\r\n");
                                st.peer_fin();
                                c.server_closed = true;
                                served[j] = Served { conn: Some(ci), ordinal, delivered: 0, fault_applied: true };
                                c.answered += 1;
                                acted = true;
                            }
                        }
                    } else if rq.end.is_some() {
                        match spec.interim {
                            Interim::None => final_prefix = Some(Vec::new()),
                            Interim::ContinueThenClose => {
                                c.meta.framed_end.set(usize::MAX);
                                st.arrive(&interim_bytes(spec.interim, j));
                                st.peer_fin();
                                c.server_closed = true;
                                served[j] = Served { conn: Some(ci), ordinal, delivered: 0, fault_applied: true };
                                c.answered += 1;
                                acted = true;
                            }
                            i => {
                                // the final response follows one quiescent point later (0) or
                                // in the same segment (1)
                                let gap = chooser.borrow_mut().choose("interim_gap", 2);
                                if gap == 0 {
                                    c.meta.framed_end.set(usize::MAX);
                                    st.arrive(&interim_bytes(i, j));
                                    c.stage = 2;
                                    acted = true;
                                } else {
                                    final_prefix = Some(interim_bytes(i, j));
                                }
                            }
                        }
                    }
                }
                1 => {
                    if rq.end.is_some() {
                        final_prefix = Some(Vec::new());
                    }
                }
                _ => final_prefix = Some(Vec::new()),
            }
            let Some(prefix) = final_prefix else { continue };
            c.stage = 0;
            c.answered += 1;
            acted = true;
            let r: Resp = build(spec.framing, j, spec.leftover);
            let base = st.inbox.len() + prefix.len();
            c.meta.framed_end.set(base + r.framed_len);
            if !prefix.is_empty() {
                st.cuts.push(base);
            }
            st.cuts.extend(r.cuts.iter().map(|x| base + x));
            let (k, fault) = match spec.fault {
                Fault::None => (r.bytes.len(), None),
                Fault::Fin(k) => (k.min(r.bytes.len()), Some(Act::Fin)),
                Fault::Reset(k) => (k.min(r.bytes.len()), Some(Act::Reset)),
            };
            served[j] = Served { conn: Some(ci), ordinal, delivered: k, fault_applied: fault.is_some() };
            let mut seg = prefix;
            // a leftover arrives with the response (0) or one quiescent point later (1)
            let late_leftover = fault.is_none() && k > r.framed_len && chooser.borrow_mut().choose("leftover_delay", 2) == 1;
            if late_leftover {
                seg.extend_from_slice(&r.bytes[..r.framed_len]);
                c.queue.push_back(Act::Bytes(r.bytes[r.framed_len..k].to_vec()));
            } else {
                seg.extend_from_slice(&r.bytes[..k]);
            }
            if !seg.is_empty() {
                st.arrive(&seg);
            }
            if let Some(f) = fault {
                // with the last bytes (0) or one quiescent point later (1)
                let delay = chooser.borrow_mut().choose("fin_delay", 2);
                if delay == 0 {
                    match f {
                        Act::Fin => st.peer_fin(),
                        Act::Reset => st.peer_reset(),
                        Act::Bytes(_) => {}
                    }
                    c.server_closed = true;
                } else {
                    c.queue.push_back(f);
                }
            }
        }
        let all_done = handles.iter().all(|h| h.is_finished());
        // progress signature
        let mut sig = (0u64, 0u64, 0usize, cs.len());
        for c in cs.iter() {
            let st = c.st.borrow();
            sig.0 += st.read_calls as u64 + st.write_calls as u64 + st.flush_calls as u64 + st.shutdown_calls as u64;
            sig.1 += st.out.len() as u64 + st.rpos as u64;
        }
        sig.2 = handles.iter().filter(|h| h.is_finished()).count()
            + outs.borrow().iter().map(out_rank).sum::<usize>();
        drop(cs);
        if all_done {
            step_cap = false;
            break;
        }
        if !acted && sig == last_sig {
            idle_rounds += 1;
            if idle_rounds >= 2 {
                stalled = true;
                step_cap = false;
                break;
            }
        } else {
            idle_rounds = 0;
        }
        last_sig = sig;
    }

    // let close tasks run; the limit clause is still watched
    for _ in 0..3 {
        settle().await;
        let cs = conns.borrow();
        let (a, b) = count_open(&cs);
        max_open = max_open.max(a);
        max_open_strict = max_open_strict.max(b);
        fire(&cs);
    }
    let mut panic_payload = None;
    for h in handles {
        if h.is_finished() {
            if let Err(e) = h.await {
                if e.is_panic() {
                    panic_payload = Some(e.into_panic());
                }
            }
        } else {
            h.abort();
        }
    }
    if let Some(p) = panic_payload {
        std::panic::resume_unwind(p);
    }
    drop(client);
    for _ in 0..3 {
        settle().await;
        fire(&conns.borrow());
    }
    let cs = conns.borrow();
    let leaked = cs.iter().filter(|c| { let st = c.st.borrow(); !st.dropped && !st.shutdown_done }).count();
    let mut conn_reqs = Vec::new();
    let mut conn_starts = Vec::new();
    for c in cs.iter() {
        let st = c.st.borrow();
        let v: Vec<usize> = parse_out(&st.out, &sc).0.iter().map(|r| r.j.unwrap_or(usize::MAX)).collect();
        conn_reqs.push(v);
        conn_starts.push(c.meta.starts.borrow().clone());
    }
    let conns_created = cs.len();
    drop(cs);
    let outs_v = outs.borrow().clone();
    Obs {
        outs: outs_v,
        served,
        conn_reqs,
        conn_starts,
        conns_created,
        max_open,
        max_open_strict,
        leaked,
        steps,
        stalled,
        step_cap,
        unparsable_request: unparsable,
        background_panic: mc_core::explore::take_last_panic(),
    }
}

fn out_rank(o: &ReqOut) -> usize {
    match o {
        ReqOut::NotStarted => 0,
        ReqOut::Sending => 1,
        ReqOut::SendErr(_) => 5,
        ReqOut::Head { body, .. } => match body {
            BodyOut::Pending(g) => 2 + g.len(),
            _ => 5,
        },
    }
}

