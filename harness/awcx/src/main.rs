//! awcx — decides C17 (HTTP client: body complete or error, never cut; pool discipline) by
//! fault enumeration + deviation-bounded exploration of the real `awc::Client` against a scripted
//! in-memory server (DESIGN.md §4 C17).

mod exec;
mod framing;
mod oracle;
mod scen;

use exec::Scen;
use mc_core::explore::{explore, Cfg, Outcome, Scenario};
use mc_core::report::{read_replay, Evidence, Reporter};
use mc_core::Chooser;
use serde_json::{json, Value};
use std::sync::atomic::{AtomicU64, Ordering};
use std::time::{Duration, Instant};

/// informational tallies over all executions (re-executions for the determinism check included)
pub static COMPLETE_SUCCESSES: AtomicU64 = AtomicU64::new(0);
pub static REPORTED_ERRORS: AtomicU64 = AtomicU64::new(0);
pub static REUSES: AtomicU64 = AtomicU64::new(0);
pub static FRESH_FOR_LATER_REQUEST: AtomicU64 = AtomicU64::new(0);
pub static CLOSING_BEYOND_LIMIT: AtomicU64 = AtomicU64::new(0);
pub static WAITING_FOR_SERVER: AtomicU64 = AtomicU64::new(0);
pub static REUSE_AFTER_UNSENT_BODY: AtomicU64 = AtomicU64::new(0);

impl Scenario for Scen {
    fn name(&self) -> String {
        scen::name(self)
    }
    fn describe(&self) -> Value {
        serde_json::to_value(self).unwrap()
    }
    fn run(&self, ch: &mut Chooser) -> Outcome {
        let obs = exec::run(self, ch);
        if obs.step_cap {
            mc_core::machinery(format!("step cap reached in scenario {}", scen::name(self)));
        }
        let violations = oracle::check(self, &obs);
        oracle::tally(self, &obs);
        let canon = oracle::canonical(self, &obs);
        let devs = ch.deviations();
        let nontrivial = oracle::nontrivial(self, devs);
        let sample = if nontrivial && devs <= 2 && mc_core::fnv_str(&canon) % 23 == 0 {
            Some(json!({
                "scenario": scen::name(self),
                "picks": ch.picks(),
                "observation": oracle::summary(self, &obs),
            }))
        } else {
            None
        };
        Outcome { violations, class: mc_core::fnv_str(&canon), nontrivial, sample }
    }
}

fn main() {
    let args = mc_core::cli::parse();
    if args.property != "C17" {
        eprintln!("MACHINERY: awcx serves C17 only");
        std::process::exit(2);
    }
    if let Some(path) = &args.replay {
        let v = read_replay(path);
        let rep = &v["replay"];
        let sc: Scen = match serde_json::from_value(rep["describe"].clone()) {
            Ok(s) => s,
            Err(e) => {
                eprintln!("MACHINERY: replay file does not describe a scenario: {e}");
                std::process::exit(2);
            }
        };
        println!("replaying scenario {}", scen::name(&sc));
        println!("picks: {}", rep["picks"]);
        let scs = vec![sc];
        let (out, trace) = mc_core::explore::replay(&scs, rep);
        for (i, p) in trace.iter().enumerate() {
            if p.pick != 0 {
                println!("  deviation at choice {i}: {} pick {} of {}", p.kind, p.pick, p.n);
            }
        }
        // print what happened
        let mut ch = Chooser::new(trace.iter().map(|p| p.pick).collect());
        let obs = exec::run(&scs[0], &mut ch);
        println!("{}", serde_json::to_string_pretty(&oracle::summary(&scs[0], &obs)).unwrap());
        if out.violations.is_empty() {
            println!("no violation on replay");
            std::process::exit(0);
        }
        for v in &out.violations {
            println!("VIOLATION clause={} signature={}\n  {}", v.clause, v.signature, v.what);
        }
        std::process::exit(1);
    }

    let start = Instant::now();
    let thorough = args.tier == "thorough";
    let (scs, bounds, groups) = scen::enumerate(thorough);
    let mut reporter = Reporter::new("C17");
    let cfg = Cfg {
        wall: Duration::from_secs(args.wall_s.unwrap_or(if thorough { 1500 } else { 55 })),
        threads: mc_core::cli::threads(),
        max_unknown: 12,
    };
    let stats = explore("C17", &scs, &bounds, &cfg, &mut reporter);

    let mut ev = Evidence::new("C17", &args.tier, "fault_enumeration");
    stats.fill(
        &mut ev,
        "scenarios = (request sequence | 3 concurrent requests, per request: request kind {GET, POST sized/chunked, Expect: 100-continue}, server interim behaviour, response framing, consumer \
         behaviour, server close kind FIN/reset at byte offset k of the response for EVERY k in 0..=len, \
         leftover bytes after the framed end, connector limit); inside a scenario every socket answer \
         (read: all/Pending/1 byte/next cut or every offset/half; write: all/Pending/1/half; flush, shutdown: \
         Ready/Pending), whether the close arrives with the last bytes or one quiescent point later and whether \
         the next request follows at once or after a settle are choice points explored up to the deviation \
         bound. distinct = canonical observation (per request: request kind, interim behaviour, framing, consumer, close kind+region {before \
         head, in head, at head end, in body, at framed end}, leftover, outcome class, connection index and \
         position on it; connections created; max open; stall). non-trivial = the execution has a close/reset \
         fault, a leftover, an interim response, more than one request, or at least one non-default socket answer.",
    );
    ev.set("scenario_groups", groups);
    ev.set(
        "tallies_over_all_executions_incl_determinism_reruns",
        json!({
            "requests_delivered_complete_and_correct": COMPLETE_SUCCESSES.load(Ordering::Relaxed),
            "requests_that_reported_an_error": REPORTED_ERRORS.load(Ordering::Relaxed),
            "requests_written_on_a_reused_connection": REUSES.load(Ordering::Relaxed),
            "later_requests_that_got_a_fresh_connection": FRESH_FOR_LATER_REQUEST.load(Ordering::Relaxed),
            "executions_where_open_plus_closing_connections_exceeded_the_limit_(informational)": CLOSING_BEYOND_LIMIT.load(Ordering::Relaxed),
            "executions_ending_with_a_consumer_legitimately_waiting_for_the_server": WAITING_FOR_SERVER.load(Ordering::Relaxed),
            "requests_written_on_a_connection_whose_previous_Expect_request_body_was_never_sent_(informational)": REUSE_AFTER_UNSENT_BODY.load(Ordering::Relaxed),
        }),
    );
    ev.set("violating_executions", stats.violating_executions);
    ev.set("findings", Value::Array(reporter.summaries()));
    ev.set("known_findings_matched", reporter.known_count() as u64);
    ev.assume("requests: GET/HEAD without body, POST with a 17-byte Content-Length body (send_body) or a 2-chunk chunked body (send_stream), each with and without `Expect: 100-continue` (server: 100 then final | final at once | 100 then close); unsolicited 103 / 100 interim responses before the final one; one authority, plain HTTP/1.1 (no TLS, no HTTP/2, no proxy)");
    ev.assume("after a final-at-once answer to an Expect request awc never sends the announced body and pools the connection; the scripted server then accepts the next request at that point (tally 'previous_Expect_request_body_was_never_sent'); the property text only constrains the response side, so this is recorded, not judged");
    ev.assume("limit clause: open = created by the connector, not dropped, poll_shutdown not yet called; the plain-TCP pool runs without disconnect timeout and drops closed connections at once, so counting a connection until its shutdown completed gives the same numbers (see tally 'open_plus_closing', 0 when they never differ); the graceful-close task of the TLS pool is not exercised");
    ev.assume("leftover bytes arrive together with the framed response; bytes arriving after the next request was written are indistinguishable from its response and are not enumerated");
    ev.assume("response sizes: 0, 5, 13 and 70000 body bytes; chunk lists [3,2], [3;ext,10 LWS,0;ext], [3,2]+trailer, [0x3000,1,0x8000,rest]");
    ev.assume("pool idle/lifetime limits (std::time::Instant) and all timeouts are set to 1 h so they never fire; virtual time per execution <= 0.5 s");
    ev.wall_s = start.elapsed().as_secs_f64();
    let code = reporter.finish();
    ev.violations = reporter.unknown_count() as i64;
    ev.write();
    println!(
        "C17 {}: {} scenarios, {} executions checked ({} incl. parents), bound completed {}, {} classes ({} non-trivial), capped={}, {:.1}s",
        args.tier,
        scs.len(),
        stats.checked,
        stats.executions,
        stats.bound_completed,
        stats.classes.len(),
        stats.nontrivial_classes.len(),
        stats.capped,
        start.elapsed().as_secs_f64()
    );
    std::process::exit(code);
}
