fn main() {
    eprintln!("MACHINERY: engine awcx is not built yet");
    std::process::exit(2);
}
