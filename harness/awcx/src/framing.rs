//! Response scripts of the scripted server: every framing of the C17 enumeration with its ground
//! truth (decoded body, where the head ends, where the framed message ends, whether the exchange
//! leaves a persistent connection) and its structural cut points.

use serde::{Deserialize, Serialize};

#[derive(Clone, Copy, Debug, Serialize, Deserialize, PartialEq, Eq, Hash, PartialOrd, Ord)]
pub enum Framing {
    /// HTTP/1.1 200, content-length: 0
    Cl0,
    /// HTTP/1.1 200, content-length: 0, connection: close
    Cl0Close,
    /// 204 No Content, connection: close
    S204Close,
    /// HTTP/1.1 200, content-length: 5
    Cl5,
    /// HTTP/1.1 200, content-length: 5, connection: close
    Cl5Close,
    /// HTTP/1.1 200, content-length: 5; the *request* carried `connection: close`
    Cl5ReqClose,
    /// HTTP/1.1 200, content-length: 70000
    Cl70k,
    /// chunked, chunks 3 + 2, no extensions
    Chunked,
    /// chunked, chunks 3 (extension) + 10 (upper-case hex, LWS) , last chunk with extension
    ChunkedExt,
    /// chunked 3 + 2 followed by a trailer section (RFC 7230 §4.1.2)
    ChunkedTrailer,
    /// chunked 3 + 2, connection: close
    ChunkedClose,
    /// chunked, 70000 bytes in chunks of 0x3000 / 0x1 / rest
    Chunked70k,
    /// response to HEAD: content-length: 5 and no body
    Head,
    /// 204 No Content
    S204,
    /// 304 Not Modified
    S304,
    /// HTTP/1.0 200 without content-length: body delimited by the close
    H10Eof,
    /// HTTP/1.0 200 with content-length: 5 and no connection header (not persistent)
    H10Cl,
    /// HTTP/1.0 200 with content-length: 5 and connection: keep-alive (persistent)
    H10Ka,
    /// HTTP/1.1 426 Upgrade Required, upgrade: websocket, content-length: 5 (a body as framed)
    S426Upgrade,
    /// HTTP/1.1 200 OK carrying an `upgrade: websocket` header, content-length: 5
    S200Upgrade,
}

#[derive(Clone, Copy, Debug, Serialize, Deserialize, PartialEq, Eq, Hash)]
pub enum Kind {
    /// no body by definition (content-length 0, HEAD, 204, 304)
    NoBody,
    Length,
    Chunked,
    /// delimited by the close of the connection
    Eof,
}

impl Kind {
    pub fn label(self) -> &'static str {
        match self {
            Kind::NoBody => "no-body",
            Kind::Length => "content-length",
            Kind::Chunked => "chunked",
            Kind::Eof => "close-delimited",
        }
    }
}

#[derive(Clone, Copy, Debug, Serialize, Deserialize, PartialEq, Eq, Hash)]
pub enum Leftover {
    None,
    /// bytes that are not HTTP
    Junk,
    /// a complete, well-formed response carrying a foreign tag
    Stale,
    /// an empty line (which a response parser skips) and then a foreign response
    CrlfStale,
}

pub struct Resp {
    /// framed message followed by the leftover bytes (if any)
    pub bytes: Vec<u8>,
    pub head_len: usize,
    /// end of the framed message (for Kind::Eof: head + the whole scripted body)
    pub framed_len: usize,
    /// decoded body the client has to deliver
    pub body: Vec<u8>,
    pub kind: Kind,
    pub status: u16,
    /// None = persistent; Some(why) = the exchange does not leave a persistent connection
    pub not_persistent: Option<&'static str>,
    /// structural cut points, relative to the start of `bytes`
    pub cuts: Vec<usize>,
}

impl Framing {
    pub fn label(self) -> &'static str {
        match self {
            Framing::Cl0 => "cl0",
            Framing::Cl0Close => "cl0close",
            Framing::S204Close => "s204close",
            Framing::Cl5 => "cl5",
            Framing::Cl5Close => "cl5close",
            Framing::Cl5ReqClose => "cl5reqclose",
            Framing::Cl70k => "cl70k",
            Framing::Chunked => "chunked",
            Framing::ChunkedExt => "chunkedext",
            Framing::ChunkedTrailer => "chunkedtrailer",
            Framing::ChunkedClose => "chunkedclose",
            Framing::Chunked70k => "chunked70k",
            Framing::Head => "head",
            Framing::S204 => "s204",
            Framing::S304 => "s304",
            Framing::H10Eof => "h10eof",
            Framing::H10Cl => "h10cl",
            Framing::H10Ka => "h10ka",
            Framing::S426Upgrade => "s426upgrade",
            Framing::S200Upgrade => "s200upgrade",
        }
    }

    pub fn has_upgrade_header(self) -> bool {
        matches!(self, Framing::S426Upgrade | Framing::S200Upgrade)
    }

    pub fn method_head(self) -> bool {
        matches!(self, Framing::Head)
    }

    pub fn request_close(self) -> bool {
        matches!(self, Framing::Cl5ReqClose)
    }
}

/// Body bytes carrying the request number: a stale or foreign body is visible as a mismatch.
pub fn tag_body(j: usize, n: usize) -> Vec<u8> {
    (0..n)
        .map(|i| if i == 0 { b'0' + (j % 10) as u8 } else { b'a' + ((i + j * 7) % 26) as u8 })
        .collect()
}

pub const STALE_TAG_BASE: usize = 90;

fn chunk(out: &mut Vec<u8>, cuts: &mut Vec<usize>, size_line: &str, data: &[u8]) {
    // cut points: inside the size line, between its CR and LF, after it, mid data, after the
    // data (before its CRLF), between that CR and LF, after the chunk
    let base = out.len();
    out.extend_from_slice(size_line.as_bytes());
    out.extend_from_slice(b"\r\n");
    cuts.push(base + 1);
    cuts.push(base + size_line.len());
    cuts.push(base + size_line.len() + 1);
    cuts.push(out.len());
    if !data.is_empty() {
        cuts.push(out.len() + data.len().div_ceil(2));
        out.extend_from_slice(data);
        cuts.push(out.len());
        out.extend_from_slice(b"\r\n");
        cuts.push(out.len() - 1);
        cuts.push(out.len());
    }
}

/// interim (1xx) response of the scripted server; unsolicited ones carry the request tag
pub fn interim_bytes(i: crate::exec::Interim, j: usize) -> Vec<u8> {
    use crate::exec::Interim;
    match i {
        Interim::None => Vec::new(),
        Interim::Continue100 | Interim::ContinueThenClose => format!("HTTP/1.1 100 Continue\r\nx-req: {j}\r\n\r\n").into_bytes(),
        Interim::Early103 => format!("HTTP/1.1 103 Early Hints\r\nlink: </s.css>; rel=preload\r\nx-req: {j}\r\n\r\n").into_bytes(),
    }
}

pub fn build(f: Framing, j: usize, leftover: Leftover) -> Resp {
    let tag = format!("x-req: {j}\r\n");
    let head: String;
    let mut body: Vec<u8> = Vec::new();
    let mut wire_body: Vec<u8> = Vec::new();
    let mut cuts: Vec<usize> = Vec::new();
    let mut not_persistent = None;
    let mut status = 200u16;
    let kind;
    match f {
        Framing::Cl0 => {
            head = format!("HTTP/1.1 200 OK\r\ncontent-length: 0\r\n{tag}\r\n");
            kind = Kind::NoBody;
        }
        Framing::Cl0Close => {
            head = format!("HTTP/1.1 200 OK\r\nconnection: close\r\ncontent-length: 0\r\n{tag}\r\n");
            kind = Kind::NoBody;
            not_persistent = Some("response-close");
        }
        Framing::S204Close => {
            status = 204;
            head = format!("HTTP/1.1 204 No Content\r\nconnection: close\r\n{tag}\r\n");
            kind = Kind::NoBody;
            not_persistent = Some("response-close");
        }
        Framing::Cl5 | Framing::Cl5ReqClose => {
            head = format!("HTTP/1.1 200 OK\r\ncontent-length: 5\r\n{tag}\r\n");
            body = tag_body(j, 5);
            wire_body = body.clone();
            kind = Kind::Length;
            if f == Framing::Cl5ReqClose {
                not_persistent = Some("request-close");
            }
        }
        Framing::Cl5Close => {
            head = format!("HTTP/1.1 200 OK\r\nconnection: close\r\ncontent-length: 5\r\n{tag}\r\n");
            body = tag_body(j, 5);
            wire_body = body.clone();
            kind = Kind::Length;
            not_persistent = Some("response-close");
        }
        Framing::Cl70k => {
            head = format!("HTTP/1.1 200 OK\r\ncontent-length: 70000\r\n{tag}\r\n");
            body = tag_body(j, 70_000);
            wire_body = body.clone();
            kind = Kind::Length;
        }
        Framing::Chunked | Framing::ChunkedClose | Framing::ChunkedTrailer => {
            let close = if f == Framing::ChunkedClose { "connection: close\r\n" } else { "" };
            head = format!("HTTP/1.1 200 OK\r\n{close}transfer-encoding: chunked\r\n{tag}\r\n");
            body = tag_body(j, 5);
            chunk(&mut wire_body, &mut cuts, "3", &body[..3]);
            chunk(&mut wire_body, &mut cuts, "2", &body[3..]);
            if f == Framing::ChunkedTrailer {
                wire_body.extend_from_slice(b"0\r\n");
                cuts.push(wire_body.len());
                wire_body.extend_from_slice(b"x-trailer: v\r\n");
                cuts.push(wire_body.len());
                wire_body.extend_from_slice(b"\r\n");
            } else {
                chunk(&mut wire_body, &mut cuts, "0", b"");
                wire_body.extend_from_slice(b"\r\n");
                cuts.push(wire_body.len() - 1);
            }
            kind = Kind::Chunked;
            if f == Framing::ChunkedClose {
                not_persistent = Some("response-close");
            }
        }
        Framing::ChunkedExt => {
            head = format!("HTTP/1.1 200 OK\r\ntransfer-encoding: chunked\r\n{tag}\r\n");
            body = tag_body(j, 13);
            chunk(&mut wire_body, &mut cuts, "3;ext=1", &body[..3]);
            chunk(&mut wire_body, &mut cuts, "A  ", &body[3..]);
            chunk(&mut wire_body, &mut cuts, "0;last", b"");
            wire_body.extend_from_slice(b"\r\n");
            cuts.push(wire_body.len() - 1);
            kind = Kind::Chunked;
        }
        Framing::Chunked70k => {
            head = format!("HTTP/1.1 200 OK\r\ntransfer-encoding: chunked\r\n{tag}\r\n");
            body = tag_body(j, 70_000);
            let sizes = [0x3000usize, 1, 0x8000, 70_000 - 0x3000 - 1 - 0x8000];
            let mut at = 0;
            for s in sizes {
                chunk(&mut wire_body, &mut cuts, &format!("{s:x}"), &body[at..at + s]);
                at += s;
            }
            chunk(&mut wire_body, &mut cuts, "0", b"");
            wire_body.extend_from_slice(b"\r\n");
            cuts.push(wire_body.len() - 1);
            kind = Kind::Chunked;
        }
        Framing::Head => {
            head = format!("HTTP/1.1 200 OK\r\ncontent-length: 5\r\n{tag}\r\n");
            kind = Kind::NoBody;
        }
        Framing::S204 => {
            status = 204;
            head = format!("HTTP/1.1 204 No Content\r\n{tag}\r\n");
            kind = Kind::NoBody;
        }
        Framing::S304 => {
            status = 304;
            head = format!("HTTP/1.1 304 Not Modified\r\netag: \"x\"\r\n{tag}\r\n");
            kind = Kind::NoBody;
        }
        Framing::H10Eof => {
            head = format!("HTTP/1.0 200 OK\r\n{tag}\r\n");
            body = tag_body(j, 5);
            wire_body = body.clone();
            kind = Kind::Eof;
            not_persistent = Some("close-delimited");
        }
        Framing::H10Cl => {
            head = format!("HTTP/1.0 200 OK\r\ncontent-length: 5\r\n{tag}\r\n");
            body = tag_body(j, 5);
            wire_body = body.clone();
            kind = Kind::Length;
            not_persistent = Some("http10-no-keepalive");
        }
        Framing::S426Upgrade => {
            status = 426;
            head = format!("HTTP/1.1 426 Upgrade Required\r\nupgrade: websocket\r\ncontent-length: 5\r\n{tag}\r\n");
            body = tag_body(j, 5);
            wire_body = body.clone();
            kind = Kind::Length;
        }
        Framing::S200Upgrade => {
            head = format!("HTTP/1.1 200 OK\r\nupgrade: websocket\r\ncontent-length: 5\r\n{tag}\r\n");
            body = tag_body(j, 5);
            wire_body = body.clone();
            kind = Kind::Length;
        }
        Framing::H10Ka => {
            head = format!("HTTP/1.0 200 OK\r\nconnection: keep-alive\r\ncontent-length: 5\r\n{tag}\r\n");
            body = tag_body(j, 5);
            wire_body = body.clone();
            kind = Kind::Length;
        }
    }
    let head_len = head.len();
    let mut bytes = head.into_bytes();
    // structural cuts of the head: inside the status line, between its CR and LF, before the
    // final CRLF, between the final CR and LF, head end
    let first_cr = bytes.iter().position(|&b| b == b'\r').unwrap();
    let mut all_cuts = vec![5, first_cr, first_cr + 1, first_cr + 2, head_len - 4, head_len - 2, head_len - 1, head_len];
    if matches!(kind, Kind::Length | Kind::Eof) && !wire_body.is_empty() {
        all_cuts.push(head_len + 1);
        all_cuts.push(head_len + wire_body.len() / 2);
        all_cuts.push(head_len + wire_body.len() - 1);
    }
    all_cuts.extend(cuts.iter().map(|c| head_len + c));
    bytes.extend_from_slice(&wire_body);
    let framed_len = bytes.len();
    all_cuts.push(framed_len);
    match leftover {
        Leftover::None => {}
        Leftover::Junk => {
            bytes.extend_from_slice(b"XYZZY junk\r\n\r\n");
            all_cuts.push(framed_len + 1);
        }
        Leftover::Stale | Leftover::CrlfStale => {
            let t = STALE_TAG_BASE + j;
            if leftover == Leftover::CrlfStale {
                bytes.extend_from_slice(b"\r\n");
            }
            bytes.extend_from_slice(
                format!("HTTP/1.1 200 OK\r\ncontent-length: 5\r\nx-req: {t}\r\n\r\nSTALE").as_bytes(),
            );
            all_cuts.push(framed_len + 1);
            all_cuts.push(framed_len + 2);
        }
    }
    all_cuts.sort();
    all_cuts.dedup();
    all_cuts.retain(|&c| c >= 1 && c < bytes.len());
    Resp { bytes, head_len, framed_len, body, kind, status, not_persistent, cuts: all_cuts }
}
