//! Scenario description for the HTTP/1 connection harness: server configuration, the request
//! byte stream with its ground truth and structural cut points, handler programs and the peer
//! plan. A scenario is fixed per job; everything the chooser decides happens inside the driver.

use serde::Serialize;

#[derive(Clone, Debug, Serialize, PartialEq, Eq)]
pub enum Ka {
    Disabled,
    Os,
    Timeout(u64),
}

#[derive(Clone, Debug, Serialize)]
pub struct Config {
    pub keep_alive: Ka,
    /// 0 = disabled
    pub request_timeout_ms: u64,
    /// 0 = disabled
    pub disconnect_timeout_ms: u64,
    pub half_closed: bool,
    pub write_buf: usize,
    /// a graceful-shutdown signal is configured (fired by the environment)
    pub signal: bool,
    /// an upgrade service is configured (added to the builder AFTER the other settings); it
    /// answers `101` with the tag of the request and ends
    pub upgrade: bool,
}

impl Default for Config {
    fn default() -> Self {
        Config {
            keep_alive: Ka::Os,
            request_timeout_ms: 0,
            disconnect_timeout_ms: 0,
            half_closed: true,
            write_buf: 32_768,
            signal: false,
            upgrade: false,
        }
    }
}

#[derive(Clone, Debug, Serialize, PartialEq, Eq)]
pub struct ChunkSpec {
    pub data: Vec<u8>,
    /// chunk extension text, e.g. ";x=y" (empty = none)
    pub ext: String,
    pub upper_hex: bool,
    /// linear whitespace after the size
    pub lws: bool,
}

impl ChunkSpec {
    pub fn plain(data: &[u8]) -> Self {
        ChunkSpec { data: data.to_vec(), ext: String::new(), upper_hex: false, lws: false }
    }
}

#[derive(Clone, Debug, Serialize, PartialEq, Eq)]
pub enum Framing {
    None,
    Cl(Vec<u8>),
    Chunked(Vec<ChunkSpec>),
}

/// Malformed-framing classes of the C01 statement.
#[derive(Clone, Copy, Debug, Serialize, PartialEq, Eq)]
pub enum Malformed {
    ClAndTe,
    TwoClEqual,
    TwoClDifferent,
    ClPlus,
    ClList,
    ClAlpha,
    ClEmpty,
    ClNegative,
    ClHex,
    ClJunkSuffix,
    ClInnerSpace,
    ClOverflow,
    TeGzip,
    TeGzipChunked,
    TeIdentity,
    TwoTe,
    TeOnHttp10,
    Http10PostNoCl,
    /// chunk-size line with a non-hex character
    ChunkBadSizeChar,
    /// chunk size overflowing u64
    ChunkSizeOverflow,
    /// hex digits after LWS in the size line
    ChunkDigitsAfterLws,
    /// chunk data not followed by CRLF
    ChunkMissingCrlf,
    /// bad terminator after the last (0) chunk
    ChunkBadTerminator,
    /// a control byte (bare LF) inside a chunk extension
    ChunkExtControlByte,
    /// chunk size 2^64 written with 17 hex digits (`10000000000000000`)
    ChunkSizeTwoPow64,
}

impl Malformed {
    pub const HEAD_CLASSES: &'static [Malformed] = &[
        Malformed::ClAndTe,
        Malformed::TwoClEqual,
        Malformed::TwoClDifferent,
        Malformed::ClPlus,
        Malformed::ClList,
        Malformed::ClAlpha,
        Malformed::ClEmpty,
        Malformed::ClNegative,
        Malformed::ClHex,
        Malformed::ClJunkSuffix,
        Malformed::ClInnerSpace,
        Malformed::ClOverflow,
        Malformed::TeGzip,
        Malformed::TeGzipChunked,
        Malformed::TeIdentity,
        Malformed::TwoTe,
        Malformed::TeOnHttp10,
        Malformed::Http10PostNoCl,
    ];
    pub const CHUNK_CLASSES: &'static [Malformed] = &[
        Malformed::ChunkBadSizeChar,
        Malformed::ChunkSizeOverflow,
        Malformed::ChunkDigitsAfterLws,
        Malformed::ChunkMissingCrlf,
        Malformed::ChunkBadTerminator,
        Malformed::ChunkExtControlByte,
        Malformed::ChunkSizeTwoPow64,
    ];
    pub fn in_head(self) -> bool {
        Self::HEAD_CLASSES.contains(&self)
    }
}

#[derive(Clone, Debug, Serialize)]
pub struct RequestSpec {
    pub method: String,
    /// 0 = HTTP/1.0, 1 = HTTP/1.1
    pub version: u8,
    /// Connection header value
    pub connection: Option<String>,
    pub expect_continue: bool,
    pub framing: Framing,
    pub extra_headers: Vec<(String, String)>,
    pub malformed: Option<Malformed>,
    /// index of the handler program (also the request path `/k`)
    pub handler: usize,
}

impl RequestSpec {
    pub fn new(method: &str, handler: usize) -> Self {
        RequestSpec {
            method: method.into(),
            version: 1,
            connection: None,
            expect_continue: false,
            framing: Framing::None,
            extra_headers: vec![],
            malformed: None,
            handler,
        }
    }
    pub fn v10(mut self) -> Self {
        self.version = 0;
        self
    }
    pub fn conn(mut self, c: &str) -> Self {
        self.connection = Some(c.into());
        self
    }
    pub fn expect(mut self) -> Self {
        self.expect_continue = true;
        self
    }
    pub fn cl(mut self, body: &[u8]) -> Self {
        self.framing = Framing::Cl(body.to_vec());
        self
    }
    pub fn chunked(mut self, chunks: Vec<ChunkSpec>) -> Self {
        self.framing = Framing::Chunked(chunks);
        self
    }
    pub fn malformed(mut self, m: Malformed) -> Self {
        self.malformed = Some(m);
        self
    }
    pub fn header(mut self, k: &str, v: &str) -> Self {
        self.extra_headers.push((k.into(), v.into()));
        self
    }
}

/// What RFC 7230 says this request is.
#[derive(Clone, Debug, Serialize)]
pub struct ReqTruth {
    pub method: String,
    pub target: String,
    pub version: u8,
    /// lower-cased name, value — in wire order
    pub headers: Vec<(String, String)>,
    pub body: Vec<u8>,
    /// the head must be rejected (no request may be dispatched for it)
    pub head_rejected: bool,
    /// the head is valid but the body framing is malformed (request may be dispatched, body must
    /// end in an error, the connection must be closed)
    pub body_malformed: bool,
    pub has_body: bool,
    pub chunked: bool,
    pub expect: bool,
}

pub struct Wire {
    pub bytes: Vec<u8>,
    /// offsets (relative to the start of this request) that are structural cut points
    pub cuts: Vec<usize>,
    /// offset at which the head ends (first byte after CRLFCRLF)
    pub head_end: usize,
    pub truth: ReqTruth,
}

fn hex(n: usize, upper: bool) -> String {
    if upper {
        format!("{:X}", n)
    } else {
        format!("{:x}", n)
    }
}

impl RequestSpec {
    pub fn wire(&self) -> Wire {
        let mut cuts: Vec<usize> = vec![];
        let mut b: Vec<u8> = vec![];
        let target = format!("/{}", self.handler);
        let mut version = self.version;
        if self.malformed == Some(Malformed::TeOnHttp10) || self.malformed == Some(Malformed::Http10PostNoCl) {
            version = 0;
        }
        b.extend_from_slice(self.method.as_bytes());
        b.push(b' ');
        cuts.push(b.len() - 2); // inside the method
        b.extend_from_slice(target.as_bytes());
        b.extend_from_slice(if version == 1 { b" HTTP/1.1" } else { b" HTTP/1.0" });
        cuts.push(b.len() - 3); // inside the version
        b.push(b'\r');
        cuts.push(b.len()); // between CR and LF
        b.push(b'\n');
        cuts.push(b.len());
        let mut headers: Vec<(String, String)> = vec![("host".into(), "t".into())];
        if let Some(c) = &self.connection {
            headers.push(("connection".into(), c.clone()));
        }
        if self.expect_continue {
            headers.push(("expect".into(), "100-continue".into()));
        }
        for (k, v) in &self.extra_headers {
            headers.push((k.to_ascii_lowercase(), v.clone()));
        }
        let mut framing = self.framing.clone();
        let mut head_rejected = false;
        let mut body_malformed = false;
        match self.malformed {
            Some(Malformed::ClAndTe) => {
                headers.push(("content-length".into(), "3".into()));
                headers.push(("transfer-encoding".into(), "chunked".into()));
                framing = Framing::None;
                head_rejected = true;
            }
            Some(Malformed::TwoClEqual) => {
                headers.push(("content-length".into(), "3".into()));
                headers.push(("content-length".into(), "3".into()));
                framing = Framing::None;
                head_rejected = true;
            }
            Some(Malformed::TwoClDifferent) => {
                headers.push(("content-length".into(), "3".into()));
                headers.push(("content-length".into(), "4".into()));
                framing = Framing::None;
                head_rejected = true;
            }
            Some(Malformed::ClPlus) => {
                headers.push(("content-length".into(), "+3".into()));
                framing = Framing::None;
                head_rejected = true;
            }
            Some(Malformed::ClList) => {
                headers.push(("content-length".into(), "3,3".into()));
                framing = Framing::None;
                head_rejected = true;
            }
            Some(Malformed::ClAlpha) => {
                headers.push(("content-length".into(), "abc".into()));
                framing = Framing::None;
                head_rejected = true;
            }
            Some(m @ (Malformed::ClEmpty | Malformed::ClNegative | Malformed::ClHex | Malformed::ClJunkSuffix | Malformed::ClInnerSpace | Malformed::ClOverflow)) => {
                let v = match m {
                    Malformed::ClEmpty => "",
                    Malformed::ClNegative => "-3",
                    Malformed::ClHex => "0x3",
                    Malformed::ClJunkSuffix => "3x",
                    Malformed::ClInnerSpace => "1 0",
                    _ => "18446744073709551616",
                };
                headers.push(("content-length".into(), v.into()));
                framing = Framing::None;
                head_rejected = true;
            }
            Some(Malformed::TeGzip) => {
                headers.push(("transfer-encoding".into(), "gzip".into()));
                framing = Framing::None;
                head_rejected = true;
            }
            Some(Malformed::TeGzipChunked) => {
                headers.push(("transfer-encoding".into(), "gzip, chunked".into()));
                framing = Framing::None;
                head_rejected = true;
            }
            Some(Malformed::TeIdentity) => {
                headers.push(("transfer-encoding".into(), "identity".into()));
                framing = Framing::None;
                head_rejected = true;
            }
            Some(Malformed::TwoTe) => {
                headers.push(("transfer-encoding".into(), "chunked".into()));
                headers.push(("transfer-encoding".into(), "chunked".into()));
                framing = Framing::None;
                head_rejected = true;
            }
            Some(Malformed::TeOnHttp10) => {
                headers.push(("transfer-encoding".into(), "chunked".into()));
                framing = Framing::None;
                head_rejected = true;
            }
            Some(Malformed::Http10PostNoCl) => {
                framing = Framing::None;
                head_rejected = true;
            }
            Some(_) => {
                body_malformed = true;
            }
            None => {}
        }
        let mut body_truth: Vec<u8> = vec![];
        match &framing {
            Framing::None => {}
            Framing::Cl(body) => {
                headers.push(("content-length".into(), body.len().to_string()));
                body_truth = body.clone();
            }
            Framing::Chunked(chunks) => {
                headers.push(("transfer-encoding".into(), "chunked".into()));
                for c in chunks {
                    body_truth.extend_from_slice(&c.data);
                }
            }
        }
        for (k, v) in &headers {
            b.extend_from_slice(k.as_bytes());
            b.push(b':');
            cuts.push(b.len());
            b.push(b' ');
            b.extend_from_slice(v.as_bytes());
            b.push(b'\r');
            cuts.push(b.len());
            b.push(b'\n');
        }
        b.push(b'\r');
        cuts.push(b.len()); // between the final CR and LF
        b.push(b'\n');
        let head_end = b.len();
        cuts.push(head_end);
        // body
        match &framing {
            Framing::None => {
                if head_rejected {
                    // bytes that must never be interpreted: they look like a smuggled request
                    b.extend_from_slice(b"abc");
                }
            }
            Framing::Cl(body) => {
                if !body.is_empty() {
                    cuts.push(b.len() + body.len() / 2);
                    cuts.push(b.len() + body.len() - 1);
                }
                b.extend_from_slice(body);
                cuts.push(b.len());
            }
            Framing::Chunked(chunks) => {
                let n = chunks.len();
                let mut ended_by_wrapped_size = false;
                for (i, c) in chunks.iter().enumerate() {
                    let mal_here = body_malformed && i == if n >= 2 { 1 } else { 0 };
                    if mal_here && self.malformed == Some(Malformed::ChunkSizeTwoPow64) {
                        // the size line of 2^64 followed by an empty line: a decoder whose size
                        // arithmetic wraps to zero takes this for the end of the body
                        b.extend_from_slice(b"10000000000000000");
                        cuts.push(b.len());
                        b.extend_from_slice(b"\r\n");
                        cuts.push(b.len());
                        b.extend_from_slice(b"\r\n");
                        cuts.push(b.len());
                        ended_by_wrapped_size = true;
                        break;
                    }
                    // size line
                    let mut size = hex(c.data.len(), c.upper_hex);
                    if mal_here && self.malformed == Some(Malformed::ChunkBadSizeChar) {
                        size = format!("{}g", size);
                    }
                    if mal_here && self.malformed == Some(Malformed::ChunkSizeOverflow) {
                        size = "fffffffffffffffff".into();
                    }
                    b.extend_from_slice(size.as_bytes());
                    cuts.push(b.len());
                    if c.lws || (mal_here && self.malformed == Some(Malformed::ChunkDigitsAfterLws)) {
                        b.push(b' ');
                        cuts.push(b.len());
                    }
                    if mal_here && self.malformed == Some(Malformed::ChunkDigitsAfterLws) {
                        b.push(b'1');
                    }
                    if !c.ext.is_empty() {
                        b.extend_from_slice(c.ext.as_bytes());
                        cuts.push(b.len() - 1);
                    }
                    if mal_here && self.malformed == Some(Malformed::ChunkExtControlByte) {
                        b.extend_from_slice(b";x");
                        cuts.push(b.len());
                        b.push(b'\n');
                        cuts.push(b.len());
                        b.push(b'x');
                        cuts.push(b.len());
                    }
                    b.push(b'\r');
                    cuts.push(b.len());
                    b.push(b'\n');
                    cuts.push(b.len());
                    b.extend_from_slice(&c.data);
                    cuts.push(b.len());
                    if mal_here && self.malformed == Some(Malformed::ChunkMissingCrlf) {
                        b.extend_from_slice(b"XX");
                    } else {
                        b.push(b'\r');
                        cuts.push(b.len());
                        b.push(b'\n');
                    }
                    cuts.push(b.len());
                }
                // last chunk
                if !ended_by_wrapped_size {
                    b.push(b'0');
                    cuts.push(b.len());
                    b.push(b'\r');
                    cuts.push(b.len());
                    b.push(b'\n');
                    cuts.push(b.len());
                    if body_malformed && self.malformed == Some(Malformed::ChunkBadTerminator) {
                        b.extend_from_slice(b"XY");
                    } else {
                        b.push(b'\r');
                        cuts.push(b.len());
                        b.push(b'\n');
                    }
                    cuts.push(b.len());
                }
                if body_malformed {
                    // whatever comes out before the malformed point is a prefix of the truth;
                    // the exact prefix depends on the class
                }
            }
        }
        cuts.sort_unstable();
        cuts.dedup();
        cuts.retain(|&c| c > 0 && c < b.len());
        let truth = ReqTruth {
            method: self.method.clone(),
            target,
            version,
            headers,
            body: body_truth,
            head_rejected,
            body_malformed,
            has_body: !matches!(framing, Framing::None),
            chunked: matches!(framing, Framing::Chunked(_)),
            expect: self.expect_continue,
        };
        Wire { bytes: b, cuts, head_end, truth }
    }
}

// ---------------------------------------------------------------------------------------------
// handler programs

#[derive(Clone, Debug, Serialize, PartialEq, Eq)]
pub enum Chunk {
    Data(Vec<u8>),
    Empty,
    Pending,
    Err,
}

#[derive(Clone, Debug, Serialize, PartialEq, Eq)]
pub enum SizeDecl {
    None,
    Sized(u64),
    Stream,
}

#[derive(Clone, Debug, Serialize, PartialEq, Eq)]
pub enum BodySpec {
    /// `()` body
    Empty,
    /// `Bytes`
    Bytes(Vec<u8>),
    /// `String`
    Str(String),
    /// `SizedStream::new(n, chunks)`
    SizedStream(u64, Vec<Chunk>),
    /// `BodyStream::new(chunks)`
    BodyStream(Vec<Chunk>),
    /// hand-written `MessageBody` with scripted `size()` and chunks
    Custom(SizeDecl, Vec<Chunk>),
}

impl BodySpec {
    pub fn declared(&self) -> SizeDecl {
        match self {
            BodySpec::Empty => SizeDecl::Sized(0),
            BodySpec::Bytes(b) => SizeDecl::Sized(b.len() as u64),
            BodySpec::Str(s) => SizeDecl::Sized(s.len() as u64),
            BodySpec::SizedStream(n, _) => SizeDecl::Sized(*n),
            BodySpec::BodyStream(_) => SizeDecl::Stream,
            BodySpec::Custom(d, _) => d.clone(),
        }
    }
    /// bytes the body produces until it ends or errors, and whether it errors
    pub fn produced(&self) -> (Vec<u8>, bool) {
        let chunks: Vec<Chunk> = match self {
            BodySpec::Empty => vec![],
            BodySpec::Bytes(b) => vec![Chunk::Data(b.clone())],
            BodySpec::Str(s) => vec![Chunk::Data(s.as_bytes().to_vec())],
            BodySpec::SizedStream(_, c) | BodySpec::BodyStream(c) | BodySpec::Custom(_, c) => c.clone(),
        };
        let mut out = vec![];
        for c in chunks {
            match c {
                Chunk::Data(d) => out.extend_from_slice(&d),
                Chunk::Err => return (out, true),
                _ => {}
            }
        }
        (out, false)
    }
}

#[derive(Clone, Debug, Serialize, PartialEq, Eq)]
pub enum PayloadPlan {
    /// drop the request payload before doing anything else
    DropAtStart,
    /// read to the end (or error), then respond; payload dropped when the handler returns
    ReadAllThenRespond,
    /// like ReadAllThenRespond but waits for an environment-released gate before every read
    ReadAllSlowlyThenRespond,
    /// read one item, respond, drop the payload
    ReadFirstThenRespondDrop,
    /// read one item, respond, keep the payload alive until the response body is done
    ReadFirstThenRespondHold,
    /// respond without reading, keep the payload alive until the response body is done
    HoldUnreadUntilBodyDone,
    /// respond without reading, keep the payload alive for the life of the connection
    HoldForever,
    /// respond at once; the response body reads the whole request payload before its first chunk
    RespondThenReadAllInBody,
    /// the payload is read to its end by a separate task (its own waker, a gate before every
    /// read); the handler responds when that task has finished
    ExternalReaderThenRespond,
    /// as above, but the handler responds at once
    RespondWithExternalReader,
}

#[derive(Clone, Debug, Serialize)]
pub struct HandlerProgram {
    /// number of environment-released gates before the handler does anything
    pub pend_before: u8,
    pub payload: PayloadPlan,
    pub status: u16,
    pub headers: Vec<(String, String)>,
    pub body: BodySpec,
    /// service returns `Err` (turned into an error response by the framework)
    pub fail: bool,
    /// `ResponseBuilder::force_close()`
    pub force_close: bool,
    /// `ResponseBuilder::keep_alive()`: the handler asks for a persistent connection
    pub force_keep_alive: bool,
    /// the service call resolves to `Err(e)` and this response is what `e` converts into
    pub as_service_error: bool,
    /// `ResponseBuilder::no_chunking(len)`: Content-Length set by the handler, body written raw
    pub no_chunking: Option<u64>,
    /// the handler additionally waits until this virtual time before doing anything
    pub pend_until_ms: Option<u64>,
}

impl HandlerProgram {
    pub fn ok(body: BodySpec) -> Self {
        HandlerProgram {
            pend_before: 0,
            payload: PayloadPlan::ReadAllThenRespond,
            status: 200,
            headers: vec![],
            body,
            fail: false,
            force_close: false,
            force_keep_alive: false,
            as_service_error: false,
            no_chunking: None,
            pend_until_ms: None,
        }
    }
    pub fn until(mut self, ms: u64) -> Self {
        self.pend_until_ms = Some(ms);
        self
    }
    pub fn no_chunking(mut self, len: u64) -> Self {
        self.no_chunking = Some(len);
        self
    }
    pub fn close(mut self) -> Self {
        self.force_close = true;
        self
    }
    pub fn keep_alive(mut self) -> Self {
        self.force_keep_alive = true;
        self
    }
    pub fn as_error(mut self) -> Self {
        self.as_service_error = true;
        self
    }
    pub fn failing(mut self) -> Self {
        self.fail = true;
        self
    }
    pub fn pend(mut self, n: u8) -> Self {
        self.pend_before = n;
        self
    }
    pub fn status(mut self, s: u16) -> Self {
        self.status = s;
        self
    }
    pub fn plan(mut self, p: PayloadPlan) -> Self {
        self.payload = p;
        self
    }
    pub fn header(mut self, k: &str, v: &str) -> Self {
        self.headers.push((k.into(), v.into()));
        self
    }
}

// ---------------------------------------------------------------------------------------------
// peer plan

#[derive(Clone, Debug, Serialize, PartialEq, Eq)]
pub enum When {
    /// available from the start
    Start,
    /// sent when the connection has gone quiescent (a client waiting for the response / 100)
    Quiescent,
    /// sent at this virtual time
    At(u64),
}

#[derive(Clone, Debug, Serialize, PartialEq, Eq)]
pub enum FinPlan {
    /// the peer half-closes once everything was sent and the connection went quiescent
    AfterAll,
    /// the peer half-close is an environment event enabled from the start (any point)
    Anytime,
    /// at this virtual time
    At(u64),
    Never,
}

#[derive(Clone, Debug, Serialize)]
pub struct Segment {
    pub when: When,
    /// range of request-stream bytes
    pub from: usize,
    pub to: usize,
}

#[derive(Clone, Debug, Serialize)]
pub struct EnvOpts {
    /// the order of enabled environment events is a choice (otherwise canonical order)
    pub reorder: bool,
    /// lost-wake-up probe at every quiescent point
    pub probe: bool,
    /// socket never accepts writes (C05) after this many bytes
    pub stall_writes_after: Option<usize>,
    pub shutdown_never: bool,
    /// virtual-time horizon in ms (0 = untimed scenario: no tick events)
    pub horizon_ms: u64,
    /// graceful-shutdown signal: fired at this virtual time, or offered as an event from start
    pub signal_at: Option<u64>,
    pub signal_anytime: bool,
    /// per-kind choice budgets (kind, max recorded points)
    pub budgets: Vec<(&'static str, u32)>,
    /// measure the C05 memory gauges at every step
    pub gauges: bool,
    /// keep only lengths of body events in the log (large scenarios)
    pub light_log: bool,
    /// handler gates are never released (a handler that never completes)
    pub hold_gates: bool,
    /// at quiescence, poll the connection this many extra times without any event (spurious
    /// wake-ups are legal; memory bounds must not depend on being polled only when necessary)
    pub spurious_polls: u32,
    /// virtual time that passes between the construction of the service (when its date service
    /// caches the clock) and the arrival of the connection; below the 500 ms date tick the
    /// cached clock lags the real one by this much when the connection's timers are armed
    pub accept_delay_ms: u64,
}

impl Default for EnvOpts {
    fn default() -> Self {
        EnvOpts {
            reorder: true,
            probe: false,
            stall_writes_after: None,
            shutdown_never: false,
            horizon_ms: 0,
            signal_at: None,
            signal_anytime: false,
            budgets: vec![],
            gauges: false,
            light_log: false,
            hold_gates: false,
            spurious_polls: 0,
            accept_delay_ms: 0,
        }
    }
}

#[derive(Clone, Debug, Serialize)]
pub struct Scenario {
    pub name: String,
    pub config: Config,
    pub requests: Vec<RequestSpec>,
    pub programs: Vec<HandlerProgram>,
    /// how the request stream is released to the socket; empty = everything at start
    pub segments: Vec<Segment>,
    pub fin: FinPlan,
    pub io: IoOptsSer,
    pub env: EnvOpts,
    /// raw extra bytes appended after the last request (oversized heads etc.)
    pub tail: Vec<u8>,
}

#[derive(Clone, Debug, Serialize)]
pub struct IoOptsSer {
    pub read_alts: bool,
    pub read_faults: bool,
    pub write_alts: bool,
    pub flush_alts: bool,
    pub shutdown_alts: bool,
    pub every_offset: bool,
    pub buffered: bool,
}

impl Default for IoOptsSer {
    fn default() -> Self {
        IoOptsSer {
            read_alts: true,
            read_faults: false,
            write_alts: true,
            flush_alts: true,
            shutdown_alts: true,
            every_offset: false,
            buffered: false,
        }
    }
}

impl IoOptsSer {
    pub fn to_opts(&self) -> mc_core::io::IoOpts {
        mc_core::io::IoOpts {
            read_alts: self.read_alts,
            read_faults: self.read_faults,
            write_alts: self.write_alts,
            flush_alts: self.flush_alts,
            shutdown_alts: self.shutdown_alts,
            every_offset: self.every_offset,
            buffered: self.buffered,
        }
    }
}

pub struct Stream {
    pub bytes: Vec<u8>,
    pub cuts: Vec<usize>,
    /// (start, head_end, end) per request
    pub spans: Vec<(usize, usize, usize)>,
    pub truths: Vec<ReqTruth>,
}

impl Scenario {
    pub fn new(name: &str, requests: Vec<RequestSpec>, programs: Vec<HandlerProgram>) -> Self {
        Scenario {
            name: name.into(),
            config: Config::default(),
            requests,
            programs,
            segments: vec![],
            fin: FinPlan::AfterAll,
            io: IoOptsSer::default(),
            env: EnvOpts::default(),
            tail: vec![],
        }
    }

    pub fn stream(&self) -> Stream {
        let mut bytes = vec![];
        let mut cuts = vec![];
        let mut spans = vec![];
        let mut truths = vec![];
        for r in &self.requests {
            let w = r.wire();
            let start = bytes.len();
            for c in &w.cuts {
                cuts.push(start + c);
            }
            if start > 0 {
                cuts.push(start);
            }
            bytes.extend_from_slice(&w.bytes);
            spans.push((start, start + w.head_end, bytes.len()));
            truths.push(w.truth);
        }
        if !self.tail.is_empty() {
            cuts.push(bytes.len());
            bytes.extend_from_slice(&self.tail);
        }
        cuts.sort_unstable();
        cuts.dedup();
        Stream { bytes, cuts, spans, truths }
    }
}
