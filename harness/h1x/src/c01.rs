//! C01 — HTTP/1 request framing is unambiguous and independent of TCP segmentation.
//!
//! Level 1 (codec, explicit-state): every pipelined stream of the grammar is fed to the real
//! `h1::Codec` exactly as the dispatcher drives it ("append k bytes, decode until None/Err");
//! a BFS over "feed next k bytes" with states merged by (bytes fed, codec snapshot, leftover,
//! digest of what was emitted) reaches every state any of the 2^(n-1) segmentations can reach.
//! An un-merged twin enumerates all segmentations with <= 2 cuts plus the all-1-byte one.
//! Level 2 (dispatcher, stateless exploration): the same streams through the real connection.

use crate::analysis::Analysis;
use crate::driver::Exec;
use crate::scenario::*;
use crate::viol;
use actix_http::h1::{Codec, Message};
use actix_http::HttpMessage as _;
use bytes::BytesMut;
use mc_core::bfs::{self, Model, StepErr};
use mc_core::Violation;
use actix_codec::Decoder as _;

const P: &str = "C01";

// ---------------------------------------------------------------------------------------------
// stream grammar

fn chunk_lists() -> Vec<(&'static str, Vec<ChunkSpec>)> {
    let c = |d: &[u8]| ChunkSpec::plain(d);
    vec![
        ("c[]", vec![]),
        ("c[1]", vec![c(b"x")]),
        ("c[3,2]", vec![c(b"abc"), c(b"de")]),
        ("c[16]", vec![c(b"0123456789abcdef")]),
        ("c[3;ext,2]", vec![ChunkSpec { data: b"abc".to_vec(), ext: ";n=v".into(), upper_hex: false, lws: false }, c(b"de")]),
        ("c[3 lws,2]", vec![ChunkSpec { data: b"abc".to_vec(), ext: String::new(), upper_hex: false, lws: true }, c(b"de")]),
        ("c[10 upper]", vec![ChunkSpec { data: b"0123456789".to_vec(), ext: String::new(), upper_hex: true, lws: false }]),
    ]
}

pub fn valid_kinds() -> Vec<(String, RequestSpec)> {
    let mut v: Vec<(String, RequestSpec)> = vec![
        ("GET".into(), RequestSpec::new("GET", 0)),
        ("HEAD".into(), RequestSpec::new("HEAD", 0)),
        ("GET10".into(), RequestSpec::new("GET", 0).v10()),
        ("POSTcl0".into(), RequestSpec::new("POST", 0).cl(b"")),
        ("POSTcl1".into(), RequestSpec::new("POST", 0).cl(b"x")),
        ("POSTcl5".into(), RequestSpec::new("POST", 0).cl(b"GET /")),
        ("POST10cl5".into(), RequestSpec::new("POST", 0).v10().cl(b"hello")),
    ];
    for (n, c) in chunk_lists() {
        v.push((format!("POST{n}"), RequestSpec::new("POST", 0).chunked(c)));
    }
    v
}

pub fn malformed_kinds() -> Vec<(String, RequestSpec)> {
    let mut v = vec![];
    for m in Malformed::HEAD_CLASSES {
        v.push((format!("{m:?}"), RequestSpec::new("POST", 0).malformed(*m)));
    }
    for m in Malformed::CHUNK_CLASSES {
        v.push((
            format!("{m:?}"),
            RequestSpec::new("POST", 0)
                .chunked(vec![ChunkSpec::plain(b"abc"), ChunkSpec::plain(b"de")])
                .malformed(*m),
        ));
    }
    v
}

pub struct StreamCase {
    pub name: String,
    pub requests: Vec<RequestSpec>,
}

fn renumber(rs: Vec<RequestSpec>) -> Vec<RequestSpec> {
    rs.into_iter()
        .enumerate()
        .map(|(i, mut r)| {
            r.handler = i;
            r
        })
        .collect()
}

pub fn stream_cases(tier: &str) -> Vec<StreamCase> {
    let valid = valid_kinds();
    let mal = malformed_kinds();
    let mut out = vec![];
    let all: Vec<&(String, RequestSpec)> = valid.iter().chain(mal.iter()).collect();
    for (n, r) in &all {
        out.push(StreamCase { name: n.to_string(), requests: renumber(vec![(*r).clone()]) });
    }
    for (n1, r1) in &valid {
        for (n2, r2) in &all {
            out.push(StreamCase { name: format!("{n1}+{n2}"), requests: renumber(vec![r1.clone(), (*r2).clone()]) });
        }
    }
    let core: Vec<&(String, RequestSpec)> = valid
        .iter()
        .filter(|(n, _)| {
            if tier == "thorough" {
                true
            } else {
                matches!(n.as_str(), "GET" | "POSTcl5" | "POSTc[3,2]" | "POSTc[3;ext,2]" | "POST10cl5")
            }
        })
        .collect();
    for (n1, r1) in &core {
        for (n2, r2) in &core {
            for (n3, r3) in &all {
                out.push(StreamCase {
                    name: format!("{n1}+{n2}+{n3}"),
                    requests: renumber(vec![r1.clone(), r2.clone(), (*r3).clone()]),
                });
            }
        }
    }
    out
}

// ---------------------------------------------------------------------------------------------
// level 1: the real codec, driven as the dispatcher drives it

/// what the codec emitted, with chunk boundaries erased (they legitimately follow the segmentation)
#[derive(Clone, Debug, PartialEq, Eq, Hash, Default)]
pub struct Emitted {
    /// per request: (method, target, version, sorted headers, body bytes, eof seen)
    pub reqs: Vec<(String, String, u8, Vec<(String, String)>, Vec<u8>, bool)>,
    /// Some(kind) once decode returned Err; nothing is decoded afterwards
    pub err: Option<String>,
    /// chunk / eof without a request, item while a body is open …
    pub protocol_breach: Option<String>,
}

pub struct CodecRun {
    pub emitted: Emitted,
    pub snapshot: String,
    pub leftover: usize,
}

thread_local! {
    static CONFIG: std::cell::RefCell<Option<actix_http::ServiceConfig>> = const { std::cell::RefCell::new(None) };
}

/// Must be called inside a tokio LocalSet (the service config owns a date-service task).
pub fn run_codec(bytes: &[u8], feeds: &[usize]) -> CodecRun {
    let cfg = CONFIG.with(|c| c.borrow_mut().get_or_insert_with(actix_http::ServiceConfig::default).clone());
    let mut codec = Codec::new(cfg);
    let mut buf = BytesMut::new();
    let mut em = Emitted::default();
    let mut pos = 0;
    'outer: for &k in feeds {
        buf.extend_from_slice(&bytes[pos..pos + k]);
        pos += k;
        if em.err.is_some() {
            continue;
        }
        loop {
            match codec.decode(&mut buf) {
                Ok(Some(Message::Item(req))) => {
                    if let Some(last) = em.reqs.last() {
                        if !last.5 {
                            em.protocol_breach = Some("request item while the previous body is open".into());
                        }
                    }
                    let mut names: Vec<String> = req.headers().keys().map(|k| k.as_str().to_string()).collect();
                    names.sort();
                    names.dedup();
                    let mut hs = vec![];
                    for n in names {
                        for v in req.headers().get_all(n.as_str()) {
                            hs.push((n.clone(), String::from_utf8_lossy(v.as_bytes()).into_owned()));
                        }
                    }
                    let has_body = codec.message_type() != actix_http::h1::MessageType::None;
                    em.reqs.push((
                        req.method().as_str().to_string(),
                        req.uri().to_string(),
                        if req.version() == actix_http::Version::HTTP_11 { 1 } else { 0 },
                        hs,
                        vec![],
                        !has_body,
                    ));
                }
                Ok(Some(Message::Chunk(Some(c)))) => match em.reqs.last_mut() {
                    Some(r) if !r.5 => r.4.extend_from_slice(&c),
                    _ => em.protocol_breach = Some("chunk without an open body".into()),
                },
                Ok(Some(Message::Chunk(None))) => match em.reqs.last_mut() {
                    Some(r) if !r.5 => r.5 = true,
                    _ => em.protocol_breach = Some("eof without an open body".into()),
                },
                Ok(None) => break,
                Err(e) => {
                    em.err = Some(format!("{e:?}").split('(').next().unwrap_or("").to_string());
                    continue 'outer;
                }
            }
        }
    }
    CodecRun { emitted: em, snapshot: codec_snapshot(&codec), leftover: buf.len() }
}

#[cfg(actix_web_verif)]
fn codec_snapshot(c: &Codec) -> String {
    c.verif_snapshot()
}
#[cfg(not(actix_web_verif))]
fn codec_snapshot(_c: &Codec) -> String {
    String::new()
}

/// Is `em` what RFC 7230 framing defines for the first `fed` bytes of the stream?
/// `complete` = all bytes were fed.
pub fn judge(st: &Stream, em: &Emitted, complete: bool) -> Result<(), (String, String, String)> {
    if let Some(b) = &em.protocol_breach {
        return Err(("a".into(), "codec-protocol-breach".into(), b.clone()));
    }
    let first_bad = st.truths.iter().position(|t| t.head_rejected || t.body_malformed);
    for (i, r) in em.reqs.iter().enumerate() {
        let Some(t) = st.truths.get(i) else {
            return Err(("c".into(), "request-beyond-stream".into(), format!("decoded request #{i} ({} {}) does not exist in the stream", r.0, r.1)));
        };
        if let Some(fb) = first_bad {
            if i > fb || (i == fb && t.head_rejected) {
                return Err(("c".into(), format!("request-decoded-after-rejection-point:{}", class_of(st, fb)), format!(
                    "request #{i} ({} {}) was decoded although message #{fb} is malformed ({})", r.0, r.1, class_of(st, fb))));
            }
        }
        if r.0 != t.method || r.1 != t.target || r.2 != t.version {
            return Err(("a".into(), "request-line-mismatch".into(), format!("request #{i} decoded as {} {} 1.{} but the stream says {} {} 1.{}", r.0, r.1, r.2, t.method, t.target, t.version)));
        }
        let mut th: Vec<(String, String)> = t.headers.clone();
        th.sort_by(|a, b| a.0.cmp(&b.0));
        let mut rh = r.3.clone();
        rh.sort_by(|a, b| a.0.cmp(&b.0));
        if rh != th {
            return Err(("a".into(), "headers-mismatch".into(), format!("request #{i} headers {:?} but the stream says {:?}", rh, th)));
        }
        if !t.body.starts_with(&r.4) {
            return Err(("a".into(), "body-bytes-mismatch".into(), format!("request #{i} body {:?} is not a prefix of the framed body {:?}", mc_core::show_short(&r.4, 40), mc_core::show_short(&t.body, 40))));
        }
        if r.5 && t.has_body && !t.body_malformed && r.4 != t.body {
            return Err(("a".into(), "body-ended-early".into(), format!("request #{i} body ended after {} of {} bytes", r.4.len(), t.body.len())));
        }
        if r.5 && t.body_malformed {
            return Err(("c".into(), format!("malformed-body-accepted:{}", class_of(st, i)), format!("request #{i} has malformed chunk syntax ({}) but its body was reported complete", class_of(st, i))));
        }
    }
    if let Some(e) = &em.err {
        match first_bad {
            None => return Err(("a".into(), format!("valid-stream-rejected:{e}"), format!("decode returned Err({e}) on a stream of well-formed requests after {} requests", em.reqs.len()))),
            Some(fb) => {
                let expect_reqs = if st.truths[fb].head_rejected { fb } else { fb + 1 };
                if em.reqs.len() != expect_reqs {
                    return Err(("c".into(), format!("rejected-at-wrong-message:{}", class_of(st, fb)), format!("Err({e}) after {} decoded requests, the malformed message is #{fb}", em.reqs.len())));
                }
            }
        }
    }
    if complete {
        match first_bad {
            None => {
                if em.reqs.len() != st.truths.len() || em.reqs.iter().any(|r| !r.5) {
                    return Err(("a".into(), "requests-missing".into(), format!("all {} bytes fed but only {} of {} requests decoded completely", st.bytes.len(), em.reqs.iter().filter(|r| r.5).count(), st.truths.len())));
                }
            }
            Some(fb) => {
                if em.err.is_none() {
                    return Err(("c".into(), format!("malformed-not-rejected:{}", class_of(st, fb)), format!("all bytes fed but message #{fb} ({}) was not rejected; {} requests decoded", class_of(st, fb), em.reqs.len())));
                }
            }
        }
    }
    Ok(())
}

fn class_of(st: &Stream, i: usize) -> String {
    let _ = (st, i);
    // filled by the caller through the scenario; the truth does not carry the class, so derive it
    // from the headers
    let t = &st.truths[i];
    if t.body_malformed {
        return "chunk-syntax".into();
    }
    let cl: Vec<&str> = t.headers.iter().filter(|(k, _)| k == "content-length").map(|(_, v)| v.as_str()).collect();
    let te: Vec<&str> = t.headers.iter().filter(|(k, _)| k == "transfer-encoding").map(|(_, v)| v.as_str()).collect();
    if !cl.is_empty() && !te.is_empty() {
        "cl+te".into()
    } else if cl.len() > 1 {
        "repeated-cl".into()
    } else if cl.len() == 1 {
        "bad-cl".into()
    } else if te.len() > 1 {
        "repeated-te".into()
    } else if te.len() == 1 && t.version == 0 {
        "te-on-http10".into()
    } else if te.len() == 1 {
        "te-not-chunked".into()
    } else {
        "http10-post-without-cl".into()
    }
}

pub struct CodecModel<'a> {
    pub st: &'a Stream,
}

#[derive(Clone)]
pub struct CState {
    pub feeds: Vec<usize>,
    pub fed: usize,
    pub key: (usize, String, usize, Emitted),
}

impl<'a> Model for CodecModel<'a> {
    type State = CState;
    type Key = (usize, String, usize, Emitted);
    type Action = usize;
    fn key(&self, s: &CState) -> Self::Key {
        s.key.clone()
    }
    fn actions(&self, s: &CState) -> Vec<usize> {
        if s.key.3.err.is_some() {
            // decoding stops at the first error, as in the dispatcher
            return vec![];
        }
        (1..=(self.st.bytes.len() - s.fed)).collect()
    }
    fn step(&self, s: &CState, a: &usize, _path: &[usize]) -> Result<Option<CState>, StepErr> {
        let mut feeds = s.feeds.clone();
        feeds.push(*a);
        let fed = s.fed + a;
        let run = run_codec(&self.st.bytes, &feeds);
        if let Err((clause, signature, what)) = judge(self.st, &run.emitted, fed == self.st.bytes.len()) {
            return Err(StepErr { clause, signature, what: format!("{what}; feeds {:?}", feeds) });
        }
        Ok(Some(CState { feeds, fed, key: (fed, run.snapshot, run.leftover, run.emitted) }))
    }
}

pub struct Level1Stats {
    pub streams: u64,
    pub states: u64,
    pub transitions: u64,
    pub twin_segmentations: u64,
    pub max_states_per_stream: u64,
    pub terminal_digests_max: u64,
    pub sample: serde_json::Value,
}

/// Returns violations (clause, signature, what, replay json)
pub fn level1(tier: &str, threads: usize) -> (Level1Stats, Vec<Violation>) {
    use std::sync::atomic::{AtomicUsize, Ordering};
    use std::sync::Mutex;
    let cases = stream_cases(tier);
    let next = AtomicUsize::new(0);
    let agg = Mutex::new((Level1Stats { streams: 0, states: 0, transitions: 0, twin_segmentations: 0, max_states_per_stream: 0, terminal_digests_max: 0, sample: serde_json::Value::Null }, Vec::<Violation>::new()));
    std::thread::scope(|sc| {
        for _ in 0..threads {
            sc.spawn(|| in_local(|| loop {
                let i = next.fetch_add(1, Ordering::SeqCst);
                if i >= cases.len() {
                    break;
                }
                let case = &cases[i];
                let scn = Scenario::new(&case.name, case.requests.clone(), vec![]);
                let st = scn.stream();
                let n = st.bytes.len();
                let m = CodecModel { st: &st };
                let init = CState { feeds: vec![], fed: 0, key: (0, String::new(), 0, Emitted::default()) };
                let (bs, viols) = bfs::bfs(&m, init, 1_000_000, 10_000, None);
                let mut vs: Vec<Violation> = viols
                    .into_iter()
                    .map(|bv| Violation {
                        property: P.into(),
                        clause: bv.err.clause,
                        signature: format!("codec:{}", bv.err.signature),
                        what: format!("stream {} ({} bytes): {}", case.name, n, bv.err.what),
                        replay: serde_json::json!({"level": "codec", "stream": case.name, "feeds": bv.path, "bytes": mc_core::show(&st.bytes)}),
                        weight: bv.path.len() as u64,
                    })
                    .collect();
                // un-merged twin: whole, all 1-byte, every 1-cut, every 2-cut
                let mut twin = 0u64;
                let mut segs: Vec<Vec<usize>> = vec![vec![n], vec![1; n]];
                for a in 1..n {
                    segs.push(vec![a, n - a]);
                }
                if n <= 120 || tier == "thorough" {
                    for a in 1..n {
                        for b in (a + 1)..n {
                            segs.push(vec![a, b - a, n - b]);
                        }
                    }
                }
                let reference = run_codec(&st.bytes, &[n]).emitted;
                for feeds in &segs {
                    twin += 1;
                    let r = run_codec(&st.bytes, feeds);
                    let verdict = judge(&st, &r.emitted, true);
                    if r.emitted != reference || verdict.is_err() {
                        let (clause, signature, what) = verdict.err().unwrap_or(("b".into(), "segmentation-dependent".into(), format!("decode result differs from the whole-buffer decode: {:?} vs {:?}", r.emitted, reference)));
                        vs.push(Violation {
                            property: P.into(),
                            clause,
                            signature: format!("codec-twin:{signature}"),
                            what: format!("stream {} ({} bytes), feeds {:?}: {}", case.name, n, feeds, what),
                            replay: serde_json::json!({"level": "codec", "stream": case.name, "feeds": feeds, "bytes": mc_core::show(&st.bytes)}),
                            weight: feeds.len() as u64,
                        });
                        break;
                    }
                }
                let mut g = agg.lock().unwrap();
                g.0.streams += 1;
                g.0.states += bs.states;
                g.0.transitions += bs.transitions;
                g.0.twin_segmentations += twin;
                g.0.max_states_per_stream = g.0.max_states_per_stream.max(bs.states);
                if g.0.sample.is_null() && case.requests.len() == 3 {
                    g.0.sample = serde_json::json!({"stream": case.name, "bytes": mc_core::show(&st.bytes), "states": bs.states, "transitions": bs.transitions, "decoded": format!("{:?}", reference)});
                }
                g.1.append(&mut vs);
            }));
        }
    });
    agg.into_inner().unwrap()
}

/// run `f` inside a current-thread runtime + LocalSet and drop the thread's cached config before
/// the LocalSet goes away
fn in_local<R>(f: impl FnOnce() -> R) -> R {
    let rt = tokio::runtime::Builder::new_current_thread().enable_time().start_paused(true).build().unwrap();
    let local = tokio::task::LocalSet::new();
    let r = local.block_on(&rt, async { f() });
    CONFIG.with(|c| c.borrow_mut().take());
    r
}

pub fn replay_codec(v: &serde_json::Value) -> i32 {
    let name = v["stream"].as_str().unwrap_or("");
    let cases = stream_cases("thorough");
    let Some(case) = cases.iter().find(|c| c.name == name) else {
        eprintln!("MACHINERY: stream {name} not in the grammar");
        return 2;
    };
    let scn = Scenario::new(&case.name, case.requests.clone(), vec![]);
    let st = scn.stream();
    let feeds: Vec<usize> = v["feeds"].as_array().map(|a| a.iter().map(|x| x.as_u64().unwrap_or(0) as usize).collect()).unwrap_or_default();
    let mut rest = st.bytes.len() - feeds.iter().sum::<usize>();
    let mut feeds = feeds;
    if rest > 0 {
        feeds.push(rest);
        rest = 0;
    }
    let _ = rest;
    println!("stream {}: {}", case.name, mc_core::show(&st.bytes));
    println!("feeds {:?}", feeds);
    let r = in_local(|| run_codec(&st.bytes, &feeds));
    println!("decoded: {:#?}", r.emitted);
    match judge(&st, &r.emitted, true) {
        Ok(()) => {
            println!("no violation on this case");
            0
        }
        Err((c, s, w)) => {
            println!("VIOLATION property=C01 clause={c} signature=codec:{s}\n  {w}");
            1
        }
    }
}

// ---------------------------------------------------------------------------------------------
// level 2: the real connection

pub fn scenarios(tier: &str) -> Vec<Scenario> {
    let mut out = vec![];
    let valid = valid_kinds();
    let mal = malformed_kinds();
    let pick = |names: &[&str]| -> Vec<(String, RequestSpec)> { valid.iter().filter(|(n, _)| names.contains(&n.as_str())).cloned().collect() };
    let firsts = if tier == "thorough" { valid.clone() } else { pick(&["GET", "POSTcl5", "POSTc[3,2]", "POSTc[3;ext,2]", "POST10cl5", "HEAD"]) };
    let budgets = vec![("read", 40), ("write", 16), ("flush", 8), ("env", 40), ("envq", 8), ("shutdown", 3)];
    // two recording services: one propagates a body error as its service error (what the
    // extractors do), one never reads the body
    let services: Vec<(&str, Box<dyn Fn() -> HandlerProgram>)> = vec![
        ("readall", Box::new(|| HandlerProgram::ok(BodySpec::Bytes(b"ok".to_vec())).plan(PayloadPlan::ReadAllThenRespond).failing())),
        ("noread", Box::new(|| HandlerProgram::ok(BodySpec::Bytes(b"ok".to_vec())).plan(PayloadPlan::HoldUnreadUntilBodyDone))),
    ];
    let mut add = |name: String, reqs: Vec<RequestSpec>, svc: &dyn Fn() -> HandlerProgram, pend_first: bool| {
        let reqs = renumber(reqs);
        let progs: Vec<HandlerProgram> = (0..reqs.len()).map(|i| if i == 0 && pend_first { svc().pend(1) } else { svc() }).collect();
        let mut s = Scenario::new(&name, reqs, progs);
        s.env.budgets = budgets.clone();
        out.push(s);
    };
    for (sn, svc) in &services {
        // singles
        for (n, r) in valid.iter().chain(mal.iter()) {
            add(format!("{sn}:{n}"), vec![r.clone()], svc.as_ref(), false);
        }
        // pairs: valid then (valid | malformed)
        for (n1, r1) in &firsts {
            for (n2, r2) in valid.iter().chain(mal.iter()) {
                if *sn == "noread" && !(mal.iter().any(|(m, _)| m == n2)) {
                    continue;
                }
                for pend in [false, true] {
                    if pend && *sn == "noread" {
                        continue;
                    }
                    add(format!("{sn}:{n1}+{n2}/p{}", pend as u8), vec![r1.clone(), r2.clone()], svc.as_ref(), pend);
                }
            }
        }
    }
    // triples: a malformed message behind an in-flight (pending) request and in front of a
    // well-formed one, and a malformed message directly in front of a well-formed one: nothing
    // after the point of rejection may reach the application, however long the rejection waits
    // in the pipeline
    {
        let get = pick(&["GET"])[0].1.clone();
        let svc = &services[0].1;
        for (n2, r2) in mal.iter() {
            for pend in [false, true] {
                add(format!("readall:GET+{n2}+GET/p{}", pend as u8), vec![get.clone(), r2.clone(), get.clone()], svc.as_ref(), pend);
            }
            add(format!("readall:{n2}+GET/p0"), vec![r2.clone(), get.clone()], svc.as_ref(), false);
        }
        // pipelines longer than the dispatcher's queue of decoded messages (16), in one segment
        for n in [17usize, 18, 20, 34] {
            for pend in [false, true] {
                add(format!("readall:GETx{n}/p{}", pend as u8), (0..n).map(|_| get.clone()).collect(), svc.as_ref(), pend);
            }
        }
    }
    // ... and the same with a peer that keeps the connection open (no FIN ever wakes the task)
    for n in [18usize, 34] {
        let get = pick(&["GET"])[0].1.clone();
        let reqs = renumber((0..n).map(|_| get.clone()).collect());
        let progs: Vec<HandlerProgram> = (0..n).map(|i| if i == 0 { services[0].1().pend(1) } else { services[0].1() }).collect();
        let mut s = Scenario::new(&format!("readall:GETx{n}/p1/peer-stays"), reqs, progs);
        s.env.budgets = budgets.clone();
        s.fin = FinPlan::Never;
        out.push(s);
    }
    // thorough: every byte offset of the stream is a read cut (one deviation)
    if tier == "thorough" {
        let svc = &services[0].1;
        let mut extra = vec![];
        for (n, r) in valid.iter().chain(mal.iter()) {
            extra.push((format!("everycut:{n}"), vec![r.clone()]));
        }
        for (n1, r1) in pick(&["GET", "POSTcl5", "POSTc[3;ext,2]"]) {
            for (n2, r2) in valid.iter().chain(mal.iter()) {
                extra.push((format!("everycut:{n1}+{n2}"), vec![r1.clone(), r2.clone()]));
            }
        }
        for (name, reqs) in extra {
            let reqs = renumber(reqs);
            let progs: Vec<HandlerProgram> = (0..reqs.len()).map(|_| svc()).collect();
            let mut s = Scenario::new(&name, reqs, progs);
            s.io.every_offset = true;
            s.io.write_alts = false;
            s.io.flush_alts = false;
            s.io.shutdown_alts = false;
            s.env.reorder = false;
            s.env.budgets = vec![("read", 6)];
            out.push(s);
        }
    }
    // oversized heads (need the dispatcher's read loop): > 128 KiB of header lines / one endless line
    {
        let svc = &services[0].1;
        let mut s = Scenario::new("readall:oversized-head-lines", vec![RequestSpec::new("GET", 0)], vec![svc()]);
        let mut tail = b"GET /1 HTTP/1.1\r\nhost: t\r\n".to_vec();
        while tail.len() < 140_000 {
            tail.extend_from_slice(b"x-filler: 0123456789012345678901234567890123456789012345678901234567890123456789\r\n");
        }
        s.tail = tail;
        s.env.budgets = vec![("read", 12), ("write", 8), ("flush", 4), ("env", 16), ("envq", 6), ("shutdown", 2)];
        out.push(s);
        let mut s = Scenario::new("readall:oversized-single-line", vec![RequestSpec::new("GET", 0)], vec![svc()]);
        let mut tail = b"GET /1 HTTP/1.1\r\nx-endless: ".to_vec();
        tail.resize(140_000, b'a');
        s.tail = tail;
        s.env.budgets = vec![("read", 12), ("write", 8), ("flush", 4), ("env", 16), ("envq", 6), ("shutdown", 2)];
        out.push(s);
    }
    // an unfinished head of exactly / one below / one above the 131 072-byte limit, arriving after
    // a first (served) request: the read gate and the decoder's limit must agree at the boundary
    for (n, len) in [("limit", 131_072usize), ("limit+1", 131_073)] {
        let svc = &services[0].1;
        let mut s = Scenario::new(&format!("readall:oversized-head-after-first-request/{n}"), vec![RequestSpec::new("GET", 0)], vec![svc()]);
        let mut tail = b"GET /1 HTTP/1.1\r\nx-endless: ".to_vec();
        tail.resize(len, b'a');
        s.tail = tail;
        s.fin = FinPlan::Never;
        s.env.budgets = vec![("read", 12), ("write", 8), ("flush", 4), ("env", 16), ("envq", 6), ("shutdown", 2)];
        out.push(s);
    }
    out
}

pub fn bound(sc: &Scenario, tier: &str) -> u32 {
    if sc.name.starts_with("everycut:") {
        return 2;
    }
    let heavy = sc.name.contains("oversized");
    match (tier, heavy) {
        ("thorough", false) => 2,
        ("thorough", true) => 1,
        (_, false) => 1,
        (_, true) => 1,
    }
}

pub fn check(sc: &Scenario, ex: &Exec, a: &Analysis) -> Vec<Violation> {
    let mut v = vec![];
    let st = &a.stream;
    let oversized = !sc.tail.is_empty();
    let first_bad = st.truths.iter().position(|t| t.head_rejected || t.body_malformed);
    let faulted = ex.io.fault.is_some() || ex.io.reset;
    // (a) the requests the application sees
    for (n, d) in a.dispatched.iter().enumerate() {
        let Some(t) = st.truths.get(n) else {
            v.push(viol(P, "c", "request-fabricated", format!("the application saw request #{n} ({} {}) that is not in the stream", d.method, d.target)));
            break;
        };
        if let Some(fb) = first_bad {
            if n > fb || (n == fb && t.head_rejected) {
                v.push(viol(P, "c", &format!("request-dispatched-after-rejection-point:{}", class_of(st, fb)), format!(
                    "request #{n} ({} {}) reached the application although message #{fb} is malformed ({})", d.method, d.target, class_of(st, fb))));
                break;
            }
        }
        if d.method != t.method || d.target != t.target || d.version != t.version {
            v.push(viol(P, "a", "request-line-mismatch", format!("application saw {} {} 1.{} for request #{n}; the stream says {} {} 1.{}", d.method, d.target, d.version, t.method, t.target, t.version)));
        }
        let mut th = t.headers.clone();
        th.sort_by(|x, y| x.0.cmp(&y.0));
        let mut dh = d.headers.clone();
        dh.sort_by(|x, y| x.0.cmp(&y.0));
        if th != dh {
            v.push(viol(P, "a", "headers-mismatch", format!("application saw headers {:?} for request #{n}; the stream says {:?}", dh, th)));
        }
        let reads = sc.programs.get(d.handler).map(|p| p.payload == PayloadPlan::ReadAllThenRespond).unwrap_or(false);
        if reads {
            match d.body_end.as_deref() {
                Some("eof") => {
                    if t.body_malformed {
                        v.push(viol(P, "c", &format!("malformed-body-clean-end:{}", class_of(st, n)), format!("request #{n} has malformed chunk syntax but its body ended cleanly with {:?}", mc_core::show_short(&d.body, 40))));
                    } else if d.body != t.body {
                        v.push(viol(P, "a", "body-bytes-mismatch", format!("application read body {:?} for request #{n}; the framed body is {:?}", mc_core::show_short(&d.body, 40), mc_core::show_short(&t.body, 40))));
                    }
                }
                Some(_err) => {
                    if !t.body_malformed && !faulted && ex.fin_delivered == false {
                        v.push(viol(P, "a", "valid-body-error", format!("request #{n} has a well-formed body but the application's read ended with {:?} after {:?}", d.body_end, mc_core::show_short(&d.body, 40))));
                    }
                    if !t.body.starts_with(&d.body) {
                        v.push(viol(P, "a", "body-bytes-mismatch", format!("application read {:?} which is not a prefix of the framed body", mc_core::show_short(&d.body, 40))));
                    }
                }
                None => {}
            }
        }
    }
    if faulted {
        return v;
    }
    // every well-formed request before the rejection point reaches the application (in order)
    let expect_dispatched = match first_bad {
        None => st.truths.len(),
        Some(fb) => {
            if st.truths[fb].head_rejected {
                fb
            } else {
                fb + 1
            }
        }
    };
    // a response that legitimately announced close (e.g. its request body was left unread) ends
    // the connection before later messages are looked at: nothing is owed for them
    let finals_all = a.finals();
    let closed_before = |k: usize| finals_all.iter().take(k).any(|r| r.says_close() || (r.version == 0 && !r.says_keep_alive()));
    let expect_dispatched = (0..expect_dispatched).take_while(|&k| !closed_before(k)).count();
    // (judged when the connection has ended, or — with a peer that never half-closes — when the
    // execution went quiescent with every byte delivered: nothing more will ever arrive)
    if (ex.done.is_some() || sc.fin == FinPlan::Never) && a.dispatched.len() < expect_dispatched && !oversized {
        v.push(viol(P, "a", "request-not-delivered", format!("the stream holds {expect_dispatched} requests before any rejection point but the application saw {}", a.dispatched.len())));
    }
    // (c) malformed message: answered with a 4xx and the connection closed
    let finals = a.finals();
    if let Some(fb) = first_bad.filter(|&fb| !closed_before(fb)) {
        let class = class_of(st, fb);
        if ex.done.is_some() || ex.io.shutdown_done {
            // the response that answers message fb
            let r = finals.get(fb);
            let started_other = false;
            match r {
                Some(r) if (400..500).contains(&r.status) => {}
                Some(r) => {
                    // a response to that request had already been started (handler responded
                    // before the malformed part arrived): a 4xx cannot follow it
                    let tagged_ok = r.tag() == Some(fb) && sc.programs[fb].payload != PayloadPlan::ReadAllThenRespond;
                    if !tagged_ok && !started_other {
                        v.push(viol(P, "c", &format!("malformed-answered-with-{}:{}", r.status, class), format!("message #{fb} is malformed ({class}) but was answered with status {}", r.status)));
                    }
                }
                None => {
                    v.push(viol(P, "c", &format!("malformed-not-answered:{class}"), format!(
                        "message #{fb} is malformed ({class}); the connection ended ({:?}) with {} final responses and no 4xx for it (socket shutdown called: {})",
                        ex.done, finals.len(), ex.io.shutdown_calls > 0)));
                }
            }
            if finals.len() > fb + 1 {
                v.push(viol(P, "c", &format!("response-after-rejection:{class}"), format!("{} responses were written after the response to the malformed message #{fb}", finals.len() - fb - 1)));
            }
        }
        // closed: the connection future completes (it is not kept alive for another request)
        if ex.done.is_none() && !ex.horizon_hit {
            v.push(viol(P, "c", &format!("connection-not-closed-after-rejection:{class}"), format!("message #{fb} is malformed ({class}) but the connection is still open at the end of the execution")));
        }
    }
    if oversized {
        // the head that does not fit is answered 431 (a 4xx) and the connection closed
        let r = finals.get(1);
        match r {
            Some(r) if (400..500).contains(&r.status) => {}
            other => v.push(viol(P, "c", "oversized-head-not-rejected", format!("a request head larger than the buffer limit was not answered with a 4xx: {:?}", other.map(|r| r.status)))),
        }
        if a.dispatched.len() > 1 {
            v.push(viol(P, "c", "oversized-head-dispatched", "a request with an oversized head reached the application".into()));
        }
        if finals.len() > 2 {
            v.push(viol(P, "c", "response-after-rejection:oversized-head", format!("{} responses were written after the response that rejects the oversized head", finals.len() - 2)));
        }
        if ex.done.is_none() {
            v.push(viol(P, "c", "connection-not-closed-after-rejection:oversized-head", "connection still open after an oversized head".into()));
        }
    }
    v
}

pub fn nontrivial(ex: &Exec, a: &Analysis) -> bool {
    a.dispatched.iter().any(|d| !d.body.is_empty()) || a.stream.truths.iter().any(|t| t.head_rejected || t.body_malformed) || ex.io.consumed > 0 && a.dispatched.len() > 1
}
