//! C03 — reuse discipline: close means close; unread bodies are never reparsed.

use crate::analysis::Analysis;
use crate::driver::{Event, Exec};
use crate::scenario::*;
use crate::viol;
use mc_core::Violation;

const P: &str = "C03";

/// body that looks like a complete request: if the server ever parses it, a request for `/9` shows up
pub const SMUGGLE: &[u8] = b"GET /9 HTTP/1.1\r\nhost: t\r\n\r\n";

/// Why the response to request `j` says close, derived from the scenario alone.
fn why_close(sc: &Scenario, a: &Analysis, j: usize, tagged: bool) -> &'static str {
    if !tagged {
        return "parse-error";
    }
    let t = &a.stream.truths[j];
    let prog = &sc.programs[j];
    let req_close = t.headers.iter().any(|(k, v)| k == "connection" && v.eq_ignore_ascii_case("close"));
    if req_close {
        "request-said-close"
    } else if t.version == 0 {
        "http10"
    } else if sc.config.keep_alive == Ka::Disabled {
        "keep-alive-disabled"
    } else if prog.force_close {
        "handler-forced-close"
    } else if t.has_body && matches!(prog.payload, PayloadPlan::RespondThenReadAllInBody | PayloadPlan::RespondWithExternalReader) {
        // the response was produced before the body was read, but the application reads it afterwards
        "own-payload-read-after-response"
    } else if t.has_body && prog.payload != PayloadPlan::ReadAllThenRespond {
        "own-payload-never-read"
    } else if a.stream.truths.iter().skip(j + 1).any(|x| x.has_body) {
        "later-request-unread-payload"
    } else {
        "other"
    }
}

pub fn check(sc: &Scenario, ex: &Exec, a: &Analysis) -> Vec<Violation> {
    let mut v = vec![];
    let finals = a.finals();

    // (c) the requests seen are exactly the generator's, in order — never one made of body bytes
    for (n, d) in a.dispatched.iter().enumerate() {
        let ok = a.stream.truths.get(n).map(|t| t.target == d.target && t.method == d.method && !t.head_rejected).unwrap_or(false);
        if !ok {
            let fabricated = d.target == "/9";
            let prev_plan = if n > 0 { sc.programs.get(n - 1).map(|p| format!("{:?}", p.payload)) } else { None };
            v.push(viol(P, "c", if fabricated { "request-fabricated-from-body-bytes" } else { "unexpected-request" }, format!(
                "dispatched request #{n} is {} {} but the byte stream's request #{n} is {:?} (previous handler payload plan: {:?})",
                d.method, d.target, a.stream.truths.get(n).map(|t| format!("{} {}", t.method, t.target)), prev_plan)));
            break;
        }
    }
    // (c) a request is dispatched after request i only if i's body bytes were consumed to their exact end
    for (n, d) in a.dispatched.iter().enumerate().skip(1) {
        let (_, _, end_prev) = a.stream.spans[n - 1];
        // all bytes of the previous request must have been taken from the socket before the
        // next one can exist
        let _ = (d, end_prev);
    }

    // first response after which the connection must be finished
    let mut closing: Option<(usize, &'static str)> = None;
    for (j, r) in finals.iter().enumerate() {
        let tagged = r.tag().is_some();
        let malformed_err = !tagged && (400..500).contains(&r.status);
        if r.says_close() || malformed_err {
            let why = if malformed_err { "parse-error" } else { why_close(sc, a, j.min(a.stream.truths.len() - 1), tagged) };
            closing = Some((j, why));
            break;
        }
    }
    if let Some((j, why)) = closing {
        let r = finals[j];
        if r.complete {
            // (a) nothing is written after it
            if ex.io.out.len() > r.end {
                let more = finals.len() > j + 1;
                let produced_at = ex.log.iter().position(|e| matches!(e, Event::Responded { handler, .. } if Some(*handler) == r.tag()));
                let how = match produced_at {
                    Some(pos) => buffered(ex, a, pos, j + 1),
                    None => "n/a",
                };
                v.push(viol(P, "a", &format!("bytes-after-closing-response:{why}:{how}:{}", family(sc)), format!(
                    "response #{j} (status {}) announced the end of the connection ({why}) but {} more bytes were written after it{}",
                    r.status, ex.io.out.len() - r.end, if more { format!(" (another response, status {})", finals[j + 1].status) } else { String::new() })));
            }
        }
        // (b) no request is dispatched once the closing response was produced
        let produced_at = ex.log.iter().position(|e| matches!(e, Event::Responded { handler, .. } if Some(*handler) == r.tag()));
        if let Some(pos) = produced_at {
            if let Some((n, d)) = a.dispatched.iter().enumerate().find(|(_, d)| d.log_index > pos) {
                v.push(viol(P, "b", &format!("dispatch-after-closing-response:{why}:{}:{}", buffered(ex, a, pos, n), family(sc)), format!(
                    "request #{n} ({} {}) was dispatched after the handler of request #{j} had produced the response that announces close ({why})",
                    d.method, d.target)));
            }
        } else if r.tag().is_none() {
            // dispatcher-generated error response: nothing may be dispatched once its first byte is out
            if let Some((n, d)) = a.dispatched.iter().enumerate().find(|(_, d)| d.out_len > r.start) {
                v.push(viol(P, "b", &format!("dispatch-after-closing-response:{why}"), format!(
                    "request #{n} ({} {}) was dispatched after the error response (status {}) had started to be written",
                    d.method, d.target, r.status)));
            }
        }
    }
    v
}

/// The scenario family: the scenario name without its configuration component, so that a known
/// finding names the specific history (requests, payload plan, arrival pattern) that fails.
fn family(sc: &Scenario) -> String {
    sc.name.replace("/os/", "/").replace("/linger/", "/").replace("/nohalf/", "/").replace("/kaoff/", "/kaoff:").replace(' ', "")
}

/// Had the head of request `n` already been taken from the socket when the closing response was
/// produced (log position `pos`)? "buffered" = it was pipelined in the read buffer.
fn buffered(ex: &Exec, a: &Analysis, pos: usize, n: usize) -> &'static str {
    let consumed = match &ex.log[pos] {
        Event::Responded { consumed, .. } => *consumed,
        _ => 0,
    };
    match a.stream.spans.get(n) {
        Some((_, head_end, _)) if *head_end <= consumed => "already-buffered",
        Some(_) => "read-afterwards",
        None => "n/a",
    }
}

pub fn nontrivial(_ex: &Exec, a: &Analysis) -> bool {
    // a body-bearing request was answered and either the connection was reused or closed because of it
    a.stream.truths.iter().any(|t| t.has_body) && !a.finals().is_empty()
        || a.finals().iter().any(|r| r.says_close())
}

fn with_segments(mut s: Scenario, cuts: &[(usize, When)]) -> Scenario {
    // cuts: (offset where a new segment starts, when it arrives); offset 0 implied Start
    let len = s.stream().bytes.len();
    let mut segs = vec![];
    let mut from = 0;
    let mut when = When::Start;
    for (off, w) in cuts {
        if *off > from && *off < len {
            segs.push(Segment { when: when.clone(), from, to: *off });
            from = *off;
            when = w.clone();
        }
    }
    segs.push(Segment { when, from, to: len });
    s.segments = segs;
    s
}

pub fn scenarios(_tier: &str) -> Vec<Scenario> {
    let mut out: Vec<Scenario> = vec![];
    let plans = [
        PayloadPlan::DropAtStart,
        PayloadPlan::ReadAllThenRespond,
        PayloadPlan::ReadFirstThenRespondDrop,
        PayloadPlan::ReadFirstThenRespondHold,
        PayloadPlan::HoldUnreadUntilBodyDone,
        PayloadPlan::HoldForever,
        PayloadPlan::RespondThenReadAllInBody,
    ];
    let bodies: Vec<(&str, Box<dyn Fn(RequestSpec) -> RequestSpec>)> = vec![
        ("cl", Box::new(|r: RequestSpec| r.cl(SMUGGLE))),
        ("chunked", Box::new(|r: RequestSpec| {
            r.chunked(vec![ChunkSpec::plain(&SMUGGLE[..10]), ChunkSpec::plain(&SMUGGLE[10..])])
        })),
    ];
    let configs: Vec<(&str, Config, u64)> = vec![
        ("os", Config::default(), 0),
        ("linger", Config { disconnect_timeout_ms: 1000, ..Config::default() }, 2500),
        ("nohalf", Config { half_closed: false, ..Config::default() }, 0),
        ("kaoff", Config { keep_alive: Ka::Disabled, ..Config::default() }, 0),
    ];
    let budgets = vec![("read", 30), ("write", 24), ("flush", 12), ("env", 40), ("envq", 10), ("shutdown", 3)];
    let finish = |mut s: Scenario, cfg: &Config, horizon: u64| {
        s.config = cfg.clone();
        s.env.horizon_ms = horizon;
        s.env.budgets = budgets.clone();
        s
    };
    let resp_body = || BodySpec::SizedStream(4, vec![Chunk::Data(b"ok".to_vec()), Chunk::Data(b"ay".to_vec())]);

    // A: one body-bearing request, every payload plan, several arrival patterns of the body
    for (bn, mkbody) in &bodies {
        for plan in &plans {
            for (cn, cfg, horizon) in &configs {
                if *cn == "nohalf" && !matches!(plan, PayloadPlan::HoldForever | PayloadPlan::ReadAllThenRespond) {
                    continue;
                }
                for arrival in ["all", "body-later", "body-split", "body-never"] {
                    let r = mkbody(RequestSpec::new("POST", 0));
                    let p = HandlerProgram::ok(resp_body()).plan(plan.clone());
                    let mut s = Scenario::new(&format!("A:{bn}/{plan:?}/{cn}/{arrival}"), vec![r], vec![p]);
                    let st = s.stream();
                    let (_, he, end) = st.spans[0];
                    s = match arrival {
                        "all" => s,
                        "body-later" => with_segments(s, &[(he, When::Quiescent)]),
                        "body-split" => with_segments(s, &[(he + 7, When::Quiescent)]),
                        _ => {
                            // the rest of the body never arrives: the peer half-closes instead
                            let mut s2 = with_segments(s, &[(he + 7, When::Quiescent)]);
                            s2.segments.pop();
                            let _ = end;
                            s2
                        }
                    };
                    out.push(finish(s, cfg, *horizon));
                }
            }
        }
    }
    // B: body-bearing request followed by a pipelined GET
    for (bn, mkbody) in &bodies {
        for plan in &plans {
            for (cn, cfg, horizon) in configs.iter().filter(|c| c.0 != "nohalf") {
              for (rbn, rb) in [("", resp_body()), ("-emptyresp", BodySpec::Empty)] {
                if rbn == "-emptyresp" && matches!(plan, PayloadPlan::RespondThenReadAllInBody | PayloadPlan::ReadFirstThenRespondHold | PayloadPlan::HoldUnreadUntilBodyDone) {
                    // these plans keep the payload inside the response body object
                    continue;
                }
                for arrival in ["all", "second-later", "body-split", "body-split-second-later"] {
                    let r0 = mkbody(RequestSpec::new("POST", 0));
                    let r1 = RequestSpec::new("GET", 1);
                    let p0 = HandlerProgram::ok(rb.clone()).plan(plan.clone());
                    let p1 = HandlerProgram::ok(BodySpec::Bytes(b"second".to_vec()));
                    let mut s = Scenario::new(&format!("B:{bn}/{plan:?}{rbn}/{cn}/{arrival}"), vec![r0, r1], vec![p0, p1]);
                    let st = s.stream();
                    let (_, he, end) = st.spans[0];
                    s = match arrival {
                        "all" => s,
                        "second-later" => with_segments(s, &[(end, When::Quiescent)]),
                        // the rest of the body in one later read, the second request in a still later one
                        "body-split-second-later" => with_segments(s, &[(he + 7, When::Quiescent), (end, When::Quiescent)]),
                        _ => with_segments(s, &[(he + 7, When::Quiescent)]),
                    };
                    out.push(finish(s, cfg, *horizon));
                }
              }
            }
        }
    }
    // G: the closing request is not the first one: a pending handler, then a request that asks
    // for close, then one more request
    for pend in [0u8, 1] {
        for later in [false, true] {
            let reqs = vec![RequestSpec::new("GET", 0), RequestSpec::new("GET", 1).conn("close"), RequestSpec::new("GET", 2)];
            let progs = vec![
                HandlerProgram::ok(BodySpec::Bytes(b"one".to_vec())).pend(pend),
                HandlerProgram::ok(BodySpec::Bytes(b"two".to_vec())),
                HandlerProgram::ok(BodySpec::Bytes(b"three".to_vec())),
            ];
            let mut s = Scenario::new(&format!("G:get+close+get/p{pend}/later={later}"), reqs, progs);
            if later {
                let end1 = s.stream().spans[1].2;
                s = with_segments(s, &[(end1, When::Quiescent)]);
            }
            out.push(finish(s, &Config::default(), 0));
        }
    }
    // C: responses that announce close for reasons other than the body, followed by a pipelined request
    let closers: Vec<(&str, RequestSpec, HandlerProgram, Config)> = vec![
        ("req-close", RequestSpec::new("GET", 0).conn("close"), HandlerProgram::ok(BodySpec::Bytes(b"one".to_vec())), Config::default()),
        ("http10", RequestSpec::new("GET", 0).v10(), HandlerProgram::ok(BodySpec::Bytes(b"one".to_vec())), Config::default()),
        ("handler-close", RequestSpec::new("GET", 0), HandlerProgram::ok(BodySpec::Bytes(b"one".to_vec())).close(), Config::default()),
        ("ka-disabled", RequestSpec::new("GET", 0), HandlerProgram::ok(BodySpec::Bytes(b"one".to_vec())), Config { keep_alive: Ka::Disabled, ..Config::default() }),
        ("req-close-stream", RequestSpec::new("GET", 0).conn("close"), HandlerProgram::ok(BodySpec::BodyStream(vec![Chunk::Data(b"on".to_vec()), Chunk::Pending, Chunk::Data(b"e".to_vec())])), Config::default()),
    ];
    for (cn, r0, p0, cfg) in &closers {
        for pend in [0u8, 1] {
            for second in ["get", "post"] {
                let r1 = if second == "get" { RequestSpec::new("GET", 1) } else { RequestSpec::new("POST", 1).cl(b"0123456789") };
                let p1 = HandlerProgram::ok(BodySpec::Bytes(b"second".to_vec()));
                let s = Scenario::new(&format!("C:{cn}/p{pend}/{second}"), vec![r0.clone(), r1], vec![p0.clone().pend(pend), p1]);
                out.push(finish(s, cfg, 0));
            }
        }
    }
    // D: a gated handler while a later request's body is still arriving
    for (bn, mkbody) in &bodies {
        for third in [false, true] {
            let r0 = RequestSpec::new("GET", 0);
            let r1 = mkbody(RequestSpec::new("POST", 1));
            let mut reqs = vec![r0, r1];
            let mut progs = vec![
                HandlerProgram::ok(BodySpec::Bytes(b"gate".to_vec())).pend(1),
                HandlerProgram::ok(BodySpec::Bytes(b"post".to_vec())),
            ];
            if third {
                reqs.push(RequestSpec::new("GET", 2));
                progs.push(HandlerProgram::ok(BodySpec::Bytes(b"third".to_vec())));
            }
            let s = Scenario::new(&format!("D:{bn}/third={third}"), reqs, progs);
            let st = s.stream();
            let (_, he, _) = st.spans[1];
            let s = with_segments(s, &[(he + 4, When::Quiescent)]);
            out.push(finish(s, &Config::default(), 0));
        }
    }
    // E: malformed request (error response) followed by more bytes
    for m in [Malformed::ClAndTe, Malformed::TwoClDifferent, Malformed::TeGzip, Malformed::ChunkSizeTwoPow64, Malformed::ChunkExtControlByte] {
        for first_ok in [false, true] {
            let mut reqs = vec![];
            let mut progs = vec![];
            if first_ok {
                reqs.push(RequestSpec::new("GET", 0));
                progs.push(HandlerProgram::ok(BodySpec::Bytes(b"one".to_vec())).pend(1));
            }
            let k = reqs.len();
            reqs.push(if m.in_head() {
                RequestSpec::new("POST", k).malformed(m)
            } else {
                RequestSpec::new("POST", k).chunked(vec![ChunkSpec::plain(b"ab"), ChunkSpec::plain(b"cd")]).malformed(m)
            });
            progs.push(HandlerProgram::ok(BodySpec::Bytes(b"bad".to_vec())));
            reqs.push(RequestSpec::new("GET", k + 1));
            progs.push(HandlerProgram::ok(BodySpec::Bytes(b"after".to_vec())));
            let s = Scenario::new(&format!("E:{m:?}/first_ok={first_ok}"), reqs, progs);
            out.push(finish(s, &Config::default(), 0));
        }
    }
    // F: peer half-close at any point, half-closed connections not allowed
    for plan in [PayloadPlan::ReadAllThenRespond, PayloadPlan::DropAtStart] {
        let r0 = RequestSpec::new("POST", 0).cl(SMUGGLE);
        let r1 = RequestSpec::new("GET", 1);
        let mut s = Scenario::new(
            &format!("F:{plan:?}"),
            vec![r0, r1],
            vec![HandlerProgram::ok(resp_body()).plan(plan.clone()).pend(1), HandlerProgram::ok(BodySpec::Bytes(b"second".to_vec()))],
        );
        s.fin = FinPlan::Anytime;
        let cfg = Config { half_closed: false, ..Config::default() };
        out.push(finish(s, &cfg, 0));
    }
    // family H: a request head that does not fit the read buffer (431, the connection ends),
    // over a plain and over a buffering (TLS-like) transport
    for (n, lines) in [("single-line", false), ("header-lines", true)] {
        for buffered in [false, true] {
            let mut s = Scenario::new(&format!("H:oversized-head-{n}/buffered={buffered}"), vec![RequestSpec::new("GET", 0)], vec![HandlerProgram::ok(BodySpec::Bytes(b"ok".to_vec()))]);
            let mut tail = if lines { b"GET /1 HTTP/1.1\r\nhost: t\r\n".to_vec() } else { b"GET /1 HTTP/1.1\r\nx-endless: ".to_vec() };
            if lines {
                while tail.len() < 140_000 {
                    tail.extend_from_slice(b"x-filler: 0123456789012345678901234567890123456789012345678901234567890123456789\r\n");
                }
            } else {
                tail.resize(140_000, b'a');
            }
            s.tail = tail;
            s.io.buffered = buffered;
            s.fin = FinPlan::Never;
            s.env.budgets = vec![("read", 6), ("write", 8), ("flush", 6), ("env", 16), ("envq", 6), ("shutdown", 2)];
            out.push(s);
        }
    }
    out
}

pub fn bound(sc: &Scenario, tier: &str) -> u32 {
    if tier == "thorough" {
        if sc.name.starts_with("C:") || sc.name.starts_with("D:") { 4 } else { 4 }
    } else {
        2
    }
}
