//! C02 — HTTP/1 responses: one per request, in order, self-framed, body-faithful.

use crate::analysis::Analysis;
use crate::driver::{self, Event, Exec};
use crate::respparse::{ParsedResp, RFraming};
use crate::scenario::*;
use crate::viol;
use mc_core::{Chooser, Violation};
use std::collections::HashMap;
use std::sync::{Arc, Mutex, OnceLock};

const P: &str = "C02";

// ---------------------------------------------------------------------------------------------
// "alone on a fresh connection" reference (clause b): computed once per (config, request, program)

#[derive(Clone, Debug)]
pub struct Alone {
    pub resp: Option<ParsedResp>,
}

static ALONE: OnceLock<Mutex<HashMap<String, Arc<Alone>>>> = OnceLock::new();

pub fn alone(sc: &Scenario, k: usize) -> Arc<Alone> {
    let mut req = sc.requests[k].clone();
    req.handler = 0;
    let mut prog = sc.programs[k].clone();
    prog.pend_before = 0;
    let key = serde_json::to_string(&(&sc.config, &req, &prog)).unwrap();
    let cache = ALONE.get_or_init(|| Mutex::new(HashMap::new()));
    if let Some(a) = cache.lock().unwrap().get(&key) {
        return a.clone();
    }
    let mut single = Scenario::new("alone", vec![req], vec![prog]);
    single.config = sc.config.clone();
    single.env.reorder = false;
    single.io = IoOptsSer {
        read_alts: false,
        read_faults: false,
        write_alts: false,
        flush_alts: false,
        shutdown_alts: false,
        every_offset: false,
        buffered: false,
    };
    let mut ch = Chooser::new(vec![]);
    let ex = driver::run(&single, &mut ch);
    let a = Analysis::new(&single, &ex);
    let resp = a.finals().first().map(|r| (*r).clone());
    let al = Arc::new(Alone { resp });
    cache.lock().unwrap().insert(key, al.clone());
    al
}

fn framing_name(f: &RFraming) -> String {
    match f {
        RFraming::NoBody => "no-body".into(),
        RFraming::Cl(n) => format!("content-length:{n}"),
        RFraming::Chunked => "chunked".into(),
        RFraming::Close => "close-delimited".into(),
    }
}

fn headers_cmp(r: &ParsedResp, skip_connection: bool) -> Vec<(String, Vec<String>)> {
    let mut m: std::collections::BTreeMap<String, Vec<String>> = Default::default();
    for (k, v) in &r.headers {
        if k == "date" || k == "x-tag" || (skip_connection && k == "connection") {
            continue;
        }
        m.entry(k.clone()).or_default().push(v.clone());
    }
    m.into_iter().collect()
}

pub fn check(sc: &Scenario, ex: &Exec, a: &Analysis) -> Vec<Violation> {
    let mut v = vec![];
    let finals = a.finals();
    let faulted = ex.io.fault.is_some() || ex.io.reset;

    // (syntax) the byte stream must be a sequence of well-formed messages
    if let Some((off, what)) = &a.parsed.garbage {
        // attribute to clause c when it follows a response that must not have a body
        let prev = a.parsed.responses.iter().rev().find(|r| r.end <= *off);
        let after_nobody = prev.map(|r| r.framing == RFraming::NoBody && !r.interim).unwrap_or(false);
        if after_nobody {
            let pr = prev.unwrap();
            let why = if a.stream.truths.get(pr.req_index.unwrap_or(usize::MAX)).map(|t| t.method == "HEAD").unwrap_or(false) {
                "head"
            } else {
                "bodiless-status"
            };
            v.push(viol(P, "c", &format!("body-bytes-after-{}:{}", why, pr.status),
                format!("response {} (status {}) must not have a body, but bytes follow its head that are not a response: {} at offset {}", pr.req_index.unwrap_or(0), pr.status, what, off)));
        } else {
            v.push(viol(P, "a", "unparseable-output", format!("response stream is not a sequence of HTTP messages: {} at offset {}", what, off)));
        }
    }

    // (a) one final response per dispatched request, in request order, never interleaved
    for (j, r) in finals.iter().enumerate() {
        match a.dispatched.get(j) {
            None => {
                v.push(viol(P, "a", "response-without-request", format!("final response #{j} (status {}) has no dispatched request", r.status)));
            }
            Some(d) => {
                if let Some(t) = r.tag() {
                    if t != d.handler {
                        v.push(viol(P, "a", "response-order", format!("final response #{j} carries tag h{t} but request #{j} was handled by h{}", d.handler)));
                    }
                } else if !sc.programs.get(d.handler).map(|p| p.fail).unwrap_or(false) {
                    v.push(viol(P, "a", "untagged-response", format!("final response #{j} (status {}) was not produced by the handler of request #{j}", r.status)));
                }
            }
        }
    }
    // 100 Continue only before the response of a request that carried Expect
    {
        let mut next_final = 0usize;
        for r in &a.parsed.responses {
            if r.interim {
                let ok = a.stream.truths.get(next_final).map(|t| t.expect).unwrap_or(false);
                if !ok {
                    v.push(viol(P, "a", "unexpected-100-continue", format!("interim {} written before the response to request #{next_final}, which did not send Expect", r.status)));
                }
            } else {
                next_final += 1;
            }
        }
    }
    // exactly one: when the connection ended cleanly, nothing may be missing
    let body_problem: Vec<bool> = sc
        .programs
        .iter()
        .map(|p| {
            let (prod, err) = p.body.produced();
            err || matches!(p.body.declared(), SizeDecl::Sized(n) if (prod.len() as u64) < n)
        })
        .collect();
    let any_body_problem = a.dispatched.iter().any(|d| body_problem.get(d.handler).copied().unwrap_or(false));
    if matches!(ex.done, Some(Ok(()))) && !faulted && !any_body_problem && !ex.horizon_hit && a.parsed.garbage.is_none() {
        let complete_finals = finals.iter().filter(|r| r.complete).count();
        if complete_finals < a.dispatched.len() {
            // which request lost its response
            let missing = complete_finals;
            let why = classify_missing(sc, a, missing);
            v.push(viol(P, "a", &format!("missing-response:{why}"), format!(
                "connection ended cleanly but request #{missing} (handler h{}) was dispatched and got no complete response ({} dispatched, {} complete final responses)",
                a.dispatched[missing].handler, a.dispatched.len(), complete_finals)));
        }
    }

    // (e) a failed / short body terminates the connection: the server ends it on its own, it does
    // not keep it open until the peer goes away (self-delimited framings only; a close-delimited
    // body ends with the connection anyway)
    if !faulted && a.parsed.garbage.is_none() {
        for (j, d) in a.dispatched.iter().enumerate() {
            if !body_problem.get(d.handler).copied().unwrap_or(false) {
                continue;
            }
            let Some(r) = finals.get(j) else { continue };
            let truth = &a.stream.truths[d.handler.min(a.stream.truths.len() - 1)];
            let prog = &sc.programs[d.handler];
            let no_body_rule = truth.method == "HEAD" || prog.status == 204 || prog.status == 304;
            if no_body_rule || r.framing == RFraming::Close || r.tag() != Some(d.handler) {
                continue;
            }
            if ex.fin_delivered || ex.done.is_none() {
                let kind = if prog.body.produced().1 { "body-error" } else { "short-body" };
                v.push(viol(P, "e", &format!("connection-not-terminated-after-{kind}:{}", framing_name_kind(&r.framing)), format!(
                    "the body of response #{j} (h{}) {} but the server kept the connection open (it ended only after the peer closed: {}, connection result {:?})",
                    d.handler, if kind == "body-error" { "failed" } else { "ended before its declared size" }, ex.fin_delivered, ex.done)));
            }
            break;
        }
    }

    for (j, r) in finals.iter().enumerate() {
        let Some(d) = a.dispatched.get(j) else { continue };
        let Some(prog) = sc.programs.get(d.handler) else { continue };
        if r.tag() != Some(d.handler) {
            continue;
        }
        let truth = &a.stream.truths[d.handler.min(a.stream.truths.len() - 1)];
        let (produced, errs) = prog.body.produced();
        let declared = prog.body.declared();
        let no_body_rule = truth.method == "HEAD" || prog.status == 204 || prog.status == 304 || (100..200).contains(&prog.status);

        // (d) body faithful
        if !no_body_rule && r.complete {
            let expected: Option<Vec<u8>> = match &declared {
                SizeDecl::Sized(n) => {
                    if (produced.len() as u64) >= *n {
                        Some(produced[..*n as usize].to_vec())
                    } else {
                        None
                    }
                }
                SizeDecl::None => Some(vec![]),
                SizeDecl::Stream => {
                    if errs {
                        None
                    } else {
                        Some(produced.clone())
                    }
                }
            };
            match expected {
                Some(exp) => {
                    if r.body != exp {
                        let kind = if has_empty_chunk(&prog.body) && r.body.len() < exp.len() {
                            "truncated-after-empty-chunk"
                        } else if r.body.len() < exp.len() {
                            "truncated"
                        } else if r.body.len() > exp.len() {
                            "too-long"
                        } else {
                            "different"
                        };
                        v.push(viol(P, "d", &format!("body-{kind}:{}", framing_name_kind(&r.framing)), format!(
                            "response #{j} (h{}) decodes to {:?} but the handler's body produced {:?} (declared {:?})",
                            d.handler, mc_core::show_short(&r.body, 60), mc_core::show_short(&exp, 60), declared)));
                    }
                }
                None => {
                    // (e) body failed or ended short but a complete-looking message was emitted
                    if r.framing != RFraming::Close {
                        let kind = if errs { "body-error" } else { "short-body" };
                        v.push(viol(P, "e", &format!("complete-looking-after-{kind}:{}", framing_name_kind(&r.framing)), format!(
                            "response #{j} (h{}) looks complete ({}) although its body {}",
                            d.handler, framing_name(&r.framing),
                            if errs { "failed" } else { "ended before the declared size" })));
                    }
                }
            }
        }
        // (e) nothing after a failed body
        if !no_body_rule && (errs || matches!(&declared, SizeDecl::Sized(n) if (produced.len() as u64) < *n)) {
            if finals.len() > j + 1 {
                v.push(viol(P, "e", "response-after-failed-body", format!("response #{j} (h{}) had a failing/short body but response #{} follows on the same connection", d.handler, j + 1)));
            }
        }

        // (c) no body for HEAD / 1xx / 204 / 304 — garbage after the head is reported above; a
        // trailing non-message is reported here
        if no_body_rule && j + 1 == finals.len() && a.parsed.garbage.is_none() {
            let rest = &ex.io.out[r.end..];
            if !rest.is_empty() && !rest.starts_with(b"HTTP/1.") {
                let why = if truth.method == "HEAD" { "head" } else { "bodiless-status" };
                v.push(viol(P, "c", &format!("body-bytes-after-{}:{}", why, r.status), format!(
                    "response #{j} (status {}, request {}) must not have a body but is followed by {:?}", r.status, truth.method, mc_core::show_short(rest, 40))));
            }
        }

        // (b) context independence: same as alone on a fresh connection
        if sc.requests.len() > 1 && r.complete {
            let al = alone(sc, d.handler);
            if let Some(ar) = &al.resp {
                if ar.complete {
                    let skip_conn = !(matches!(prog.payload, PayloadPlan::ReadAllThenRespond) || !truth.has_body);
                    let mut diffs: Vec<String> = vec![];
                    if ar.status != r.status {
                        diffs.push("status".into());
                    }
                    if ar.version != r.version {
                        diffs.push("version".into());
                    }
                    if framing_name(&ar.framing) != framing_name(&r.framing) {
                        diffs.push("framing".into());
                    }
                    if ar.body != r.body {
                        diffs.push("body".into());
                    }
                    let (h1, h2) = (headers_cmp(ar, true), headers_cmp(r, true));
                    if h1 != h2 {
                        diffs.push("headers".into());
                    }
                    if !skip_conn {
                        let c1: Vec<String> = ar.header("connection").iter().map(|s| s.to_ascii_lowercase()).collect();
                        let c2: Vec<String> = r.header("connection").iter().map(|s| s.to_ascii_lowercase()).collect();
                        if c1 != c2 {
                            diffs.push("connection-header".into());
                        }
                    }
                    if !diffs.is_empty() {
                        v.push(viol(P, "b", &format!("context-dependent:{}", diffs.join("+")), format!(
                            "response #{j} (h{}, request {} HTTP/1.{}) differs from the response the same request+handler gets alone on a fresh connection in {:?}: alone = {} {} HTTP/1.{} {:?} body {:?}; here = {} {} HTTP/1.{} {:?} body {:?}",
                            d.handler, truth.method, truth.version, diffs,
                            ar.status, framing_name(&ar.framing), ar.version, ar.header("connection"), mc_core::show_short(&ar.body, 30),
                            r.status, framing_name(&r.framing), r.version, r.header("connection"), mc_core::show_short(&r.body, 30))));
                    }
                }
            }
        }
    }
    let _ = Event::Env { what: String::new(), now_ms: 0 };
    v
}

fn framing_name_kind(f: &RFraming) -> &'static str {
    match f {
        RFraming::NoBody => "no-body",
        RFraming::Cl(_) => "content-length",
        RFraming::Chunked => "chunked",
        RFraming::Close => "close-delimited",
    }
}

fn has_empty_chunk(b: &BodySpec) -> bool {
    match b {
        BodySpec::SizedStream(_, c) | BodySpec::BodyStream(c) | BodySpec::Custom(_, c) => c.contains(&Chunk::Empty),
        _ => false,
    }
}

fn classify_missing(sc: &Scenario, a: &Analysis, missing: usize) -> &'static str {
    // did an earlier response announce close?
    let finals = a.finals();
    if finals.iter().take(missing).any(|r| r.says_close()) {
        return "after-close-announced";
    }
    if finals.iter().take(missing).any(|r| r.version == 0 && !r.says_keep_alive()) {
        return "after-http10-response";
    }
    let _ = sc;
    "other"
}

// ---------------------------------------------------------------------------------------------
// scenarios

fn req_menu() -> Vec<(&'static str, RequestSpec)> {
    vec![
        ("GET11", RequestSpec::new("GET", 0)),
        ("HEAD11", RequestSpec::new("HEAD", 0)),
        ("POST11cl", RequestSpec::new("POST", 0).cl(b"01234")),
        ("GET10", RequestSpec::new("GET", 0).v10()),
        ("GET10ka", RequestSpec::new("GET", 0).v10().conn("keep-alive")),
        ("GET11close", RequestSpec::new("GET", 0).conn("close")),
        ("POST11expect", RequestSpec::new("POST", 0).cl(b"01234").expect()),
        ("HEAD10ka", RequestSpec::new("HEAD", 0).v10().conn("keep-alive")),
        ("POST11chunked", RequestSpec::new("POST", 0).chunked(vec![ChunkSpec::plain(b"012"), ChunkSpec::plain(b"34")])),
    ]
}

fn d(b: &[u8]) -> Chunk {
    Chunk::Data(b.to_vec())
}

fn prog_menu() -> Vec<(&'static str, HandlerProgram)> {
    vec![
        ("bytes", HandlerProgram::ok(BodySpec::Bytes(b"hello".to_vec()))),
        ("empty", HandlerProgram::ok(BodySpec::Empty)),
        ("str404", HandlerProgram::ok(BodySpec::Str("nope".into())).status(404)),
        ("204body", HandlerProgram::ok(BodySpec::Bytes(b"BODY!".to_vec())).status(204)),
        ("304body", HandlerProgram::ok(BodySpec::Str("BODY!".into())).status(304)),
        ("204stream", HandlerProgram::ok(BodySpec::BodyStream(vec![d(b"BO"), d(b"DY")])).status(204)),
        ("sized", HandlerProgram::ok(BodySpec::SizedStream(5, vec![d(b"he"), d(b"llo")]))),
        ("stream", HandlerProgram::ok(BodySpec::BodyStream(vec![d(b"he"), d(b"llo")]))),
        ("streamPend", HandlerProgram::ok(BodySpec::BodyStream(vec![d(b"he"), Chunk::Pending, d(b"llo")]))),
        ("customEmptyChunk", HandlerProgram::ok(BodySpec::Custom(SizeDecl::Stream, vec![d(b"aa"), Chunk::Empty, d(b"bb")]))),
        ("streamEmptyChunk", HandlerProgram::ok(BodySpec::BodyStream(vec![d(b"aa"), Chunk::Empty, d(b"bb")]))),
        ("customShort", HandlerProgram::ok(BodySpec::Custom(SizeDecl::Sized(5), vec![d(b"ab")]))),
        ("customLong", HandlerProgram::ok(BodySpec::Custom(SizeDecl::Sized(3), vec![d(b"abc"), d(b"def")]))),
        ("customLongMid", HandlerProgram::ok(BodySpec::Custom(SizeDecl::Sized(4), vec![d(b"abc"), d(b"def")]))),
        ("sizedLongMid", HandlerProgram::ok(BodySpec::SizedStream(4, vec![d(b"abc"), d(b"def")]))),
        ("streamErr", HandlerProgram::ok(BodySpec::BodyStream(vec![d(b"ab"), Chunk::Err]))),
        ("sizedErr", HandlerProgram::ok(BodySpec::SizedStream(4, vec![d(b"ab"), Chunk::Err]))),
        ("customNone", HandlerProgram::ok(BodySpec::Custom(SizeDecl::None, vec![]))),
        ("userCL", HandlerProgram::ok(BodySpec::Bytes(b"hello".to_vec())).header("content-length", "99")),
        ("userTE", HandlerProgram::ok(BodySpec::Bytes(b"hello".to_vec())).header("transfer-encoding", "chunked")),
        ("userClose", HandlerProgram::ok(BodySpec::Bytes(b"hello".to_vec())).header("connection", "close")),
        ("userCLstream", HandlerProgram::ok(BodySpec::BodyStream(vec![d(b"hello")])).header("content-length", "5")),
        ("streamNoChunking", HandlerProgram::ok(BodySpec::BodyStream(vec![d(b"he"), d(b"llo")])).no_chunking(5)),
        ("customStreamNoChunking", HandlerProgram::ok(BodySpec::Custom(SizeDecl::Stream, vec![d(b"he"), Chunk::Pending, d(b"llo")])).no_chunking(5)),
    ]
}

pub fn scenarios(tier: &str) -> Vec<Scenario> {
    let reqs = req_menu();
    let progs = prog_menu();
    let mut out = vec![];
    let mk = |name: String, rs: Vec<RequestSpec>, ps: Vec<HandlerProgram>| {
        let rs: Vec<RequestSpec> = rs.into_iter().enumerate().map(|(i, mut r)| {
            r.handler = i;
            r
        }).collect();
        let mut s = Scenario::new(&name, rs, ps);
        s.env.budgets = vec![("read", 80), ("write", 80), ("flush", 60), ("env", 200), ("envq", 60), ("shutdown", 20)];
        s
    };
    // singles: every request kind x every program
    for (rn, r) in &reqs {
        for (pn, p) in &progs {
            out.push(mk(format!("1:{rn}/{pn}"), vec![r.clone()], vec![p.clone()]));
        }
    }
    // pairs: the first handler is pending when the second head is decoded
    let first_reqs = ["GET11", "HEAD11", "POST11cl", "GET10ka", "GET11close", "POST11expect"];
    let first_progs = ["bytes", "stream", "204body", "customEmptyChunk", "customShort", "streamErr", "customLongMid", "streamNoChunking"];
    let second_reqs = ["GET11", "HEAD11", "POST11cl", "GET10", "GET10ka", "GET11close", "HEAD10ka"];
    let second_progs = ["bytes", "stream", "empty", "streamErr", "204body"];
    let get = |n: &str| reqs.iter().find(|(k, _)| *k == n).unwrap().1.clone();
    let getp = |n: &str| progs.iter().find(|(k, _)| *k == n).unwrap().1.clone();
    for fr in first_reqs {
        for fp in first_progs {
            for sr in second_reqs {
                for sp in second_progs {
                    for pend in [1u8, 0u8] {
                        if pend == 0 && !(fp == "bytes" && sp == "bytes") {
                            continue;
                        }
                        out.push(mk(
                            format!("2:{fr}/{fp}/p{pend}+{sr}/{sp}"),
                            vec![get(fr), get(sr)],
                            vec![getp(fp).pend(pend), getp(sp)],
                        ));
                    }
                }
            }
        }
    }
    // triples
    let triples: Vec<[(&str, &str, u8); 3]> = vec![
        [("GET11", "bytes", 1), ("HEAD11", "bytes", 0), ("GET11", "stream", 0)],
        [("HEAD11", "bytes", 1), ("GET11", "stream", 1), ("POST11cl", "bytes", 0)],
        [("GET11", "stream", 1), ("GET10ka", "bytes", 0), ("GET11", "bytes", 0)],
        [("POST11cl", "bytes", 1), ("POST11chunked", "stream", 1), ("HEAD11", "sized", 0)],
        [("GET11", "streamPend", 0), ("GET11", "bytes", 0), ("GET11close", "bytes", 0)],
        [("POST11expect", "bytes", 0), ("POST11expect", "stream", 1), ("GET11", "empty", 0)],
        [("GET11", "204body", 1), ("GET11", "304body", 0), ("GET11", "bytes", 0)],
        [("GET11", "customLong", 0), ("GET11", "bytes", 1), ("HEAD11", "customLong", 0)],
    ];
    for (i, t) in triples.iter().enumerate() {
        out.push(mk(
            format!("3:{i}:{}", t.iter().map(|x| format!("{}/{}/p{}", x.0, x.1, x.2)).collect::<Vec<_>>().join("+")),
            t.iter().map(|x| get(x.0)).collect(),
            t.iter().map(|x| getp(x.1).pend(x.2)).collect(),
        ));
    }
    let _ = tier;
    out
}

pub fn bound(sc: &Scenario, tier: &str) -> u32 {
    if tier == "thorough" {
        4
    } else {
        2
    }
}

/// non-trivial: a pipelined request was dispatched while an earlier response was not yet fully
/// written, or a body was split over several chunks / writes
pub fn nontrivial(ex: &Exec, a: &Analysis) -> bool {
    if a.dispatched.len() >= 2 {
        let finals = a.finals();
        for (j, d) in a.dispatched.iter().enumerate().skip(1) {
            if let Some(prev) = finals.get(j - 1) {
                if d.out_len < prev.end {
                    return true;
                }
            } else {
                return true;
            }
        }
    }
    ex.io.writes.len() > 1
}
