#![allow(unexpected_cfgs)]
#![allow(dead_code)]
//! h1x — real HTTP/1 connection under a scripted socket, scripted handlers/bodies and virtual time.
//! Serves C01–C06 (DESIGN.md §3, Appendix A).

mod analysis;
mod c01;
mod c02;
mod c03;
mod c04;
mod c05;
mod c06;
mod driver;
mod respparse;
mod scenario;

use analysis::Analysis;
use mc_core::explore::{self, Cfg, Outcome};
use mc_core::report::{Evidence, Reporter};
use mc_core::{Chooser, Violation};
use serde_json::json;
use std::time::{Duration, Instant};

pub fn viol(property: &str, clause: &str, signature: &str, what: String) -> Violation {
    Violation {
        property: property.into(),
        clause: clause.into(),
        signature: signature.into(),
        what,
        replay: serde_json::Value::Null,
        weight: 0,
    }
}

struct Job {
    prop: String,
    sc: scenario::Scenario,
}

impl explore::Scenario for Job {
    fn name(&self) -> String {
        self.sc.name.clone()
    }
    fn describe(&self) -> serde_json::Value {
        let st = self.sc.stream();
        json!({
            "config": self.sc.config,
            "request_stream": mc_core::show_short(&st.bytes, 400),
            "programs": self.sc.programs,
            "fin": self.sc.fin,
        })
    }
    fn run(&self, ch: &mut Chooser) -> Outcome {
        let ex = driver::run(&self.sc, ch);
        let a = Analysis::new(&self.sc, &ex);
        let mut violations = match self.prop.as_str() {
            "C01" => c01::check(&self.sc, &ex, &a),
            "C02" => c02::check(&self.sc, &ex, &a),
            "C03" => c03::check(&self.sc, &ex, &a),
            "C04" => c04::check(&self.sc, &ex, &a),
            "C05" => c05::check(&self.sc, &ex, &a),
            "C06" => c06::check(&self.sc, &ex, &a),
            _ => vec![],
        };
        if ex.horizon_hit {
            violations.push(viol(&self.prop, "horizon", "step-horizon", format!("execution did not end within {} driver steps", driver::MAX_STEPS)));
        }
        let nontrivial = match self.prop.as_str() {
            "C01" => c01::nontrivial(&ex, &a),
            "C02" => c02::nontrivial(&ex, &a),
            "C03" => c03::nontrivial(&ex, &a),
            "C04" => c04::nontrivial(&ex, &a),
            "C05" => c05::nontrivial(&ex, &a),
            "C06" => c06::nontrivial(&ex, &a),
            _ => false,
        };
        let sample = if ch.prefix_len() == 0 {
            Some(json!({
                "scenario": self.sc.name,
                "request_stream": mc_core::show_short(&a.stream.bytes, 200),
                "response_stream": mc_core::show_short(&a.out_masked, 300),
                "dispatched": a.dispatched.iter().map(|d| format!("{} {} h{}", d.method, d.target, d.handler)).collect::<Vec<_>>(),
                "choice_points": ch.trace.len(),
            }))
        } else {
            None
        };
        Outcome { violations, class: analysis::class_of(&ex, &a), nontrivial, sample }
    }
}

fn print_replay(job: &Job, picks_json: &serde_json::Value) -> i32 {
    let (o, trace) = explore::replay(std::slice::from_ref(job), picks_json);
    println!("scenario {}", job.sc.name);
    println!("choices:");
    for (i, p) in trace.iter().enumerate() {
        if p.pick != 0 {
            println!("  #{i} {} -> option {} of {}", p.kind, p.pick, p.n);
        }
    }
    // re-run to print the observation
    let mut ch = Chooser::new(trace.iter().map(|p| p.pick).collect());
    let ex = driver::run(&job.sc, &mut ch);
    let a = Analysis::new(&job.sc, &ex);
    println!("request stream : {}", mc_core::show(&a.stream.bytes));
    println!("response stream: {}", mc_core::show(&a.out_masked));
    println!("connection result: {:?}, shutdown_done={}, dropped={}", ex.done, ex.io.shutdown_done, ex.io.dropped);
    println!("log:");
    for e in &ex.log {
        println!("  {:?}", e);
    }
    if o.violations.is_empty() {
        println!("no violation on this case");
        0
    } else {
        for v in &o.violations {
            println!("VIOLATION property={} clause={} signature={}\n  {}", v.property, v.clause, v.signature, v.what);
        }
        1
    }
}

fn main() {
    let args = mc_core::cli::parse();
    let prop = args.property.clone();
    let tier = args.tier.clone();
    let start = Instant::now();
    let (scenarios, bounds, level, rule, assumptions): (Vec<scenario::Scenario>, Vec<u32>, &str, &str, Vec<&str>) = match prop.as_str() {
        "C01" => {
            let s = c01::scenarios(&tier);
            let b = s.iter().map(|x| c01::bound(x, &tier)).collect();
            (s, b, "model_checking",
             "level 1: for every pipelined stream of the grammar (<= 3 messages; framings none / Content-Length / chunked with extensions, LWS, upper-case hex; 17 malformed classes at every position) an explicit-state BFS over 'feed the next k bytes to the real h1::Codec and decode until None/Err' with states merged by (bytes fed, codec snapshot, leftover, emitted digest) reaches every state any segmentation can reach, each transition judged against RFC 7230 ground truth, plus an un-merged enumeration of all <= 2-cut and the all-1-byte segmentations; level 2: the same streams through the real connection with a recording service (one that propagates body errors, one that never reads) under <= d deviations; non-trivial = a body was delivered, a malformed message was present, or more than one request was dispatched",
             vec!["Date header values are masked", "decoding stops at the first codec error (as the dispatcher does)", "hook Codec::verif_snapshot feeds the BFS state key only; the un-merged twin does not use it", "clause (c) requires a 4xx only when no response to that request had been started"])
        }
        "C02" => {
            let s = c02::scenarios(&tier);
            let b = s.iter().map(|x| c02::bound(x, &tier)).collect();
            (s, b, "exploration",
             "scenario = config x pipelined request mix x handler programs; every execution with <= d non-default environment answers (read cut/Pending, partial write, flush Pending, event order) is run on the real h1::Dispatcher; classes are distinct canonical observations (masked response bytes + dispatch/body log); non-trivial = a pipelined request was dispatched before the previous response was fully written, or the response was written in more than one socket write",
             vec!["Date header values are masked", "tokio LocalSet/timer internals are executed, not explored", "reference client parser implements RFC 7230 section 3.3.3"])
        }
        "C03" => {
            let s = c03::scenarios(&tier);
            let b = s.iter().map(|x| c03::bound(x, &tier)).collect();
            (s, b, "fault_enumeration",
             "scenario = config (keep-alive, linger, half-close) x pipelined requests whose bodies look like requests x handler payload plan (read none/first/all, drop early/late/never, respond early/late) x arrival pattern of the remaining body bytes (with head / later / split / never); every execution with <= d non-default environment answers is run on the real h1::Dispatcher; non-trivial = a body-bearing request was answered or a response announced close",
             vec!["Date header values are masked", "a response 'announces close' when it carries an explicit Connection: close header or is a dispatcher-generated 4xx", "tokio LocalSet/timer internals are executed, not explored"])
        }
        "C04" => {
            let s = c04::scenarios(&tier);
            let b = s.iter().map(|x| c04::bound(x, &tier)).collect();
            (s, b, "fault_enumeration",
             "scenario = request stream (incl. >128 KiB bodies and 9000 pipelined requests) x handler/body programs (pending counts, slow reader, dropping reader, large streamed bodies) x peer plan; every execution with <= d non-default answers - read Pending/k bytes/EOF/reset, write Pending/1/half, flush and shutdown Pending, order of handler/body releases, peer half-close at any event boundary - is run on the real h1::Dispatcher, polled only when its waker fired; at every quiescent point a wake-less poll must change nothing (lost-wake-up probe); non-trivial = more than one socket write, an injected fault, or more than one quiescent point",
             vec!["Date header values are masked", "handlers that hold a request payload forever are excluded (termination is not promised for them)", "a self-waking connection that makes no progress for 3 polls is de-prioritised (counted as spin)", "per-kind choice budgets bound the alternatives offered in very long executions (reported as executions_with_choice_budget_exhausted)"])
        }
        "C05" => {
            let s = c05::scenarios(&tier);
            let b = s.iter().map(|x| c05::bound(x, &tier)).collect();
            (s, b, "exploration",
             "scenario = a peer that never stops (1 MiB head without terminator, endless header lines, 2-8 MiB Content-Length and chunked bodies in 1-byte and 64 KiB chunks, 5000 pipelined requests) x consumer (handler never reads / reads one chunk per release / reads in another task / never completes) and huge response bodies (1 B / 4 KiB / 1 MiB chunks) x socket (accepts nothing, stalls after 5000 bytes, accepts) x h1_write_buffer_size in {1, 1024, 32768, 1 MiB}; every execution with <= d deviating socket/handler answers; gauges read-ahead (socket bytes taken - stream offset handed to the application) and write-behind (body bytes pulled - bytes accepted by the socket) are measured at every step; non-trivial = the peer offered more than the read-ahead bound or the body was pulled ahead of the socket",
             vec!["bounds are constants fixed in the harness and derived from the code's buffer constants (R_IN = 600 000; write: h1_write_buffer_size + largest chunk + 64)", "heap usage is not measured; the gauges are black-box byte counters", "heavy scenarios are explored at a lower deviation bound (see per-level counts)"])
        }
        "C06" => {
            let s = c06::scenarios(&tier);
            let b = s.iter().map(|x| c06::bound(x, &tier)).collect();
            (s, b, "exploration",
             "scenario = timer configuration (request timeout 0/1 s, keep-alive Disabled/2 s/Os, disconnect timeout 0/1 s, signal absent/present) x timed peer script on a 250 ms virtual-time grid (rest of the first head arriving before/at/after the deadline or never; second request arriving around the keep-alive deadline or never; sockets whose shutdown never completes after every way of entering shutdown; graceful-shutdown signal offered at every event boundary); every execution with <= d non-default answers (event order inside an instant, socket answers, signal position) on the real h1::Dispatcher under tokio's paused clock; non-trivial = virtual time advanced",
             vec!["tolerance TAU = 750 ms (one 500 ms date-service tick + one 250 ms grid step)", "'closed' = first poll_shutdown call or completion of the connection future", "tokio's paused clock and timer wheel are executed, not explored"])
        }
        other => {
            eprintln!("MACHINERY: h1x does not serve {other}");
            std::process::exit(2);
        }
    };
    // development aid: restrict the scenario set (recorded in the evidence when used)
    let only = std::env::var("H1X_ONLY").ok();
    let (scenarios, bounds): (Vec<_>, Vec<_>) = scenarios
        .into_iter()
        .zip(bounds)
        .filter(|(s, _)| only.as_ref().map(|o| s.name.contains(o.as_str())).unwrap_or(true))
        .unzip();
    if std::env::var("H1X_TIMING").is_ok() {
        for sc in &scenarios {
            let t = Instant::now();
            let mut ch = Chooser::new(vec![]);
            let ex = driver::run(sc, &mut ch);
            eprintln!("{:>8.2}s steps={:<8} points={:<4} {}", t.elapsed().as_secs_f64(), ex.steps, ch.trace.len(), sc.name);
        }
        return;
    }
    let jobs: Vec<Job> = scenarios.into_iter().map(|sc| Job { prop: prop.clone(), sc }).collect();
    if let Some(path) = &args.replay {
        let v = mc_core::report::read_replay(path);
        if prop == "C01" && v["replay"]["level"] == "codec" {
            std::process::exit(c01::replay_codec(&v["replay"]));
        }
        let name = v["replay"]["scenario"].as_str().unwrap_or("").to_string();
        let Some(job) = jobs.iter().find(|j| j.sc.name == name) else {
            eprintln!("MACHINERY: scenario {name} not in the scenario list of {prop}");
            std::process::exit(2);
        };
        std::process::exit(print_replay(job, &v["replay"]));
    }
    let wall = args.wall_s.unwrap_or(if tier == "quick" { 55 } else { 1500 });
    let cfg = Cfg { wall: Duration::from_secs(wall), threads: mc_core::cli::threads(), max_unknown: 100000 };
    let mut rep = Reporter::new(&prop);
    let mut l1 = None;
    if prop == "C01" {
        let (st, viols) = c01::level1(&tier, mc_core::cli::threads());
        rep.add_all(viols);
        l1 = Some(st);
    }
    let stats = explore::explore(&prop, &jobs, &bounds, &cfg, &mut rep);
    let mut ev = Evidence::new(&prop, &tier, level);
    stats.fill(&mut ev, rule);
    if let Some(st) = &l1 {
        ev.set("states", st.states);
        ev.set("transitions", st.transitions);
        ev.set("traces_validated_against_impl", st.transitions + st.twin_segmentations + stats.checked);
        ev.set("codec_level_streams", st.streams);
        ev.set("codec_level_unmerged_segmentations", st.twin_segmentations);
        ev.set("codec_level_max_states_per_stream", st.max_states_per_stream);
        ev.set("codec_level_sample", st.sample.clone());
        ev.set("explanation", "states/transitions are those of the codec-level BFS (every transition is an execution of the real h1::Codec, so all are validated against the implementation); evaluations/executions are the dispatcher-level explorations");
        eprintln!("C01 level 1: {} streams, {} states, {} transitions, {} un-merged segmentations", st.streams, st.states, st.transitions, st.twin_segmentations);
    }
    for a in assumptions {
        ev.assume(a);
    }
    ev.set("findings", serde_json::Value::Array(rep.summaries()));
    if let Some(o) = &only {
        ev.set("scenario_filter_H1X_ONLY", o.as_str());
    }
    ev.set("violating_executions", stats.violating_executions);
    ev.wall_s = start.elapsed().as_secs_f64();
    ev.violations = rep.unknown_count() as i64;
    ev.write();
    eprintln!(
        "{prop} {tier}: {} scenarios, {} executions checked ({} run), bound completed {} of {}, capped={}, {} classes ({} non-trivial), {:.1}s",
        stats.scenarios, stats.checked, stats.executions, stats.bound_completed, stats.max_bound_requested, stats.capped,
        stats.classes.len(), stats.nontrivial_classes.len(), ev.wall_s
    );
    std::process::exit(rep.finish());
}
