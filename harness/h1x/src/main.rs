fn main() {
    eprintln!("MACHINERY: engine h1x is not built yet");
    std::process::exit(2);
}
