//! C06 — connections are time-bounded: slow head, keep-alive, shutdown, drain.
//!
//! Virtual time on a 250 ms grid (tokio paused clock); the date service caches the clock with a
//! 500 ms tick, so every deadline carries a tolerance TAU = one tick + one grid step.

use crate::analysis::Analysis;
use crate::driver::{Event, Exec};
use crate::scenario::*;
use crate::viol;
use mc_core::Violation;

const P: &str = "C06";
pub const TAU: u64 = 750;

fn stamp_of_offset(ex: &Exec, off: usize) -> Option<u64> {
    ex.io.writes.iter().find(|(o, l, _)| *o <= off && off < o + l).map(|w| w.2)
}

pub fn check(sc: &Scenario, ex: &Exec, a: &Analysis) -> Vec<Violation> {
    let mut v = vec![];
    let finals = a.finals();
    let kind = sc.name.split(':').next().unwrap_or("");
    let rt = sc.config.request_timeout_ms;
    let dt = sc.config.disconnect_timeout_ms;

    // (a) slow first head
    if kind == "head" {
        // when did the first head become complete at the socket?
        let head_end = a.stream.spans.first().map(|s| s.1).unwrap_or(usize::MAX);
        let mut arrived = 0usize;
        let mut head_complete_at: Option<u64> = None;
        let segs = if sc.segments.is_empty() { vec![Segment { when: When::Start, from: 0, to: a.stream.bytes.len() }] } else { sc.segments.clone() };
        for s in &segs {
            let t = match s.when {
                When::Start => Some(0),
                When::At(t) => Some(t),
                When::Quiescent => None,
            };
            arrived = s.to;
            if arrived >= head_end {
                head_complete_at = t;
                break;
            }
        }
        // arrival events may have been delivered later than planned by the explorer: use the log
        let mut seen = 0usize;
        for e in &ex.log {
            if let Event::Env { what, now_ms } = e {
                if let Some(rest) = what.strip_prefix("arrive ") {
                    let to: usize = rest.split("..").nth(1).and_then(|x| x.parse().ok()).unwrap_or(0);
                    seen = seen.max(to);
                    if seen >= head_end {
                        head_complete_at = Some(*now_ms);
                        break;
                    }
                }
            }
        }
        let first = finals.first();
        let is408 = first.map(|r| r.status == 408).unwrap_or(false);
        if rt == 0 {
            if is408 {
                v.push(viol(P, "a", "408-with-timeout-disabled", "a 408 was written although the client request timeout is disabled".into()));
            }
        } else {
            match head_complete_at {
                Some(t) if t + TAU <= rt => {
                    // completed in time: must be served, and the timeout no longer applies
                    if finals.iter().any(|r| r.status == 408) && !is408 {
                        v.push(viol(P, "a", "408-after-first-request-served", format!("the first head was complete at {t} ms (timeout {rt} ms) and served, but a 408 was written later")));
                    }
                    if is408 || a.dispatched.is_empty() {
                        v.push(viol(P, "a", "in-time-head-not-served", format!("the first head was complete at {t} ms (timeout {rt} ms) but the request was not served (first response {:?}, {} dispatched)", first.map(|r| r.status), a.dispatched.len())));
                    }
                }
                Some(t) if t <= rt + TAU => {} // inside the tolerance: either outcome
                _ => {
                    // not complete by the deadline: 408 and closed by deadline + TAU
                    // a peer that does not take the 408 before the disconnect timeout ends the
                    // connection cannot receive it; like every deadline that one carries the
                    // date-tick tolerance (it may fire up to TAU early)
                    let gave_up_on_unwritable_peer = dt > 0
                        && matches!(&ex.done, Some(Err(e)) if e.contains("shutdown timeout"))
                        && ex.done_at_ms.map_or(false, |d| d + TAU >= rt + dt)
                        && first.map_or(true, |r| !r.complete);
                    if gave_up_on_unwritable_peer {
                        // (nothing, or only a part of the 408, could be written before the
                        // disconnect timeout ended the connection)
                    } else if !is408 {
                        v.push(viol(P, "a", "slow-head-no-408", format!("the first head was not complete at the deadline ({rt} ms; complete at {:?}) but the first response is {:?}", head_complete_at, first.map(|r| r.status))));
                    } else {
                        let at = stamp_of_offset(ex, first.unwrap().start).unwrap_or(u64::MAX);
                        if at > rt + TAU {
                            v.push(viol(P, "a", "408-late", format!("408 written at {at} ms, deadline {rt} ms (+{TAU} tolerance)")));
                        }
                        if !a.dispatched.is_empty() {
                            v.push(viol(P, "a", "request-served-after-408", "a request was dispatched although the connection had timed out with 408".into()));
                        }
                    }
                    match ex.done_at_ms {
                        Some(t) if t <= rt + TAU + if dt > 0 { dt + TAU } else { 0 } => {}
                        other => {
                            if !sc.env.shutdown_never {
                                v.push(viol(P, "a", "not-closed-after-408", format!("connection finished at {:?} ms; the request deadline was {rt} ms", other)));
                            }
                        }
                    }
                }
            }
        }
    }

    // (b) idle keep-alive
    if kind == "ka" && finals.iter().any(|r| r.status == 408) {
        v.push(viol(P, "a", "408-after-first-request-served", "a 408 was written on a connection whose first request had been received and served in time".into()));
    }
    if kind == "ka" {
        if let Ka::Timeout(ka) = sc.config.keep_alive {
            // idle since the first response was written
            let idle_from = finals.first().and_then(|r| stamp_of_offset(ex, r.end.saturating_sub(1))).unwrap_or(0);
            // second request: when did it arrive
            let end0 = a.stream.spans.first().map(|s| s.2).unwrap_or(0);
            let second_at = ex.log.iter().find_map(|e| match e {
                Event::Env { what, now_ms } if what.starts_with("arrive ") => {
                    let from: usize = what["arrive ".len()..].split("..").next().and_then(|x| x.parse().ok()).unwrap_or(0);
                    (from >= end0).then_some(*now_ms)
                }
                _ => None,
            });
            // idleness starts when the first exchange is over: response written and request body received
            let body_done_at = ex.log.iter().filter_map(|e| match e {
                Event::Env { what, now_ms } if what.starts_with("arrive ") => {
                    let from: usize = what["arrive ".len()..].split("..").next().and_then(|x| x.parse().ok()).unwrap_or(0);
                    (from < end0).then_some(*now_ms)
                }
                _ => None,
            }).max().unwrap_or(0);
            let idle_from = idle_from.max(body_done_at);
            let closed_at = ex.io.shutdown_first_stamp.or(ex.done_at_ms);
            match second_at {
                Some(t) if t + TAU <= idle_from + ka => {
                    if a.dispatched.len() < 2 || finals.len() < 2 {
                        v.push(viol(P, "b", "in-time-request-not-served", format!("second request arrived at {t} ms, keep-alive {ka} ms from {idle_from} ms, but it was not served ({} dispatched, closed at {:?})", a.dispatched.len(), closed_at)));
                    }
                }
                Some(t) if t <= idle_from + ka + TAU => {}
                _ => {
                    // never arrived (or too late): closed within [ka - TAU, ka + TAU] of idleness
                    match closed_at {
                        Some(c) => {
                            if c + TAU < idle_from + ka {
                                v.push(viol(P, "b", "keep-alive-closed-early", format!("idle from {idle_from} ms with keep-alive {ka} ms but closed at {c} ms")));
                            }
                            if c > idle_from + ka + TAU {
                                v.push(viol(P, "b", "keep-alive-closed-late", format!("idle from {idle_from} ms with keep-alive {ka} ms but closed only at {c} ms")));
                            }
                        }
                        None => v.push(viol(P, "b", "keep-alive-never-closed", format!("idle from {idle_from} ms with keep-alive {ka} ms; still open at {} ms", ex.now_ms))),
                    }
                }
            }
        }
    }

    // (c) shutdown never outlasts the disconnect timeout
    if dt > 0 {
        if let Some(s0) = ex.io.shutdown_first_stamp {
            match ex.done_at_ms {
                Some(d) if d <= s0 + dt + TAU => {}
                other => {
                    if ex.now_ms >= s0 + dt + TAU {
                        v.push(viol(P, "c", &format!("shutdown-outlasts-disconnect-timeout:{}", shutdown_reason(sc, ex, a)), format!(
                            "socket shutdown started at {s0} ms with client_disconnect_timeout {dt} ms, but the connection future finished at {:?} (virtual time now {} ms)", other, ex.now_ms)));
                    }
                }
            }
        }
    }

    if dt > 0 {
        if let Some(by) = sc.name.split("/by").nth(1).and_then(|x| x.split('/').next()).and_then(|x| x.parse::<u64>().ok()) {
            let limit = by + dt + TAU;
            match ex.done_at_ms {
                Some(d) if d <= limit => {}
                other => {
                    if ex.now_ms >= limit {
                        v.push(viol(P, "c", &format!("shutdown-outlasts-disconnect-timeout:unflushed-bytes:{}", shutdown_reason(sc, ex, a)), format!(
                            "shutdown had begun by {by} ms with response bytes the peer does not read; client_disconnect_timeout is {dt} ms but the connection future finished at {:?} (virtual time now {} ms)", other, ex.now_ms)));
                    }
                }
            }
        }
    }

    // (d) graceful shutdown
    if let Some((sig_ms, sig_log)) = ex.signal_fired_at {
        // nothing is started after the signal
        if let Some(d) = a.dispatched.iter().find(|d| d.log_index > sig_log) {
            v.push(viol(P, "d", "request-started-after-shutdown-signal", format!("request #{} ({} {}) was dispatched after the graceful-shutdown signal (fired at {sig_ms} ms)", d.n, d.method, d.target)));
        }
        // the in-flight request is still answered, with Connection: close
        let in_flight: Vec<&crate::analysis::Dispatched> = a.dispatched.iter().filter(|d| d.log_index < sig_log).collect();
        if let Some(last) = in_flight.last() {
            let j = last.n;
            let responded_before = ex.log.iter().take(sig_log).any(|e| matches!(e, Event::Responded { handler, .. } if *handler == last.handler));
            match finals.get(j) {
                Some(r) if r.complete => {
                    if !responded_before && !r.says_close() && r.version == 1 {
                        v.push(viol(P, "d", "in-flight-response-without-close", format!("request #{j} was in flight when the signal fired; its response (status {}) does not announce Connection: close", r.status)));
                    }
                }
                _ => {
                    // (a peer that has stopped reading cannot be answered: the disconnect timeout
                    // rightly ends such a connection)
                    if ex.io.fault.is_none() && !ex.fin_delivered && sc.env.stall_writes_after.is_none() {
                        v.push(viol(P, "d", "in-flight-request-not-answered", format!("request #{j} was in flight when the signal fired at {sig_ms} ms but has no complete response ({} final responses, connection result {:?})", finals.len(), ex.done)));
                    }
                }
            }
        }
        // and the connection ends
        if ex.done.is_none() && !sc.env.shutdown_never {
            v.push(viol(P, "d", "not-closed-after-drain", format!("graceful-shutdown signal fired at {sig_ms} ms but the connection is still open at {} ms", ex.now_ms)));
        }
    }
    v
}

fn shutdown_reason(sc: &Scenario, ex: &Exec, a: &Analysis) -> &'static str {
    if ex.signal_fired_at.is_some() {
        "drain"
    } else if a.finals().iter().any(|r| r.status == 408) {
        "408"
    } else if a.finals().iter().any(|r| r.tag().is_none() && (400..500).contains(&r.status)) {
        "parse-error"
    } else if a.finals().iter().any(|r| r.says_close()) {
        "close-response"
    } else if matches!(sc.config.keep_alive, Ka::Timeout(_)) && sc.name.starts_with("ka") {
        "keep-alive-expiry"
    } else if ex.fin_delivered {
        "peer-fin"
    } else {
        "other"
    }
}

pub fn nontrivial(ex: &Exec, _a: &Analysis) -> bool {
    ex.now_ms > 0
}

pub fn scenarios(_tier: &str) -> Vec<Scenario> {
    let mut out = vec![];
    let budgets = vec![("read", 40), ("write", 40), ("flush", 40), ("env", 200), ("envq", 120), ("shutdown", 20)];
    let ok = || HandlerProgram::ok(BodySpec::Bytes(b"ok".to_vec()));
    let mk = |name: String, reqs: Vec<RequestSpec>, progs: Vec<HandlerProgram>| {
        let reqs: Vec<RequestSpec> = reqs.into_iter().enumerate().map(|(i, mut r)| {
            r.handler = i;
            r
        }).collect();
        let mut s = Scenario::new(&name, reqs, progs);
        s.env.budgets = budgets.clone();
        s.env.horizon_ms = 6000;
        s.fin = FinPlan::Never;
        s
    };
    // (a) slow first head
    for rt in [0u64, 1000] {
        for dt in [0u64, 1000] {
            for second_at in [Some(250u64), Some(500), Some(750), Some(1000), Some(1250), Some(1500), Some(2000), None] {
                let mut s = mk(format!("head:rt{rt}/dt{dt}/rest@{second_at:?}"), vec![RequestSpec::new("GET", 0)], vec![ok()]);
                s.config.request_timeout_ms = rt;
                s.config.disconnect_timeout_ms = dt;
                s.config.keep_alive = Ka::Os;
                let len = s.stream().bytes.len();
                s.segments = vec![Segment { when: When::Start, from: 0, to: 10 }];
                if let Some(t) = second_at {
                    s.segments.push(Segment { when: When::At(t), from: 10, to: len });
                }
                s.env.horizon_ms = 4000;
                out.push(s);
            }
            // the head trickles in: several pieces before the deadline, the rest never / too late
            for (tn, times) in [("0-500-900-never", vec![500u64, 900]), ("0-250-500-750-late1500", vec![250, 500, 750, 1500]), ("0-250-500-intime", vec![250, 500])] {
                let mut s = mk(format!("head:rt{rt}/dt{dt}/trickle:{tn}"), vec![RequestSpec::new("GET", 0)], vec![ok()]);
                s.config.request_timeout_ms = rt;
                s.config.disconnect_timeout_ms = dt;
                let len = s.stream().bytes.len();
                let mut segs = vec![Segment { when: When::Start, from: 0, to: 4 }];
                let mut from = 4;
                for (i, t) in times.iter().enumerate() {
                    let last = i + 1 == times.len();
                    let to = if last && !tn.ends_with("never") { len } else { (from + 4).min(len - 2) };
                    segs.push(Segment { when: When::At(*t), from, to });
                    from = to;
                }
                s.segments = segs;
                s.env.horizon_ms = 4000;
                out.push(s);
            }
            // nothing at all is ever sent
            let mut s = mk(format!("head:rt{rt}/dt{dt}/silent"), vec![RequestSpec::new("GET", 0)], vec![ok()]);
            s.config.request_timeout_ms = rt;
            s.config.disconnect_timeout_ms = dt;
            s.segments = vec![Segment { when: When::At(100_000), from: 0, to: 1 }];
            s.env.horizon_ms = 4000;
            out.push(s);
        }
    }
    // (a') timeouts shorter than the date tick, on connections accepted some time after the
    // last tick: the cached clock lags, so a deadline computed from it may already lie in the
    // past at the moment its timer is armed
    for delay in [0u64, 250, 400] {
        for dt in [0u64, 250] {
            for (shape, first, later) in [("silent", 0usize, None), ("partial", 10, None), ("partial-late2000", 10, Some(2000u64))] {
                let mut s = mk(format!("head:rt250/dt{dt}/accept+{delay}/{shape}"), vec![RequestSpec::new("GET", 0)], vec![ok()]);
                s.config.request_timeout_ms = 250;
                s.config.disconnect_timeout_ms = dt;
                s.env.accept_delay_ms = delay;
                let len = s.stream().bytes.len();
                s.segments = if first == 0 { vec![Segment { when: When::At(100_000), from: 0, to: 1 }] } else { vec![Segment { when: When::Start, from: 0, to: first }] };
                if let Some(t) = later {
                    s.segments.push(Segment { when: When::At(t), from: first, to: len });
                }
                s.env.horizon_ms = 4000;
                out.push(s);
            }
        }
        // keep-alive shorter than the date tick
        for second_at in [None, Some(2000u64)] {
            let mut s = mk(format!("ka:Timeout(250)/dt0/rt0/accept+{delay}/second@{second_at:?}"), vec![RequestSpec::new("GET", 0), RequestSpec::new("GET", 1)], vec![ok(), ok()]);
            s.config.keep_alive = Ka::Timeout(250);
            s.env.accept_delay_ms = delay;
            let st = s.stream();
            let end0 = st.spans[0].2;
            s.segments = vec![Segment { when: When::Start, from: 0, to: end0 }];
            if let Some(t) = second_at {
                s.segments.push(Segment { when: When::At(t), from: end0, to: st.bytes.len() });
            }
            s.env.horizon_ms = 4000;
            out.push(s);
        }
        // disconnect timeout shorter than the date tick against a shutdown that never completes
        for (n, conn_close) in [("after-close-request", true), ("after-ka-disabled", false)] {
            let req = if conn_close { RequestSpec::new("GET", 0).conn("close") } else { RequestSpec::new("GET", 0) };
            let mut s = mk(format!("shutdown:{n}/dt250/accept+{delay}"), vec![req], vec![ok()]);
            s.config.disconnect_timeout_ms = 250;
            if !conn_close {
                s.config.keep_alive = Ka::Disabled;
            }
            s.env.accept_delay_ms = delay;
            s.env.shutdown_never = true;
            s.env.horizon_ms = 4000;
            out.push(s);
        }
    }
    // (b) keep-alive
    for ka in [Ka::Timeout(2000), Ka::Os, Ka::Disabled] {
        for (dt, rt) in [(0u64, 0u64), (1000, 0), (0, 1000)] {
            for second_at in [Some(500u64), Some(1000), Some(1250), Some(1500), Some(1750), Some(2000), Some(2250), Some(2500), Some(3000), None] {
                let mut s = mk(format!("ka:{ka:?}/dt{dt}/rt{rt}/second@{second_at:?}"), vec![RequestSpec::new("GET", 0), RequestSpec::new("GET", 1)], vec![ok(), ok()]);
                s.config.keep_alive = ka.clone();
                s.config.request_timeout_ms = rt;
                s.config.disconnect_timeout_ms = dt;
                let st = s.stream();
                let end0 = st.spans[0].2;
                s.segments = vec![Segment { when: When::Start, from: 0, to: end0 }];
                if let Some(t) = second_at {
                    s.segments.push(Segment { when: When::At(t), from: end0, to: st.bytes.len() });
                }
                s.env.horizon_ms = 5000;
                out.push(s);
            }
        }
    }
    // (b') keep-alive must also expire after a dropped chunked upload was drained
    for dt in [0u64, 1000] {
        for plan in [PayloadPlan::DropAtStart, PayloadPlan::ReadAllThenRespond] {
            let mut s = mk(format!("ka:after-upload/{plan:?}/dt{dt}/second@None"), vec![RequestSpec::new("POST", 0).chunked(vec![ChunkSpec::plain(b"0123456789"), ChunkSpec::plain(b"abcdefghij")])], vec![ok().plan(plan.clone())]);
            s.config.keep_alive = Ka::Timeout(2000);
            s.config.disconnect_timeout_ms = dt;
            let st = s.stream();
            let he = st.spans[0].1;
            s.segments = vec![Segment { when: When::Start, from: 0, to: he + 5 }, Segment { when: When::At(500), from: he + 5, to: st.bytes.len() }];
            s.env.horizon_ms = 6000;
            out.push(s);
        }
    }
    // (c) shutdown against a socket whose shutdown never completes, for every way of entering shutdown
    for dt in [1000u64] {
        let mut add = |name: &str, reqs: Vec<RequestSpec>, progs: Vec<HandlerProgram>, f: &dyn Fn(&mut Scenario)| {
            let mut s = mk(format!("shutdown:{name}/dt{dt}"), reqs, progs);
            s.config.disconnect_timeout_ms = dt;
            s.env.shutdown_never = true;
            s.env.horizon_ms = 6000;
            f(&mut s);
            out.push(s);
        };
        add("after-close-request", vec![RequestSpec::new("GET", 0).conn("close")], vec![ok()], &|_| {});
        add("after-http10", vec![RequestSpec::new("GET", 0).v10()], vec![ok()], &|_| {});
        add("after-ka-expiry", vec![RequestSpec::new("GET", 0)], vec![ok()], &|s| s.config.keep_alive = Ka::Timeout(1000));
        add("after-ka-disabled", vec![RequestSpec::new("GET", 0)], vec![ok()], &|s| s.config.keep_alive = Ka::Disabled);
        add("after-408", vec![RequestSpec::new("GET", 0)], vec![ok()], &|s| {
            s.config.request_timeout_ms = 1000;
            s.segments = vec![Segment { when: When::Start, from: 0, to: 10 }];
        });
        add("after-parse-error", vec![RequestSpec::new("POST", 0).malformed(Malformed::ClAndTe)], vec![ok()], &|_| {});
        add("after-peer-fin", vec![RequestSpec::new("GET", 0)], vec![ok()], &|s| s.fin = FinPlan::AfterAll);
        add("after-unread-body-linger", vec![RequestSpec::new("POST", 0).cl(b"0123456789")], vec![ok().plan(PayloadPlan::DropAtStart)], &|s| {
            let he = s.stream().spans[0].1;
            s.segments = vec![Segment { when: When::Start, from: 0, to: he + 3 }];
        });
        add("after-drain", vec![RequestSpec::new("GET", 0)], vec![ok().pend(1)], &|s| {
            s.config.signal = true;
            s.env.signal_at = Some(250);
        });
        // shutdown entered while response bytes are still unwritten and the peer has stopped
        // reading: the flush never completes. `by<ms>` = instant by which shutdown has begun.
        add("stalled-writes-408/by1750", vec![RequestSpec::new("GET", 0)], vec![ok()], &|s| {
            s.env.shutdown_never = false;
            s.env.stall_writes_after = Some(0);
            s.config.request_timeout_ms = 1000;
            s.segments = vec![Segment { when: When::Start, from: 0, to: 10 }];
        });
        add("stalled-writes-peer-fin/by1000", vec![RequestSpec::new("GET", 0)], vec![ok()], &|s| {
            s.env.shutdown_never = false;
            s.env.stall_writes_after = Some(10);
            s.fin = FinPlan::At(250);
        });
        add("stalled-writes-parse-error/by750", vec![RequestSpec::new("POST", 0).malformed(Malformed::ClAndTe)], vec![ok()], &|s| {
            s.env.shutdown_never = false;
            s.env.stall_writes_after = Some(0);
        });
        add("stalled-writes-drain/by1000", vec![RequestSpec::new("GET", 0)], vec![ok()], &|s| {
            s.env.shutdown_never = false;
            s.env.stall_writes_after = Some(10);
            s.config.signal = true;
            s.env.signal_at = Some(250);
        });
    }
    // (d) graceful shutdown signal at every event boundary
    let stream_body = || HandlerProgram::ok(BodySpec::BodyStream(vec![Chunk::Data(b"he".to_vec()), Chunk::Pending, Chunk::Data(b"llo".to_vec()), Chunk::Pending, Chunk::Data(b"!".to_vec())]));
    for (n, reqs, progs) in [
        ("idle", vec![], vec![]),
        ("one-pending", vec![RequestSpec::new("GET", 0)], vec![ok().pend(2)]),
        ("one-pending-handler-asks-keep-alive", vec![RequestSpec::new("GET", 0)], vec![ok().pend(2).keep_alive()]),
        ("one-streaming-handler-asks-keep-alive", vec![RequestSpec::new("GET", 0)], vec![stream_body().keep_alive()]),
        ("one-streaming", vec![RequestSpec::new("GET", 0)], vec![stream_body()]),
        ("pipelined-2", vec![RequestSpec::new("GET", 0), RequestSpec::new("GET", 1)], vec![ok().pend(1), ok()]),
        ("pipelined-3-streaming", vec![RequestSpec::new("GET", 0), RequestSpec::new("GET", 1), RequestSpec::new("GET", 2)], vec![stream_body().pend(1), ok(), ok()]),
        ("post-reading", vec![RequestSpec::new("POST", 0).cl(b"0123456789"), RequestSpec::new("GET", 1)], vec![ok().pend(1), ok()]),
        ("post-body-later", vec![RequestSpec::new("POST", 0).cl(b"0123456789")], vec![ok()]),
        ("post-chunked-body-later", vec![RequestSpec::new("POST", 0).chunked(vec![ChunkSpec::plain(b"01234"), ChunkSpec::plain(b"56789")])], vec![ok()]),
        ("post-body-later-pipelined", vec![RequestSpec::new("POST", 0).cl(b"0123456789"), RequestSpec::new("GET", 1)], vec![ok(), ok()]),
    ] {
        for dt in [0u64, 1000] {
            for later in [false, true] {
                if later && reqs.len() < 2 {
                    continue;
                }
                let mut s = mk(format!("drain:{n}/dt{dt}/later={later}"), reqs.clone(), progs.clone());
                s.config.signal = true;
                s.config.disconnect_timeout_ms = dt;
                s.env.signal_anytime = true;
                s.env.horizon_ms = 3000;
                if later {
                    let st = s.stream();
                    let end0 = st.spans[0].2;
                    s.segments = vec![Segment { when: When::Start, from: 0, to: end0 }, Segment { when: When::At(500), from: end0, to: st.bytes.len() }];
                }
                if n.contains("body-later") {
                    // the body of the in-flight request arrives in two later pieces
                    let st = s.stream();
                    let (_, he, _) = st.spans[0];
                    s.segments = vec![
                        Segment { when: When::Start, from: 0, to: he + 2 },
                        Segment { when: When::At(500), from: he + 2, to: he + 6 },
                        Segment { when: When::At(1000), from: he + 6, to: st.bytes.len() },
                    ];
                }
                out.push(s);
            }
        }
    }
    out
}

pub fn bound(sc: &Scenario, tier: &str) -> u32 {
    let drain = sc.name.starts_with("drain");
    match (tier, drain) {
        ("thorough", _) => 4,
        (_, true) => 2,
        (_, false) => 1,
    }
}
