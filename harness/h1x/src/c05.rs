//! C05 — per-connection memory is bounded by configuration, not by the peer.
//!
//! Black-box gauges measured by the driver at every step:
//!  * read-ahead  = bytes taken from the socket − stream offset already handed to the application
//!                  (covers unparsed input, decoded-but-unread payload and queued pipelined requests)
//!  * write-behind = response-body bytes pulled from handler bodies − bytes accepted by the socket

use crate::analysis::Analysis;
use crate::driver::Exec;
use crate::scenario::*;
use crate::viol;
use mc_core::Violation;

const P: &str = "C05";

/// Upper bound for read-ahead, derived from the code's constants and fixed here:
/// read buffer: the read loop stops at MAX_BUFFER_SIZE = 131 072 but one more read may fill the
/// spare capacity BytesMut grew to (< 2x) → 270 336; payload channel: back-pressure at 32 768 plus
/// the one chunk that crossed it (a chunk is at most one read buffer) → 303 104; 16 queued heads.
/// An unbounded variant accumulates the whole 1–8 MiB the peers below push.
pub const R_IN: usize = 600_000;
/// One poll reads at most until the read buffer reaches MAX_BUFFER_SIZE (plus the slack of the
/// last read, see above); several decode rounds within one poll do not happen.
pub const R_POLL: usize = 400_000;

pub fn check(sc: &Scenario, ex: &Exec, a: &Analysis) -> Vec<Violation> {
    let mut v = vec![];
    let kind = sc.name.split(':').next().unwrap_or("");
    let drain_mode = sc.programs.iter().any(|p| matches!(p.payload, PayloadPlan::DropAtStart));
    if ex.peaks.read_ahead > R_IN && !drain_mode {
        v.push(viol(P, "a", &format!("read-ahead-unbounded:{kind}"), format!(
            "the connection took {} bytes from the socket while only the first {} bytes of the stream had been handed to the application ({} requests dispatched): {} bytes held, bound {}",
            ex.peaks.read_ahead_at.0, ex.peaks.read_ahead_at.1, ex.peaks.read_ahead_at.2, ex.peaks.read_ahead, R_IN)));
    }
    // unparsed input is limited also while a dropped body is drained / lingered over: what the
    // connection takes from the socket in one poll is what it holds at once
    // (not while lingering: poll_linger reads and discards buffer after buffer within one poll,
    // so its intake per poll is not what it holds at once)
    if ex.peaks.intake_per_poll > R_POLL && sc.config.disconnect_timeout_ms == 0 {
        v.push(viol(P, "a", &format!("intake-per-poll-unbounded:{kind}"), format!(
            "the connection took {} bytes from the socket within a single poll (bound {}): it held them all at once", ex.peaks.intake_per_poll, R_POLL)));
    }
    let max_chunk = sc.programs.iter().map(|p| max_chunk(&p.body)).max().unwrap_or(0);
    let wb_bound = sc.config.write_buf + max_chunk + 64;
    if ex.peaks.write_behind > wb_bound {
        v.push(viol(P, "c", &format!("write-behind-unbounded:{kind}"), format!(
            "{} response-body bytes were pulled from the body ahead of the socket; bound is h1_write_buffer_size {} + largest chunk {} + 64",
            ex.peaks.write_behind, sc.config.write_buf, max_chunk)));
    }
    if kind == "head" {
        let finals = a.finals();
        let ok = finals.first().map(|r| r.status == 431).unwrap_or(false);
        if !ok {
            v.push(viol(P, "d", "oversized-head-not-431", format!("a request head that does not fit was answered with {:?} (connection result {:?}, {} bytes taken)", finals.first().map(|r| r.status), ex.done, ex.io.consumed)));
        }
        if ex.done.is_none() {
            v.push(viol(P, "d", "oversized-head-connection-open", "connection still open after an oversized head".into()));
        }
        // refused once: every further error response is queued in the write buffer of a
        // connection whose peer may never read
        if finals.len() > 1 {
            v.push(viol(P, "d", "oversized-head-refused-more-than-once", format!("{} responses were written for one oversized head (statuses {:?})", finals.len(), finals.iter().map(|r| r.status).collect::<Vec<_>>())));
        }
    }
    v
}

fn max_chunk(b: &BodySpec) -> usize {
    match b {
        BodySpec::Empty => 0,
        BodySpec::Bytes(x) => x.len(),
        BodySpec::Str(x) => x.len(),
        BodySpec::SizedStream(_, c) | BodySpec::BodyStream(c) | BodySpec::Custom(_, c) => c
            .iter()
            .map(|c| match c {
                Chunk::Data(d) => d.len(),
                _ => 0,
            })
            .max()
            .unwrap_or(0),
    }
}

pub fn nontrivial(ex: &Exec, _a: &Analysis) -> bool {
    // the peer really pushed more than the bound, or the body really produced more than the buffer
    ex.io.inbox_len > R_IN || ex.peaks.write_behind > 0
}

fn fill(n: usize) -> Vec<u8> {
    (0..n).map(|i| b'a' + (i % 23) as u8).collect()
}

pub fn scenarios(tier: &str) -> Vec<Scenario> {
    let mut out = vec![];
    let big = if tier == "thorough" { 8 << 20 } else { 2 << 20 };
    let budgets = vec![("read", 6), ("write", 6), ("flush", 3), ("env", 10), ("envq", 4), ("shutdown", 2)];
    let mut add = |name: String, reqs: Vec<RequestSpec>, progs: Vec<HandlerProgram>, f: &dyn Fn(&mut Scenario)| {
        let reqs: Vec<RequestSpec> = reqs.into_iter().enumerate().map(|(i, mut r)| {
            r.handler = i;
            r
        }).collect();
        let mut s = Scenario::new(&name, reqs, progs);
        s.env.gauges = true;
        s.env.spurious_polls = 40;
        s.env.light_log = true;
        s.env.budgets = budgets.clone();
        s.fin = FinPlan::Never;
        f(&mut s);
        out.push(s);
    };
    let ok = || HandlerProgram::ok(BodySpec::Bytes(b"ok".to_vec()));
    // (d) heads that never end
    add("head:1MiB-single-line".into(), vec![], vec![], &|s| {
        let mut t = b"GET /0 HTTP/1.1\r\nx-endless: ".to_vec();
        t.resize(1 << 20, b'a');
        s.tail = t;
    });
    add("head:endless-header-lines".into(), vec![], vec![], &|s| {
        let mut t = b"GET /0 HTTP/1.1\r\nhost: t\r\n".to_vec();
        while t.len() < (1 << 20) {
            t.extend_from_slice(b"x-filler: 0123456789012345678901234567890123456789012345678901234567890123456789\r\n");
        }
        s.tail = t;
    });
    // (a)(b) huge bodies against consumers that never read / read slowly / read in another task
    let consumers: Vec<(&str, PayloadPlan)> = vec![
        ("never-reads", PayloadPlan::HoldForever),
        ("slow-reader", PayloadPlan::ReadAllSlowlyThenRespond),
        ("external-reader", PayloadPlan::ExternalReaderThenRespond),
        ("responds-holds", PayloadPlan::HoldUnreadUntilBodyDone),
    ];
    for (cn, plan) in &consumers {
        add(format!("body-cl:{cn}"), vec![RequestSpec::new("POST", 0).cl(&fill(big))], vec![ok().plan(plan.clone())], &|_| {});
        let n64 = big / 65_536;
        add(format!("body-chunked-64k:{cn}"), vec![RequestSpec::new("POST", 0).chunked((0..n64).map(|_| ChunkSpec::plain(&fill(65_536))).collect())], vec![ok().plan(plan.clone())], &|_| {});
        let n1 = if tier == "thorough" { 400_000 } else { 120_000 };
        add(format!("body-chunked-1b:{cn}"), vec![RequestSpec::new("POST", 0).chunked((0..n1).map(|_| ChunkSpec::plain(b"z")).collect())], vec![ok().plan(plan.clone())], &|_| {});
    }
    // a dropped body that the connection drains (chunked) or lingers over (Content-Length +
    // disconnect timeout): judged by intake per poll (the bytes are discarded, not delivered)
    add("drain-chunked-64k:handler-drops".to_string(), vec![RequestSpec::new("POST", 0).chunked((0..(big / 65_536)).map(|_| ChunkSpec::plain(&fill(65_536))).collect())], vec![ok().plan(PayloadPlan::DropAtStart)], &|_| {});
    add("drain-chunked-1k:handler-drops".to_string(), vec![RequestSpec::new("POST", 0).chunked((0..(big / 1024 / 4)).map(|_| ChunkSpec::plain(&fill(1024))).collect())], vec![ok().plan(PayloadPlan::DropAtStart)], &|_| {});
    add("drain-cl-linger:handler-drops".to_string(), vec![RequestSpec::new("POST", 0).cl(&fill(big))], vec![ok().plan(PayloadPlan::DropAtStart)], &|s| {
        s.config.disconnect_timeout_ms = 1000;
        s.env.horizon_ms = 2500;
    });
    // back-pressure for the body of a pipelined request that is still waiting in the queue
    add("pipeline:slow-get-then-big-post".to_string(), vec![RequestSpec::new("GET", 0), RequestSpec::new("POST", 1).cl(&fill(big))], vec![ok().pend(1), ok()], &|s| s.env.hold_gates = true);
    add("pipeline:streaming-get-then-big-chunked-post".to_string(), vec![RequestSpec::new("GET", 0), RequestSpec::new("POST", 1).chunked((0..(big / 65_536)).map(|_| ChunkSpec::plain(&fill(65_536))).collect())],
        vec![HandlerProgram::ok(BodySpec::BodyStream(vec![Chunk::Data(b"a".to_vec()), Chunk::Pending, Chunk::Data(b"b".to_vec())])), ok()], &|s| s.env.hold_gates = true);
    // (e) thousands of pipelined requests against a handler that never completes
    add("pipeline:5000-handler-never-completes".into(), (0..5000).map(|i| RequestSpec::new("GET", i).header("x-pad", "0123456789012345678901234567890123456789012345678901234567890123456789012345678901234567890123456789")).collect(),
        (0..5000).map(|i| if i == 0 { ok().pend(1) } else { ok() }).collect(), &|s| s.env.hold_gates = true);
    // rounds of pipelined requests, each round ending in a request whose one-byte body arrives only
    // with the next round, against a handler that never completes: the cap on queued requests
    // must hold in every round
    {
        let rounds = 40usize;
        let per = 250usize;
        let mut reqs = vec![];
        for r in 0..rounds {
            for i in 0..per {
                let k = r * per + i;
                if i + 1 == per {
                    reqs.push(RequestSpec::new("POST", k).cl(b"z").header("x-pad", "0123456789012345678901234567890123456789012345678901234567890123456789012345678901234567890123456789"));
                } else {
                    reqs.push(RequestSpec::new("GET", k).header("x-pad", "0123456789012345678901234567890123456789012345678901234567890123456789012345678901234567890123456789"));
                }
            }
        }
        let n = reqs.len();
        add("pipeline:rounds-ending-in-an-incomplete-body".into(), reqs, (0..n).map(|i| if i == 0 { ok().pend(1) } else { ok() }).collect(), &|s| {
            s.env.hold_gates = true;
            let st = s.stream();
            let mut segs = vec![];
            let mut from = 0;
            for r in 0..rounds {
                // up to (not including) the body byte of the round's last request
                let last = (r + 1) * per - 1;
                let to = st.spans[last].2 - 1;
                segs.push(Segment { when: if r == 0 { When::Start } else { When::Quiescent }, from, to });
                from = to;
            }
            segs.push(Segment { when: When::Quiescent, from, to: st.bytes.len() });
            s.segments = segs;
        });
    }
    add("pipeline:5000-slow-socket".into(), (0..5000).map(|i| RequestSpec::new("GET", i)).collect(), (0..5000).map(|_| ok()).collect(), &|s| s.env.stall_writes_after = Some(0));
    // (c) huge responses against sockets that accept nothing / little, for every write-buffer size
    let bodies: Vec<(&str, Box<dyn Fn() -> BodySpec>)> = vec![
        ("4k-chunks", Box::new(move || BodySpec::BodyStream((0..(big / 4096)).map(|_| Chunk::Data(fill(4096))).collect()))),
        ("1m-chunks", Box::new(move || BodySpec::BodyStream((0..(big >> 20).max(2)).map(|_| Chunk::Data(fill(1 << 20))).collect()))),
        ("1b-chunks", Box::new(move || BodySpec::BodyStream((0..(if big > (2 << 20) { 300_000 } else { 20_000 })).map(|_| Chunk::Data(b"y".to_vec())).collect()))),
        ("sized-4k-chunks", Box::new(move || BodySpec::SizedStream(big as u64, (0..(big / 4096)).map(|_| Chunk::Data(fill(4096))).collect()))),
    ];
    for (bn, mk) in &bodies {
        for wb in [1usize, 1024, 32_768, 1 << 20] {
            for (sn, stall) in [("stalled-at-0", Some(0usize)), ("stalled-at-5000", Some(5000)), ("accepting", None)] {
                if sn == "accepting" && (*bn == "1b-chunks" || wb != 1024) {
                    continue;
                }
                add(format!("response:{bn}/wb{wb}/{sn}"), vec![RequestSpec::new("GET", 0)], vec![HandlerProgram::ok(mk())], &|s| {
                    s.config.write_buf = wb;
                    s.env.stall_writes_after = stall;
                });
            }
        }
    }
    // the same bodies as the conversion of a service error (the dispatcher's error-response path)
    for wb in [1usize, 1024] {
        let name = format!("response:4k-chunks/wb{wb}/stalled-at-0/as-service-error");
        let mk = &bodies[0].1;
        let mut s = Scenario::new(&name, vec![{ let mut r = RequestSpec::new("GET", 0); r.handler = 0; r }], vec![HandlerProgram::ok(mk()).status(500).as_error()]);
        s.env.gauges = true;
        s.env.spurious_polls = 40;
        s.env.light_log = true;
        s.env.budgets = vec![("read", 6), ("write", 6), ("flush", 3), ("env", 10), ("envq", 4), ("shutdown", 2)];
        s.fin = FinPlan::Never;
        s.config.write_buf = wb;
        s.env.stall_writes_after = Some(0);
        out.push(s);
    }
    // the same with an upgrade service configured (HttpServiceBuilder::upgrade rebuilds the
    // builder: every setting made before it must survive)
    for wb in [1usize, 1024] {
        let name = format!("response:4k-chunks/wb{wb}/stalled-at-0/upgrade-service-configured");
        let mk = &bodies[0].1;
        let mut s = Scenario::new(&name, vec![{ let mut r = RequestSpec::new("GET", 0); r.handler = 0; r }], vec![HandlerProgram::ok(mk())]);
        s.env.gauges = true;
        s.env.spurious_polls = 40;
        s.env.light_log = true;
        s.env.budgets = vec![("read", 6), ("write", 6), ("flush", 3), ("env", 10), ("envq", 4), ("shutdown", 2)];
        s.fin = FinPlan::Never;
        s.config.write_buf = wb;
        s.config.upgrade = true;
        s.env.stall_writes_after = Some(0);
        out.push(s);
    }
    out
}

pub fn bound(sc: &Scenario, tier: &str) -> u32 {
    let heavy = sc.name.contains("1b") || sc.name.contains("accepting") || sc.name.starts_with("pipeline");
    match (tier, heavy) {
        ("thorough", false) => 2,
        ("thorough", true) => 1,
        (_, false) => 1,
        (_, true) => 1,
    }
}
