//! One execution of the closed system: a real `h1::Dispatcher` (obtained through the public
//! `HttpService::build()…h1(svc)` path) around a scripted socket, scripted handlers / bodies and a
//! paused tokio clock. The harness is the only source of readiness, wake-ups, time and bytes.

use crate::scenario::*;
use actix_http::body::{BodySize, BodyStream, BoxBody, MessageBody, SizedStream};
use actix_http::{HttpMessage as _, HttpService, KeepAlive, Request, Response, StatusCode};
use actix_service::{fn_service, Service, ServiceFactory};
use bytes::Bytes;
use futures_core::Stream;
use mc_core::io::{IoState, ScriptIo, WriteMode};
use mc_core::wake::WakeCounter;
use mc_core::Chooser;
use std::cell::RefCell;
use std::collections::VecDeque;
use std::future::Future;
use std::pin::Pin;
use std::rc::Rc;
use std::task::{Context, Poll, Waker};
use std::time::Duration;

pub const GRID_MS: u64 = 250;
pub const MAX_STEPS: u64 = 3_000_000;

#[derive(Clone, Debug)]
pub enum Event {
    Dispatch {
        n: usize,
        handler: usize,
        method: String,
        target: String,
        version: u8,
        headers: Vec<(String, String)>,
        out_len: usize,
        now_ms: u64,
    },
    BodyRead { handler: usize, data: Vec<u8> },
    /// "eof" or "err:<Display of PayloadError>"
    BodyEnd { handler: usize, kind: String },
    PayloadDropped { handler: usize },
    Responded { handler: usize, out_len: usize, failed: bool, consumed: usize },
    ChunkPulled { handler: usize, data: Vec<u8> },
    /// "end" or "err"
    BodyDone { handler: usize, kind: String },
    BodyDropped { handler: usize, finished: bool },
    ConnDone { ok: bool, err: String, now_ms: u64 },
    Env { what: String, now_ms: u64 },
}

struct GateSlot {
    open: bool,
    waker: Option<Waker>,
    /// the environment releases this gate only at or after this virtual time
    not_before: u64,
}

pub struct Env {
    gates: RefCell<Vec<GateSlot>>,
    /// ids of gates not yet released, in registration order
    pending_gates: RefCell<Vec<usize>>,
    pub log: RefCell<Vec<Event>>,
    held: RefCell<Vec<actix_http::Payload>>,
    dispatched: RefCell<usize>,
    io: Rc<RefCell<IoState>>,
    now_ms: RefCell<u64>,
    signal: RefCell<(bool, Option<Waker>)>,
    readers: RefCell<Vec<ExtReader>>,
    /// per handler index: (request-body bytes handed to the application, body ended)
    body_read: RefCell<Vec<(usize, bool)>>,
    /// response-body bytes pulled from handler bodies
    pulled: RefCell<usize>,
    /// keep only lengths (not the bytes) of body events in the log
    light_log: bool,
}

/// A request-body reader that lives in its own task: polled by the harness only when its own
/// waker fired.
struct ExtReader {
    fut: Option<Pin<Box<dyn Future<Output = ()>>>>,
    wake: WakeCounter,
    started: bool,
}

struct FlagWait(Rc<RefCell<(bool, Option<Waker>)>>);
impl Future for FlagWait {
    type Output = ();
    fn poll(self: Pin<&mut Self>, cx: &mut Context<'_>) -> Poll<()> {
        let mut s = self.0.borrow_mut();
        if s.0 {
            Poll::Ready(())
        } else {
            s.1 = Some(cx.waker().clone());
            Poll::Pending
        }
    }
}

impl Env {
    fn push(&self, e: Event) {
        let e = match e {
            Event::BodyRead { handler, data } => {
                let mut br = self.body_read.borrow_mut();
                if br.len() <= handler && handler < 100_000 {
                    br.resize(handler + 1, (0, false));
                }
                if let Some(x) = br.get_mut(handler) {
                    x.0 += data.len();
                }
                if self.light_log {
                    Event::BodyRead { handler, data: vec![] }
                } else {
                    Event::BodyRead { handler, data }
                }
            }
            Event::BodyEnd { handler, kind } => {
                let mut br = self.body_read.borrow_mut();
                if br.len() <= handler && handler < 100_000 {
                    br.resize(handler + 1, (0, false));
                }
                if let Some(x) = br.get_mut(handler) {
                    x.1 = true;
                }
                Event::BodyEnd { handler, kind }
            }
            Event::ChunkPulled { handler, data } => {
                *self.pulled.borrow_mut() += data.len();
                if self.light_log {
                    Event::ChunkPulled { handler, data: vec![] }
                } else {
                    Event::ChunkPulled { handler, data }
                }
            }
            other => other,
        };
        self.log.borrow_mut().push(e);
    }
    fn now(&self) -> u64 {
        *self.now_ms.borrow()
    }
}

/// A wait that only the environment ends.
struct Gate {
    env: Rc<Env>,
    id: Option<usize>,
    not_before: u64,
}

impl Gate {
    fn new(env: &Rc<Env>) -> Self {
        Gate { env: env.clone(), id: None, not_before: 0 }
    }
    fn timed(env: &Rc<Env>, not_before: u64) -> Self {
        Gate { env: env.clone(), id: None, not_before }
    }
    fn poll_gate(&mut self, cx: &mut Context<'_>) -> Poll<()> {
        let mut gates = self.env.gates.borrow_mut();
        match self.id {
            None => {
                self.id = Some(gates.len());
                self.env.pending_gates.borrow_mut().push(gates.len());
                gates.push(GateSlot { open: false, waker: Some(cx.waker().clone()), not_before: self.not_before });
                Poll::Pending
            }
            Some(i) => {
                if gates[i].open {
                    Poll::Ready(())
                } else {
                    gates[i].waker = Some(cx.waker().clone());
                    Poll::Pending
                }
            }
        }
    }
}

impl Future for Gate {
    type Output = ();
    fn poll(mut self: Pin<&mut Self>, cx: &mut Context<'_>) -> Poll<()> {
        self.poll_gate(cx)
    }
}

struct SignalFut(Rc<Env>);
impl Future for SignalFut {
    type Output = ();
    fn poll(self: Pin<&mut Self>, cx: &mut Context<'_>) -> Poll<()> {
        let mut s = self.0.signal.borrow_mut();
        if s.0 {
            Poll::Ready(())
        } else {
            s.1 = Some(cx.waker().clone());
            Poll::Pending
        }
    }
}

/// Scripted chunk source shared by the custom body and the streams handed to
/// `SizedStream` / `BodyStream`.
struct ChunkScript {
    env: Rc<Env>,
    handler: usize,
    chunks: VecDeque<Chunk>,
    gate: Option<Gate>,
    /// request payload kept alive by (or read by) the body
    payload: Option<actix_http::Payload>,
    read_payload_first: bool,
    finished: bool,
    log_pulls: bool,
}

impl ChunkScript {
    fn poll_chunk(&mut self, cx: &mut Context<'_>) -> Poll<Option<Result<Bytes, std::io::Error>>> {
        if self.read_payload_first {
            if let Some(pl) = self.payload.as_mut() {
                loop {
                    match Pin::new(&mut *pl).poll_next(cx) {
                        Poll::Pending => return Poll::Pending,
                        Poll::Ready(Some(Ok(b))) => {
                            self.env.push(Event::BodyRead { handler: self.handler, data: b.to_vec() });
                        }
                        Poll::Ready(Some(Err(e))) => {
                            self.env.push(Event::BodyEnd { handler: self.handler, kind: format!("err:{e}") });
                            break;
                        }
                        Poll::Ready(None) => {
                            self.env.push(Event::BodyEnd { handler: self.handler, kind: "eof".into() });
                            break;
                        }
                    }
                }
            }
            self.read_payload_first = false;
        }
        loop {
            if let Some(g) = self.gate.as_mut() {
                match g.poll_gate(cx) {
                    Poll::Pending => return Poll::Pending,
                    Poll::Ready(()) => self.gate = None,
                }
            }
            match self.chunks.pop_front() {
                None => {
                    self.finished = true;
                    if self.log_pulls {
                        self.env.push(Event::BodyDone { handler: self.handler, kind: "end".into() });
                    }
                    return Poll::Ready(None);
                }
                Some(Chunk::Data(d)) => {
                    if self.log_pulls {
                        self.env.push(Event::ChunkPulled { handler: self.handler, data: d.clone() });
                    }
                    return Poll::Ready(Some(Ok(Bytes::from(d))));
                }
                Some(Chunk::Empty) => {
                    if self.log_pulls {
                        self.env.push(Event::ChunkPulled { handler: self.handler, data: vec![] });
                    }
                    return Poll::Ready(Some(Ok(Bytes::new())));
                }
                Some(Chunk::Pending) => {
                    self.gate = Some(Gate::new(&self.env));
                    continue;
                }
                Some(Chunk::Err) => {
                    self.finished = true;
                    if self.log_pulls {
                        self.env.push(Event::BodyDone { handler: self.handler, kind: "err".into() });
                    }
                    return Poll::Ready(Some(Err(std::io::Error::other("scripted body error"))));
                }
            }
        }
    }
}

impl Drop for ChunkScript {
    fn drop(&mut self) {
        if self.payload.take().is_some() {
            self.env.push(Event::PayloadDropped { handler: self.handler });
        }
        self.env.push(Event::BodyDropped { handler: self.handler, finished: self.finished });
    }
}

struct ScriptBody {
    core: ChunkScript,
    size: BodySize,
}

impl MessageBody for ScriptBody {
    type Error = std::io::Error;
    fn size(&self) -> BodySize {
        self.size
    }
    fn poll_next(
        mut self: Pin<&mut Self>,
        cx: &mut Context<'_>,
    ) -> Poll<Option<Result<Bytes, Self::Error>>> {
        self.core.poll_chunk(cx)
    }
}

struct ScriptStream(ChunkScript);
impl Stream for ScriptStream {
    type Item = Result<Bytes, std::io::Error>;
    fn poll_next(mut self: Pin<&mut Self>, cx: &mut Context<'_>) -> Poll<Option<Self::Item>> {
        self.0.poll_chunk(cx)
    }
}

/// Wraps a real body type (`Bytes`, `String`) so that a request payload can be kept alive until
/// the body is done.
struct Holding {
    inner: BoxBody,
    core: ChunkScript,
}

impl MessageBody for Holding {
    type Error = Box<dyn std::error::Error>;
    fn size(&self) -> BodySize {
        self.inner.size()
    }
    fn poll_next(
        mut self: Pin<&mut Self>,
        cx: &mut Context<'_>,
    ) -> Poll<Option<Result<Bytes, Self::Error>>> {
        if self.core.read_payload_first {
            // reuse the payload-reading part of the script (it has no chunks of its own)
            match self.core.poll_chunk(cx) {
                Poll::Pending => return Poll::Pending,
                Poll::Ready(_) => {}
            }
        }
        let r = Pin::new(&mut self.inner).poll_next(cx);
        if let Poll::Ready(None) = r {
            self.core.finished = true;
        }
        r
    }
}

fn build_body(env: &Rc<Env>, k: usize, spec: &BodySpec, payload: Option<actix_http::Payload>, read_first: bool) -> BoxBody {
    let mk = |chunks: &Vec<Chunk>, log_pulls: bool| ChunkScript {
        env: env.clone(),
        handler: k,
        chunks: chunks.iter().cloned().collect(),
        gate: None,
        payload: None,
        read_payload_first: false,
        finished: false,
        log_pulls,
    };
    match spec {
        BodySpec::Empty | BodySpec::Bytes(_) | BodySpec::Str(_) => {
            let inner: BoxBody = match spec {
                BodySpec::Empty => BoxBody::new(()),
                BodySpec::Bytes(b) => BoxBody::new(Bytes::from(b.clone())),
                BodySpec::Str(s) => BoxBody::new(s.clone()),
                _ => unreachable!(),
            };
            let mut core = mk(&vec![], false);
            core.payload = payload;
            core.read_payload_first = read_first;
            BoxBody::new(Holding { inner, core })
        }
        BodySpec::SizedStream(n, chunks) => {
            let mut core = mk(chunks, true);
            core.payload = payload;
            core.read_payload_first = read_first;
            BoxBody::new(SizedStream::new(*n, ScriptStream(core)))
        }
        BodySpec::BodyStream(chunks) => {
            let mut core = mk(chunks, true);
            core.payload = payload;
            core.read_payload_first = read_first;
            BoxBody::new(BodyStream::new(ScriptStream(core)))
        }
        BodySpec::Custom(decl, chunks) => {
            let mut core = mk(chunks, true);
            core.payload = payload;
            core.read_payload_first = read_first;
            let size = match decl {
                SizeDecl::None => BodySize::None,
                SizeDecl::Sized(n) => BodySize::Sized(*n),
                SizeDecl::Stream => BodySize::Stream,
            };
            BoxBody::new(ScriptBody { core, size })
        }
    }
}

/// The upgrade service: logs the request like a handler, answers `101 Switching Protocols` with
/// the request's tag through the framed transport it was handed, flushes and ends.
async fn upgraded(env: Rc<Env>, req: Request, mut framed: actix_codec::Framed<ScriptIo, actix_http::h1::Codec>) -> Result<(), actix_http::Error> {
    let k: usize = req.path().trim_start_matches('/').parse().unwrap_or(usize::MAX);
    let n = {
        let mut d = env.dispatched.borrow_mut();
        *d += 1;
        *d - 1
    };
    let mut headers: Vec<(String, String)> = vec![];
    let mut names: Vec<String> = req.headers().keys().map(|k| k.as_str().to_string()).collect();
    names.sort();
    names.dedup();
    for name in names {
        for v in req.headers().get_all(name.as_str()) {
            headers.push((name.clone(), String::from_utf8_lossy(v.as_bytes()).into_owned()));
        }
    }
    env.push(Event::Dispatch {
        n,
        handler: k,
        method: req.method().as_str().to_string(),
        target: req.uri().to_string(),
        version: if req.version() == actix_http::Version::HTTP_11 { 1 } else { 0 },
        headers,
        out_len: env.io.borrow().out.len(),
        now_ms: env.now(),
    });
    let res = Response::build(StatusCode::SWITCHING_PROTOCOLS).insert_header(("x-tag", format!("h{k}"))).finish().drop_body();
    env.push(Event::Responded { handler: k, out_len: env.io.borrow().out.len(), failed: false, consumed: env.io.borrow().rpos });
    let mut framed = Pin::new(&mut framed);
    let mut sent = framed.as_mut().write(actix_http::h1::Message::Item((res, BodySize::None))).is_ok();
    if sent {
        sent = std::future::poll_fn(|cx| framed.as_mut().flush(cx)).await.is_ok();
    }
    env.push(Event::Env { what: format!("upgrade-service-done ok={sent}"), now_ms: env.now() });
    Ok(())
}

/// A service error that converts into an arbitrary prepared response (so that the dispatcher's
/// error-response path, with its own body state, is exercised with any body kind).
pub struct SvcFail(Response<BoxBody>);
impl From<SvcFail> for Response<BoxBody> {
    fn from(e: SvcFail) -> Self {
        e.0
    }
}
impl std::fmt::Debug for SvcFail {
    fn fmt(&self, f: &mut std::fmt::Formatter<'_>) -> std::fmt::Result {
        f.write_str("SvcFail")
    }
}

async fn handle(env: Rc<Env>, programs: Rc<Vec<HandlerProgram>>, mut req: Request) -> Result<Response<BoxBody>, SvcFail> {
    let path = req.path().to_string();
    let k: usize = path.trim_start_matches('/').parse().unwrap_or(usize::MAX);
    let n = {
        let mut d = env.dispatched.borrow_mut();
        *d += 1;
        *d - 1
    };
    let mut headers: Vec<(String, String)> = vec![];
    // names in a deterministic order; values of one name in order
    let mut names: Vec<String> = req.headers().keys().map(|k| k.as_str().to_string()).collect();
    names.sort();
    names.dedup();
    for name in names {
        for v in req.headers().get_all(name.as_str()) {
            headers.push((name.clone(), String::from_utf8_lossy(v.as_bytes()).into_owned()));
        }
    }
    env.push(Event::Dispatch {
        n,
        handler: k,
        method: req.method().as_str().to_string(),
        target: req.uri().to_string(),
        version: if req.version() == actix_http::Version::HTTP_11 { 1 } else { 0 },
        headers,
        out_len: env.io.borrow().out.len(),
        now_ms: env.now(),
    });
    let default_prog = HandlerProgram::ok(BodySpec::Empty);
    let prog = programs.get(k).unwrap_or(&default_prog).clone();
    for _ in 0..prog.pend_before {
        Gate::new(&env).await;
    }
    if let Some(t) = prog.pend_until_ms {
        Gate::timed(&env, t).await;
    }
    let mut payload = Some(req.take_payload());
    let mut read_err: Option<actix_http::error::PayloadError> = None;
    let mut keep: Option<actix_http::Payload> = None;
    let mut read_first_in_body = false;
    match prog.payload {
        PayloadPlan::DropAtStart => {
            payload.take();
            env.push(Event::PayloadDropped { handler: k });
        }
        PayloadPlan::ReadAllThenRespond | PayloadPlan::ReadAllSlowlyThenRespond => {
            let mut pl = payload.take().unwrap();
            loop {
                if prog.payload == PayloadPlan::ReadAllSlowlyThenRespond {
                    Gate::new(&env).await;
                }
                match std::future::poll_fn(|cx| Pin::new(&mut pl).poll_next(cx)).await {
                    Some(Ok(b)) => env.push(Event::BodyRead { handler: k, data: b.to_vec() }),
                    Some(Err(e)) => {
                        env.push(Event::BodyEnd { handler: k, kind: format!("err:{e}") });
                        read_err = Some(e);
                        break;
                    }
                    None => {
                        env.push(Event::BodyEnd { handler: k, kind: "eof".into() });
                        break;
                    }
                }
            }
            drop(pl);
            env.push(Event::PayloadDropped { handler: k });
        }
        PayloadPlan::ReadFirstThenRespondDrop | PayloadPlan::ReadFirstThenRespondHold => {
            let mut pl = payload.take().unwrap();
            match std::future::poll_fn(|cx| Pin::new(&mut pl).poll_next(cx)).await {
                Some(Ok(b)) => env.push(Event::BodyRead { handler: k, data: b.to_vec() }),
                Some(Err(e)) => {
                    env.push(Event::BodyEnd { handler: k, kind: format!("err:{e}") });
                    read_err = Some(e);
                }
                None => env.push(Event::BodyEnd { handler: k, kind: "eof".into() }),
            }
            if prog.payload == PayloadPlan::ReadFirstThenRespondDrop {
                drop(pl);
                env.push(Event::PayloadDropped { handler: k });
            } else {
                keep = Some(pl);
            }
        }
        PayloadPlan::HoldUnreadUntilBodyDone => keep = payload.take(),
        PayloadPlan::HoldForever => {
            env.held.borrow_mut().push(payload.take().unwrap());
        }
        PayloadPlan::RespondThenReadAllInBody => {
            keep = payload.take();
            read_first_in_body = true;
        }
        PayloadPlan::ExternalReaderThenRespond | PayloadPlan::RespondWithExternalReader => {
            let mut pl = payload.take().unwrap();
            let flag: Rc<RefCell<(bool, Option<Waker>)>> = Rc::new(RefCell::new((false, None)));
            let (env2, flag2) = (env.clone(), flag.clone());
            let fut = async move {
                loop {
                    Gate::new(&env2).await;
                    match std::future::poll_fn(|cx| Pin::new(&mut pl).poll_next(cx)).await {
                        Some(Ok(b)) => env2.push(Event::BodyRead { handler: k, data: b.to_vec() }),
                        Some(Err(e)) => {
                            env2.push(Event::BodyEnd { handler: k, kind: format!("err:{e}") });
                            break;
                        }
                        None => {
                            env2.push(Event::BodyEnd { handler: k, kind: "eof".into() });
                            break;
                        }
                    }
                }
                drop(pl);
                env2.push(Event::PayloadDropped { handler: k });
                let w = {
                    let mut f = flag2.borrow_mut();
                    f.0 = true;
                    f.1.take()
                };
                if let Some(w) = w {
                    w.wake();
                }
            };
            env.readers.borrow_mut().push(ExtReader { fut: Some(Box::pin(fut)), wake: WakeCounter::new(), started: false });
            if prog.payload == PayloadPlan::ExternalReaderThenRespond {
                FlagWait(flag).await;
            }
        }
    }
    if prog.fail {
        if let Some(e) = read_err {
            env.push(Event::Responded { handler: k, out_len: env.io.borrow().out.len(), failed: true, consumed: env.io.borrow().rpos });
            // what actix-web's `ResponseError for PayloadError` answers
            let status = if matches!(e, actix_http::error::PayloadError::Overflow) { 413 } else { 400 };
            return Ok(Response::build(StatusCode::from_u16(status).unwrap()).body(format!("{e}")).map_into_boxed_body());
        }
    }
    let mut rb = Response::build(StatusCode::from_u16(prog.status).unwrap());
    rb.insert_header(("x-tag", format!("h{k}")));
    if prog.force_close {
        rb.force_close();
    }
    if prog.force_keep_alive {
        rb.keep_alive();
    }
    if let Some(n) = prog.no_chunking {
        rb.no_chunking(n);
    }
    for (hk, hv) in &prog.headers {
        rb.append_header((hk.as_str(), hv.as_str()));
    }
    let body = build_body(&env, k, &prog.body, keep, read_first_in_body);
    let resp = rb.body(body).map_into_boxed_body();
    env.push(Event::Responded { handler: k, out_len: env.io.borrow().out.len(), failed: false, consumed: env.io.borrow().rpos });
    if prog.as_service_error {
        // the same response, handed to the dispatcher as the conversion of a service error
        return Err(SvcFail(resp));
    }
    Ok(resp)
}

#[derive(Debug, Clone)]
pub struct IoSnap {
    pub out: Vec<u8>,
    pub writes: Vec<(usize, usize, u64)>,
    pub consumed: usize,
    pub inbox_len: usize,
    pub shutdown_calls: u32,
    pub shutdown_first_stamp: Option<u64>,
    pub shutdown_done: bool,
    pub dropped: bool,
    pub read_eof: bool,
    pub eof_delivered: bool,
    pub reset: bool,
    pub fault: Option<&'static str>,
    pub read_waiting: bool,
    pub write_waiting: bool,
    pub write_after_shutdown: u32,
    /// bytes a buffering transport accepted but never flushed
    pub staged: usize,
}

#[derive(Debug, Clone)]
pub struct Exec {
    pub log: Vec<Event>,
    pub io: IoSnap,
    /// Some(Ok) / Some(Err(display)) once the connection future completed
    pub done: Option<Result<(), String>>,
    pub done_at_ms: Option<u64>,
    pub steps: u64,
    pub now_ms: u64,
    pub spin_polls: u64,
    /// what a wake-less poll at a quiescent point changed (C04 a)
    pub probe_changes: Vec<String>,
    pub probes: u64,
    pub fin_delivered: bool,
    pub fin_at_ms: Option<u64>,
    pub signal_fired_at: Option<(u64, usize)>,
    pub all_segments_delivered: bool,
    /// peak of (bytes taken from the socket) - (bytes handed to handlers) etc. for C05
    pub peaks: Peaks,
    pub gates_total: usize,
    pub horizon_hit: bool,
}

#[derive(Debug, Clone, Default)]
pub struct Peaks {
    /// max of (bytes taken from the socket) - (stream offset handed to the application)
    pub read_ahead: usize,
    pub read_ahead_at: (usize, usize, usize),
    /// max of (response body bytes pulled from bodies) - (bytes accepted by the socket)
    pub write_behind: usize,
    /// largest number of bytes taken from the socket within one poll of the connection
    pub intake_per_poll: usize,
}

/// C05 gauges: what the connection holds in memory, seen from outside
fn update_gauges(sc: &Scenario, env: &Env, io: &Rc<RefCell<IoState>>, stream: &crate::scenario::Stream, wire_maps: &[Vec<(usize, usize)>], peaks: &mut Peaks) {
    if !sc.env.gauges {
        return;
    }
    let consumed = io.borrow().rpos;
    let out_len = io.borrow().out.len();
    let dispatched = *env.dispatched.borrow();
    let br = env.body_read.borrow();
    // stream offset up to which everything was handed to the application
    let mut delivered = 0usize;
    for i in 0..dispatched.min(wire_maps.len()) {
        let (read, ended) = br.get(i).copied().unwrap_or((0, false));
        let (_, head_end, end) = stream.spans[i];
        delivered = if ended && read >= wire_maps[i].last().map(|x| x.0).unwrap_or(0) { end } else { head_end + wire_of(&wire_maps[i], read) };
    }
    let ra = consumed.saturating_sub(delivered);
    if ra > peaks.read_ahead {
        peaks.read_ahead = ra;
        peaks.read_ahead_at = (consumed, delivered, dispatched);
    }
    let wb = env.pulled.borrow().saturating_sub(out_len);
    if wb > peaks.write_behind {
        peaks.write_behind = wb;
    }
}

/// (body offset, wire offset relative to head end) at chunk boundaries of one request
fn wire_map(r: &RequestSpec) -> Vec<(usize, usize)> {
    match &r.framing {
        Framing::None => vec![(0, 0)],
        Framing::Cl(b) => vec![(0, 0), (b.len(), b.len())],
        Framing::Chunked(chunks) => {
            let mut v = vec![(0usize, 0usize)];
            let (mut b, mut w) = (0usize, 0usize);
            for c in chunks {
                let size_line = format!("{:x}", c.data.len()).len() + c.ext.len() + if c.lws { 1 } else { 0 } + 2;
                // data of this chunk starts at w + size_line
                v.push((b, w + size_line));
                b += c.data.len();
                w += size_line + c.data.len() + 2;
                v.push((b, w));
            }
            v
        }
    }
}

fn wire_of(map: &[(usize, usize)], read: usize) -> usize {
    // largest wire offset known to be delivered for `read` body bytes: the map is sorted by body
    // offset (ties: framing entries), so take the last entry whose body offset is <= read
    let idx = map.partition_point(|&(b, _)| b <= read);
    if idx == 0 {
        return 0;
    }
    let (b0, w0) = map[idx - 1];
    let next_b = map.get(idx).map(|x| x.0).unwrap_or(b0);
    w0 + (read.min(next_b.max(b0)) - b0)
}

#[derive(Clone, Copy, PartialEq, Eq, Debug)]
enum Ev {
    Poll,
    Gate(usize),
    Reader(usize),
    Writable,
    Readable,
    Arrive(usize),
    Fin,
    Signal,
    Tick,
}

fn progress_tuple(env: &Env, done: bool) -> (usize, usize, usize, usize, bool, bool, bool, bool) {
    let io = env.io.borrow();
    (
        io.out.len(),
        io.rpos,
        env.log.borrow().len(),
        env.gates.borrow().len(),
        io.shutdown_done,
        io.write_waker.is_some(),
        io.read_waker.is_some(),
        done,
    )
}

pub fn run(sc: &Scenario, ch: &mut Chooser) -> Exec {
    let mut taken = std::mem::replace(ch, Chooser::new(vec![]));
    for (k, n) in &sc.env.budgets {
        taken.set_budget(k, *n);
    }
    let chooser = Rc::new(RefCell::new(taken));
    let rt = tokio::runtime::Builder::new_current_thread()
        .enable_time()
        .start_paused(true)
        .build()
        .unwrap();
    let local = tokio::task::LocalSet::new();
    let exec = local.block_on(&rt, drive(sc, chooser.clone()));
    drop(local);
    drop(rt);
    let c = Rc::try_unwrap(chooser).ok().expect("chooser still shared").into_inner();
    *ch = c;
    exec
}

async fn settle() {
    for _ in 0..4 {
        tokio::task::yield_now().await;
    }
}

async fn drive(sc: &Scenario, chooser: Rc<RefCell<Chooser>>) -> Exec {
    let stream = sc.stream();
    let io = Rc::new(RefCell::new(IoState::new(chooser.clone(), sc.io.to_opts())));
    io.borrow_mut().cuts = stream.cuts.clone();
    io.borrow_mut().shutdown_never = sc.env.shutdown_never;
    let env = Rc::new(Env {
        gates: RefCell::new(vec![]),
        pending_gates: RefCell::new(vec![]),
        log: RefCell::new(vec![]),
        held: RefCell::new(vec![]),
        dispatched: RefCell::new(0),
        io: io.clone(),
        now_ms: RefCell::new(0),
        signal: RefCell::new((false, None)),
        readers: RefCell::new(vec![]),
        body_read: RefCell::new(vec![]),
        pulled: RefCell::new(0),
        light_log: sc.env.light_log,
    });
    let programs = Rc::new(sc.programs.clone());

    let ka = match sc.config.keep_alive {
        Ka::Disabled => KeepAlive::Disabled,
        Ka::Os => KeepAlive::Os,
        Ka::Timeout(ms) => KeepAlive::Timeout(Duration::from_millis(ms)),
    };
    let env2 = env.clone();
    let mut builder = HttpService::build()
        .keep_alive(ka)
        .client_request_timeout(Duration::from_millis(sc.config.request_timeout_ms))
        .client_disconnect_timeout(Duration::from_millis(sc.config.disconnect_timeout_ms))
        .h1_allow_half_closed(sc.config.half_closed)
        .h1_write_buffer_size(sc.config.write_buf);
    if sc.config.signal {
        let env3 = env.clone();
        builder = builder.graceful_shutdown_signal(move || SignalFut(env3.clone()));
    }
    type ConnFut = Pin<Box<dyn Future<Output = Result<(), actix_http::error::DispatchError>>>>;
    let h1_service = fn_service::<_, _, Request, _, _, ()>(move |req: Request| handle(env2.clone(), programs.clone(), req));
    let start_conn: Box<dyn FnOnce(ScriptIo) -> ConnFut> = if sc.config.upgrade {
        let env4 = env.clone();
        let factory = builder
            .upgrade(fn_service::<_, _, _, _, _, ()>(move |(req, framed): (Request, actix_codec::Framed<ScriptIo, actix_http::h1::Codec>)| upgraded(env4.clone(), req, framed)))
            .h1(h1_service);
        let svc = factory.new_service(()).await.expect("service");
        Box::new(move |io: ScriptIo| Box::pin(svc.call((io, None::<std::net::SocketAddr>))) as ConnFut)
    } else {
        let factory = builder.h1(h1_service);
        let svc = factory.new_service(()).await.expect("service");
        Box::new(move |io: ScriptIo| Box::pin(svc.call((io, None::<std::net::SocketAddr>))) as ConnFut)
    };
    // let the date service run its first tick so the cached clock is the virtual clock
    settle().await;
    if sc.env.accept_delay_ms > 0 {
        // the connection is accepted some time after the last date tick: the cached clock lags
        tokio::time::advance(Duration::from_millis(sc.env.accept_delay_ms)).await;
        settle().await;
    }

    // segments
    let segments: Vec<Segment> = if sc.segments.is_empty() {
        vec![Segment { when: When::Start, from: 0, to: stream.bytes.len() }]
    } else {
        sc.segments.clone()
    };
    let mut next_seg = 0usize;
    while next_seg < segments.len() && segments[next_seg].when == When::Start {
        let s = &segments[next_seg];
        io.borrow_mut().arrive(&stream.bytes[s.from..s.to]);
        next_seg += 1;
    }

    let wire_maps: Vec<Vec<(usize, usize)>> = if sc.env.gauges { sc.requests.iter().map(wire_map).collect() } else { vec![] };
    let mut conn = start_conn(ScriptIo::new(io.clone()));
    let mut wk = WakeCounter::new();
    let waker = wk.waker();
    let mut first_poll = true;
    let mut done: Option<Result<(), String>> = None;
    let mut done_at = None;
    let mut steps = 0u64;
    let mut now_ms = 0u64;
    let mut spin_polls = 0u64;
    let mut noprogress_polls = 0u32;
    let mut probe_changes = vec![];
    let mut probes = 0u64;
    let mut fin_delivered = false;
    let mut fin_at = None;
    let mut signal_fired: Option<(u64, usize)> = None;
    let mut peaks = Peaks::default();
    let mut horizon_hit = false;
    let mut spurious_done = 0u32;
    let reorder = sc.env.reorder;

    loop {
        steps += 1;
        if steps > MAX_STEPS {
            horizon_hit = true;
            break;
        }
        io.borrow_mut().stamp = now_ms;
        *env.now_ms.borrow_mut() = now_ms;
        if let Some(n) = sc.env.stall_writes_after {
            let mut i = io.borrow_mut();
            if i.out.len() >= n {
                i.write_mode = WriteMode::Stalled;
            }
        }
        if done.is_some() {
            break;
        }
        // ---- tier 1: active events in canonical order
        let mut evs: Vec<Ev> = vec![];
        let conn_woken = first_poll || wk.is_woken();
        let poll_deprioritised = noprogress_polls >= 3;
        if conn_woken && !poll_deprioritised {
            evs.push(Ev::Poll);
        }
        {
            let readers = env.readers.borrow();
            for (i, r) in readers.iter().enumerate() {
                if r.fut.is_some() && (!r.started || r.wake.is_woken()) {
                    evs.push(Ev::Reader(i));
                }
            }
        }
        {
            if !sc.env.hold_gates {
                let gates = env.gates.borrow();
                for &i in env.pending_gates.borrow().iter() {
                    if gates[i].not_before <= now_ms {
                        evs.push(Ev::Gate(i));
                    }
                }
            }
        }
        {
            let i = io.borrow();
            if i.write_waker.is_some() && i.write_mode == WriteMode::Normal && !sc.env.shutdown_never {
                evs.push(Ev::Writable);
            } else if i.write_waker.is_some() && i.write_mode == WriteMode::Normal && sc.env.shutdown_never && !(i.shutdown_calls > 0) {
                evs.push(Ev::Writable);
            }
            if i.read_parked_by_choice {
                evs.push(Ev::Readable);
            }
        }
        if next_seg < segments.len() {
            if let When::At(t) = segments[next_seg].when {
                if t <= now_ms {
                    evs.push(Ev::Arrive(next_seg));
                }
            }
        }
        if !fin_delivered && next_seg >= segments.len() {
            if let FinPlan::At(t) = sc.fin {
                if t <= now_ms {
                    evs.push(Ev::Fin);
                }
            }
        }
        if sc.config.signal && signal_fired.is_none() {
            if let Some(t) = sc.env.signal_at {
                if t <= now_ms {
                    evs.push(Ev::Signal);
                }
            }
        }
        if conn_woken && poll_deprioritised && !evs.is_empty() {
            evs.push(Ev::Poll);
        }
        let active = !evs.is_empty();
        // anytime events are alternatives at every step
        let mut anytime: Vec<Ev> = vec![];
        if !fin_delivered && sc.fin == FinPlan::Anytime {
            anytime.push(Ev::Fin);
        }
        if sc.config.signal && signal_fired.is_none() && sc.env.signal_anytime {
            anytime.push(Ev::Signal);
        }
        let ev = if active {
            let mut all = evs.clone();
            all.extend(anytime.iter().copied());
            if reorder && all.len() > 1 {
                let p = chooser.borrow_mut().choose("env", all.len() as u32) as usize;
                all[p]
            } else {
                all[0]
            }
        } else {
            // ---- quiescent
            if sc.env.probe && done.is_none() {
                probes += 1;
                let before = progress_tuple(&env, false);
                let readers_woken_before: usize = env.readers.borrow().iter().map(|r| r.wake.count()).sum();
                let mut cx = Context::from_waker(&waker);
                let r = conn.as_mut().poll(&mut cx);
                if let Poll::Ready(res) = r {
                    done = Some(res.map_err(|e| e.to_string()));
                    done_at = Some(now_ms);
                }
                let after = progress_tuple(&env, done.is_some());
                let readers_woken_after: usize = env.readers.borrow().iter().map(|r| r.wake.count()).sum();
                if readers_woken_after != readers_woken_before {
                    probe_changes.push(format!(
                        "wake-less poll at quiescence (step {steps}, t={now_ms}ms) made progress: it woke a request-body reader task (reader {}->{}), out {}->{}, consumed {}->{}, log {}->{}, done {}->{}",
                        readers_woken_before, readers_woken_after, before.0, after.0, before.1, after.1, before.2, after.2, before.7, after.7
                    ));
                } else if before.0 != after.0 || before.1 != after.1 || before.2 != after.2 || before.4 != after.4 || before.7 != after.7 {
                    probe_changes.push(format!(
                        "wake-less poll at quiescence (step {steps}, t={now_ms}ms) made progress: out {}->{}, consumed {}->{}, log {}->{}, shutdown {}->{}, done {}->{}",
                        before.0, after.0, before.1, after.1, before.2, after.2, before.4, after.4, before.7, after.7
                    ));
                }
                if done.is_some() {
                    env.push(Event::ConnDone {
                        ok: matches!(done, Some(Ok(()))),
                        err: done.clone().unwrap().err().unwrap_or_default(),
                        now_ms,
                    });
                    break;
                }
                if wk.is_woken() && noprogress_polls < 3 {
                    // the probe itself produced a wake-up: not quiescent any more
                    continue;
                }
            }
            if spurious_done < sc.env.spurious_polls && done.is_none() {
                spurious_done += 1;
                let rpos_before = io.borrow().rpos;
                let mut cx = Context::from_waker(&waker);
                if let Poll::Ready(res) = conn.as_mut().poll(&mut cx) {
                    done = Some(res.map_err(|e| e.to_string()));
                    done_at = Some(now_ms);
                    env.push(Event::ConnDone { ok: matches!(done, Some(Ok(()))), err: done.clone().unwrap().err().unwrap_or_default(), now_ms });
                }
                peaks.intake_per_poll = peaks.intake_per_poll.max(io.borrow().rpos - rpos_before);
                update_gauges(sc, &env, &io, &stream, &wire_maps, &mut peaks);
                continue;
            }
            let mut q: Option<Ev> = None;
            if next_seg < segments.len() && segments[next_seg].when == When::Quiescent {
                q = Some(Ev::Arrive(next_seg));
            } else if now_ms < sc.env.horizon_ms {
                q = Some(Ev::Tick);
            } else if !fin_delivered && next_seg >= segments.len() && matches!(sc.fin, FinPlan::AfterAll | FinPlan::Anytime) {
                q = Some(Ev::Fin);
            }
            let mut all: Vec<Ev> = q.into_iter().collect();
            for a in &anytime {
                if !all.contains(a) {
                    all.push(*a);
                }
            }
            if conn_woken && poll_deprioritised {
                // a spinning connection is polled again after the environment moved
                if all.is_empty() {
                    break;
                }
            }
            if all.is_empty() {
                break;
            }
            if reorder && all.len() > 1 {
                let p = chooser.borrow_mut().choose("envq", all.len() as u32) as usize;
                all[p]
            } else {
                all[0]
            }
        };
        match ev {
            Ev::Poll => {
                first_poll = false;
                wk.take();
                let rpos_before = io.borrow().rpos;
                let before = progress_tuple(&env, false);
                let mut cx = Context::from_waker(&waker);
                let r = conn.as_mut().poll(&mut cx);
                if let Poll::Ready(res) = r {
                    done = Some(res.map_err(|e| e.to_string()));
                    done_at = Some(now_ms);
                    env.push(Event::ConnDone {
                        ok: matches!(done, Some(Ok(()))),
                        err: done.clone().unwrap().err().unwrap_or_default(),
                        now_ms,
                    });
                }
                let after = progress_tuple(&env, done.is_some());
                peaks.intake_per_poll = peaks.intake_per_poll.max(io.borrow().rpos - rpos_before);
                if before == after {
                    noprogress_polls += 1;
                    spin_polls += 1;
                } else {
                    noprogress_polls = 0;
                }
            }
            Ev::Reader(i) => {
                noprogress_polls = 0;
                // take the future out so that the reader may push new readers/gates while polled
                let (mut fut, waker) = {
                    let mut rs = env.readers.borrow_mut();
                    rs[i].started = true;
                    rs[i].wake.take();
                    (rs[i].fut.take().unwrap(), rs[i].wake.waker())
                };
                let mut cx = Context::from_waker(&waker);
                let r = fut.as_mut().poll(&mut cx);
                if r.is_pending() {
                    env.readers.borrow_mut()[i].fut = Some(fut);
                }
            }
            Ev::Gate(i) => {
                noprogress_polls = 0;
                env.pending_gates.borrow_mut().retain(|&x| x != i);
                let w = {
                    let mut g = env.gates.borrow_mut();
                    g[i].open = true;
                    g[i].waker.take()
                };
                if let Some(w) = w {
                    w.wake();
                }
            }
            Ev::Writable => {
                noprogress_polls = 0;
                io.borrow_mut().fire_writable();
            }
            Ev::Readable => {
                noprogress_polls = 0;
                io.borrow_mut().fire_readable();
            }
            Ev::Arrive(k) => {
                noprogress_polls = 0;
                let s = &segments[k];
                io.borrow_mut().arrive(&stream.bytes[s.from..s.to]);
                env.push(Event::Env { what: format!("arrive {}..{}", s.from, s.to), now_ms });
                next_seg = k + 1;
            }
            Ev::Fin => {
                noprogress_polls = 0;
                io.borrow_mut().peer_fin();
                fin_delivered = true;
                fin_at = Some(now_ms);
                env.push(Event::Env { what: "peer-fin".into(), now_ms });
            }
            Ev::Signal => {
                noprogress_polls = 0;
                let w = {
                    let mut s = env.signal.borrow_mut();
                    s.0 = true;
                    s.1.take()
                };
                signal_fired = Some((now_ms, env.log.borrow().len()));
                env.push(Event::Env { what: "signal".into(), now_ms });
                if let Some(w) = w {
                    w.wake();
                }
            }
            Ev::Tick => {
                noprogress_polls = 0;
                tokio::time::advance(Duration::from_millis(GRID_MS)).await;
                settle().await;
                now_ms += GRID_MS;
            }
        }
        update_gauges(sc, &env, &io, &stream, &wire_maps, &mut peaks);
    }

    let snap = {
        let i = io.borrow();
        IoSnap {
            out: i.out.clone(),
            writes: i.writes.clone(),
            consumed: i.rpos,
            inbox_len: i.inbox.len(),
            shutdown_calls: i.shutdown_calls,
            shutdown_first_stamp: i.shutdown_first_stamp,
            shutdown_done: i.shutdown_done,
            dropped: i.dropped,
            read_eof: i.read_eof,
            eof_delivered: i.eof_delivered,
            reset: i.reset,
            fault: i.fault,
            read_waiting: i.read_waker.is_some(),
            write_waiting: i.write_waker.is_some(),
            write_after_shutdown: i.write_after_shutdown,
            staged: i.staged.len(),
        }
    };
    let gates_total = env.gates.borrow().len();
    drop(conn);
    env.held.borrow_mut().clear();
    let rs: Vec<ExtReader> = std::mem::take(&mut *env.readers.borrow_mut());
    drop(rs);
    let mut snap = snap;
    snap.dropped = io.borrow().dropped;
    let log = env.log.borrow().clone();
    Exec {
        log,
        io: snap,
        done,
        done_at_ms: done_at,
        steps,
        now_ms,
        spin_polls,
        probe_changes,
        probes,
        fin_delivered,
        fin_at_ms: fin_at,
        signal_fired_at: signal_fired,
        all_segments_delivered: next_seg >= segments.len(),
        peaks,
        gates_total,
        horizon_hit,
    }
}
